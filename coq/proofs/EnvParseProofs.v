(* Proofs about EnvParse (the model of internal/opts parseOrDefault + strconv.ParseUint(s,0,64)). *)
From Coq Require Import List NArith ZArith Bool Lia.
From Frugal Require Import EnvParse.
Import ListNotations.
Open Scope N_scope.

Lemma parse_loop_cons : forall base base0 c s' n us,
  parse_loop base base0 (c :: s') n us =
      if (c =? 95) && base0 then parse_loop base base0 s' n true
      else
        let d := if (48 <=? c) && (c <=? 57) then Some (c - 48)
                 else if (97 <=? lower c) && (lower c <=? 122) then Some (lower c - 97 + 10)
                 else None in
        match d with
        | None => (UErr ESyntax, us)
        | Some d =>
            if base <=? d then (UErr ESyntax, us)
            else if (maxu64 / base + 1) <=? n then (UErr ERange, us)
            else let nb := n * base in
                 let n1 := (nb + d) mod two64 in
                 if (n1 <? nb) || (maxu64 <? n1) then (UErr ERange, us)
                 else parse_loop base base0 s' n1 us
        end.
Proof. reflexivity. Qed.

Lemma two64_nz : two64 <> 0.
Proof. vm_compute; discriminate. Qed.

Lemma loop_bound : forall base b0 s n us r us',
  parse_loop base b0 s n us = (UOk r, us') -> n < two64 -> r < two64.
Proof.
  induction s as [|c s IH]; intros n us r us' H Hn.
  - cbn [parse_loop] in H. inversion H; subst; auto.
  - rewrite parse_loop_cons in H.
    destruct ((c =? 95) && b0).
    + eapply IH; eauto.
    + cbv zeta in H.
      destruct (if (48 <=? c) && (c <=? 57) then Some (c - 48)
                 else if (97 <=? lower c) && (lower c <=? 122) then Some (lower c - 97 + 10)
                 else None) as [d|]; try discriminate.
      destruct (base <=? d); try discriminate.
      destruct (maxu64 / base + 1 <=? n); try discriminate.
      destruct (((n * base + d) mod two64 <? n * base) || (maxu64 <? (n * base + d) mod two64)); try discriminate.
      eapply IH; eauto. apply N.mod_lt. apply two64_nz.
Qed.

Definition step (a c : N) : N := a * 10 + (c - 48).

Lemma fold_ge : forall ds n, n <= fold_left step ds n.
Proof.
  induction ds as [|c ds IH]; intros n.
  - cbn [fold_left]. lia.
  - change (fold_left step (c :: ds) n) with (fold_left step ds (step n c)).
    specialize (IH (step n c)). unfold step in *. lia.
Qed.

Lemma maxdiv : maxu64 / 10 = 1844674407370955161.
Proof. vm_compute; reflexivity. Qed.

Lemma loop_dec : forall ds n, all_digits ds = true -> fold_left step ds n < two64 ->
  parse_loop 10 true ds n false = (UOk (fold_left step ds n), false).
Proof.
  induction ds as [|a ds IH]; intros n Hall Hlt.
  - reflexivity.
  - rewrite parse_loop_cons.
    change (all_digits (a :: ds)) with (((48 <=? a) && (a <=? 57)) && all_digits ds) in Hall.
    apply andb_true_iff in Hall. destruct Hall as [Ha Hds].
    rewrite Ha.
    apply andb_true_iff in Ha. destruct Ha as [Ha1 Ha2].
    apply N.leb_le in Ha1. apply N.leb_le in Ha2.
    assert (E95 : a =? 95 = false) by (apply N.eqb_neq; lia).
    rewrite E95. cbn [andb]. cbv zeta.
    change (fold_left step (a :: ds) n) with (fold_left step ds (step n a)) in *.
    pose proof (fold_ge ds (step n a)) as Hge.
    unfold step in *.
    assert (Hs : n * 10 + (a - 48) < two64) by lia.
    assert (E10 : 10 <=? a - 48 = false) by (apply N.leb_gt; lia).
    rewrite E10. rewrite maxdiv.
    assert (Ecut : 1844674407370955161 + 1 <=? n = false).
    { apply N.leb_gt. unfold two64 in Hs. lia. }
    rewrite Ecut.
    rewrite (N.mod_small _ _ Hs).
    assert (E1 : n * 10 + (a - 48) <? n * 10 = false) by (apply N.ltb_ge; lia).
    assert (E2 : maxu64 <? n * 10 + (a - 48) = false).
    { apply N.ltb_ge. unfold two64 in Hs. unfold maxu64. lia. }
    rewrite E1, E2. cbn [orb].
    apply IH; auto.
Qed.

(* TARGET STATEMENTS -- all proved *)

Lemma parse_uint0_bound : forall s n, parse_uint0 s = UOk n -> n < two64.
Proof.
  intros s n H. unfold parse_uint0 in H.
  destruct s as [|c0 r0]; try discriminate.
  destruct (if c0 =? 48 then _ else _) as [base body].
  destruct (parse_loop base true body 0 false) as [[r|e] us'] eqn:E; try discriminate.
  assert (r < two64) by (eapply loop_bound; eauto; vm_compute; reflexivity).
  destruct (us' && negb (underscore_ok (c0 :: r0))); inversion H; subst; auto.
Qed.

Theorem env_default_iff : forall s min, parse_or_default s min = EnvDefault <-> s = [].
Proof.
  intros s min; split; intros H.
  - destruct s as [|c r]; auto. unfold parse_or_default in H.
    destruct (parse_uint0 (c :: r)); try discriminate.
    cbv zeta in H. destruct (to_int64 n <=? min)%Z; discriminate.
  - subst; reflexivity.
Qed.

Theorem env_value_sound : forall s min v, (0 <= min)%Z -> parse_or_default s min = EnvValue v ->
  exists n, parse_uint0 s = UOk n /\ v = Z.of_N n /\ (min < v < 9223372036854775808)%Z.
Proof.
  intros s min v Hmin H. unfold parse_or_default in H.
  destruct s as [|c r]; try discriminate.
  destruct (parse_uint0 (c :: r)) as [n0|e] eqn:E; try discriminate.
  cbv zeta in H.
  destruct (to_int64 n0 <=? min)%Z eqn:L; try discriminate.
  inversion H; subst. clear H. apply Z.leb_gt in L.
  exists n0. split; auto.
  pose proof (parse_uint0_bound _ _ E) as Hb.
  unfold to_int64 in *. cbv zeta in *.
  rewrite (N.mod_small _ _ Hb) in *.
  destruct (n0 <? 9223372036854775808) eqn:C.
  - apply N.ltb_lt in C. split; auto. lia.
  - exfalso. lia.
Qed.

(* every decimal numeral without leading zero whose value is above the minimum and below 2^63 is accepted with that value *)
Theorem env_decimal_accepted : forall ds min, ds <> [] -> all_digits ds = true -> hd 0 ds <> 48 ->
  (0 <= min)%Z -> (min < Z.of_N (dec_val ds) < 9223372036854775808)%Z ->
  parse_or_default ds min = EnvValue (Z.of_N (dec_val ds)).
Proof.
  intros ds min Hne Hall Hhd Hmin Hv.
  destruct ds as [|c r]; [congruence|]. clear Hne.
  cbn [hd] in Hhd.
  assert (Hdv : dec_val (c :: r) = fold_left step (c :: r) 0) by reflexivity.
  remember (dec_val (c :: r)) as v eqn:Ev. clear Ev.
  assert (Hv64 : v < two64) by (unfold two64; lia).
  assert (HP : parse_uint0 (c :: r) = UOk v).
  { unfold parse_uint0.
    assert (E48 : c =? 48 = false) by (apply N.eqb_neq; auto).
    rewrite E48.
    rewrite loop_dec; auto.
    - rewrite <- Hdv. reflexivity.
    - rewrite <- Hdv. auto. }
  unfold parse_or_default. rewrite HP. cbv zeta.
  assert (HT : to_int64 v = Z.of_N v).
  { unfold to_int64. cbv zeta. rewrite (N.mod_small _ _ Hv64).
    assert (C : v <? 9223372036854775808 = true) by (apply N.ltb_lt; lia).
    rewrite C. reflexivity. }
  rewrite HT.
  assert (L : (Z.of_N v <=? min)%Z = false) by (apply Z.leb_gt; lia).
  rewrite L. reflexivity.
Qed.

(* ---- prefixed numerals (0b / 0o / 0x) ---- *)

Lemma parse_loop_cons_dv : forall base base0 c s' n us,
  parse_loop base base0 (c :: s') n us =
      if (c =? 95) && base0 then parse_loop base base0 s' n true
      else
        match digit_val c with
        | None => (UErr ESyntax, us)
        | Some d =>
            if base <=? d then (UErr ESyntax, us)
            else if (maxu64 / base + 1) <=? n then (UErr ERange, us)
            else if ((n * base + d) mod two64 <? n * base) || (maxu64 <? (n * base + d) mod two64)
                 then (UErr ERange, us)
                 else parse_loop base base0 s' ((n * base + d) mod two64) us
        end.
Proof. reflexivity. Qed.

Lemma digit_not95 : forall c d, digit_val c = Some d -> (c =? 95) = false.
Proof.
  intros c d H. destruct (N.eqb_spec c 95) as [E|E]; auto.
  subst. vm_compute in H. discriminate.
Qed.

Definition stepb (b a c : N) : N := a * b + match digit_val c with Some d => d | None => 0 end.

Lemma foldb_ge : forall b, 0 < b -> forall ds n, n <= fold_left (stepb b) ds n.
Proof.
  intros b Hb. induction ds as [|c ds IH]; intros n.
  - cbn [fold_left]. lia.
  - change (fold_left (stepb b) (c :: ds) n) with (fold_left (stepb b) ds (stepb b n c)).
    specialize (IH (stepb b n c)).
    assert (n <= stepb b n c) by (unfold stepb; nia).
    lia.
Qed.

Lemma maxu64_succ : maxu64 + 1 = two64.
Proof. vm_compute; reflexivity. Qed.

Lemma cutoff_ok : forall b n, 0 < b -> n * b < two64 -> (maxu64 / b + 1 <=? n) = false.
Proof.
  intros b n Hb H. apply N.leb_gt.
  assert (n <= maxu64 / b).
  { apply N.div_le_lower_bound; [lia|]. pose proof maxu64_succ. lia. }
  lia.
Qed.

Lemma loop_base : forall b, 0 < b -> forall ds n, digits_in b ds = true ->
  fold_left (stepb b) ds n < two64 ->
  parse_loop b true ds n false = (UOk (fold_left (stepb b) ds n), false).
Proof.
  intros b Hb. induction ds as [|a ds IH]; intros n Hall Hlt.
  - reflexivity.
  - rewrite parse_loop_cons_dv.
    change (digits_in b (a :: ds)) with
      ((match digit_val a with Some d => d <? b | None => false end) && digits_in b ds) in Hall.
    apply andb_true_iff in Hall. destruct Hall as [Ha Hds].
    change (fold_left (stepb b) (a :: ds) n) with (fold_left (stepb b) ds (stepb b n a)) in *.
    pose proof (foldb_ge b Hb ds (stepb b n a)) as Hge.
    destruct (digit_val a) as [d|] eqn:Ed; try discriminate.
    assert (Hx : stepb b n a = n * b + d) by (unfold stepb; rewrite Ed; reflexivity).
    rewrite Hx in *.
    apply N.ltb_lt in Ha.
    rewrite (digit_not95 _ _ Ed). cbn [andb].
    assert (Hs : n * b + d < two64) by lia.
    assert (Eb : b <=? d = false) by (apply N.leb_gt; lia).
    rewrite Eb.
    rewrite (cutoff_ok b n Hb) by lia.
    rewrite (N.mod_small _ _ Hs).
    assert (E1 : n * b + d <? n * b = false) by (apply N.ltb_ge; lia).
    assert (E2 : maxu64 <? n * b + d = false).
    { apply N.ltb_ge. pose proof maxu64_succ. lia. }
    rewrite E1, E2. cbn [orb].
    apply IH; auto.
Qed.

Lemma parse_uint0_prefixed : forall p b c r,
  In (p, b) [(98,2); (66,2); (111,8); (79,8); (120,16); (88,16)] ->
  parse_uint0 (48 :: p :: c :: r) =
    match parse_loop b true (c :: r) 0 false with
    | (UOk n, us) => if us && negb (underscore_ok (48 :: p :: c :: r)) then UErr ESyntax else UOk n
    | (UErr e, _) => UErr e
    end.
Proof.
  intros p b c r H. cbn [In] in H.
  repeat (destruct H as [H|H]; [inversion H; subst; reflexivity|]).
  destruct H.
Qed.

Theorem env_prefixed_accepted : forall p b ds min,
  In (p, b) [(98,2); (66,2); (111,8); (79,8); (120,16); (88,16)] ->
  ds <> [] -> digits_in b ds = true -> (0 <= min)%Z ->
  (min < Z.of_N (base_val b ds) < 9223372036854775808)%Z ->
  parse_or_default (48 :: p :: ds) min = EnvValue (Z.of_N (base_val b ds)).
Proof.
  intros p b ds min Hin Hne Hall Hmin Hv.
  destruct ds as [|c r]; [congruence|]. clear Hne.
  assert (Hb : 0 < b).
  { pose proof Hin as H. cbn [In] in H.
    repeat (destruct H as [H|H]; [inversion H; reflexivity|]). destruct H. }
  assert (Hdv : base_val b (c :: r) = fold_left (stepb b) (c :: r) 0) by reflexivity.
  remember (base_val b (c :: r)) as v eqn:Ev. clear Ev.
  assert (Hv64 : v < two64) by (unfold two64; lia).
  assert (HP : parse_uint0 (48 :: p :: c :: r) = UOk v).
  { rewrite (parse_uint0_prefixed p b c r Hin).
    rewrite (loop_base b Hb); auto.
    - rewrite <- Hdv. reflexivity.
    - rewrite <- Hdv. auto. }
  unfold parse_or_default. rewrite HP. cbv zeta.
  assert (HT : to_int64 v = Z.of_N v).
  { unfold to_int64. cbv zeta. rewrite (N.mod_small _ _ Hv64).
    assert (C : v <? 9223372036854775808 = true) by (apply N.ltb_lt; lia).
    rewrite C. reflexivity. }
  rewrite HT.
  assert (L : (Z.of_N v <=? min)%Z = false) by (apply Z.leb_gt; lia).
  rewrite L. reflexivity.
Qed.

(* ---- soundness for every accepted string; leading-zero octal ---- *)

Lemma parse_uint0_bb : forall s, s <> [] ->
  parse_uint0 s =
    let '(base, body) := base_body s in
    match parse_loop base true body 0 false with
    | (UOk n, us) => if us && negb (underscore_ok s) then UErr ESyntax else UOk n
    | (UErr e, _) => UErr e
    end.
Proof. intros s H. destruct s; [congruence | reflexivity]. Qed.

Lemma base_body_range : forall s b body, base_body s = (b, body) -> 0 < b /\ b <= 16.
Proof.
  intros s b body H. unfold base_body in H.
  destruct s as [|c0 r0]; [inversion H; subst; lia|].
  destruct (c0 =? 48); [|inversion H; subst; lia].
  destruct r0 as [|c1 [|c2 r2]]; try (inversion H; subst; lia).
  destruct (lower c1 =? 98); [inversion H; subst; lia|].
  destruct (lower c1 =? 111); [inversion H; subst; lia|].
  destruct (lower c1 =? 120); inversion H; subst; lia.
Qed.

Lemma no_us_cons : forall c s,
  no_underscores (c :: s) = if c =? 95 then no_underscores s else c :: no_underscores s.
Proof. intros c s. unfold no_underscores. cbn [filter]. destruct (c =? 95); reflexivity. Qed.

Lemma loop_sound : forall b, 0 < b -> b <= 16 -> forall s n us r us',
  parse_loop b true s n us = (UOk r, us') -> n < two64 ->
  digits_in b (no_underscores s) = true /\
  r = fold_left (stepb b) (no_underscores s) n /\ r < two64.
Proof.
  intros b Hb Hb16. induction s as [|c s IH]; intros n us r us' H Hn.
  - cbn [parse_loop] in H. inversion H; subst. repeat split; auto.
  - rewrite parse_loop_cons_dv in H. rewrite no_us_cons.
    destruct (c =? 95) eqn:E95; cbn [andb] in H.
    + eapply IH; eauto.
    + destruct (digit_val c) as [d|] eqn:Ed; try discriminate.
      destruct (b <=? d) eqn:Eb; try discriminate.
      destruct (maxu64 / b + 1 <=? n) eqn:Ec; try discriminate.
      destruct (((n * b + d) mod two64 <? n * b) || (maxu64 <? (n * b + d) mod two64)) eqn:Eo;
        try discriminate.
      apply orb_false_iff in Eo. destruct Eo as [E1 E2].
      apply N.leb_gt in Eb. apply N.leb_gt in Ec. apply N.ltb_ge in E1.
      assert (Hnb : n * b <= maxu64).
      { pose proof (N.mul_div_le maxu64 b) as Hm.
        assert (b * n <= b * (maxu64 / b)) by (apply N.mul_le_mono_l; lia).
        lia. }
      assert (Hmod : (n * b + d) mod two64 = n * b + d).
      { pose proof (N.div_mod (n * b + d) two64 two64_nz) as Hdm.
        pose proof (N.mod_lt (n * b + d) two64 two64_nz) as Hml.
        remember ((n * b + d) mod two64) as m. remember ((n * b + d) / two64) as q.
        clear Heqm Heqq. unfold two64 in *. unfold maxu64 in *. lia. }
      rewrite Hmod in H.
      assert (Hs : n * b + d < two64).
      { rewrite <- Hmod. apply N.mod_lt. apply two64_nz. }
      destruct (IH _ _ _ _ H Hs) as [Hd [Hr Hlt]].
      change (digits_in b (c :: no_underscores s)) with
        ((match digit_val c with Some d => d <? b | None => false end)
           && digits_in b (no_underscores s)).
      change (fold_left (stepb b) (c :: no_underscores s) n)
        with (fold_left (stepb b) (no_underscores s) (stepb b n c)).
      assert (Hx : stepb b n c = n * b + d) by (unfold stepb; rewrite Ed; reflexivity).
      rewrite Hx, Ed, Hd.
      assert (Hdb : d <? b = true) by (apply N.ltb_lt; lia).
      rewrite Hdb. repeat split; auto.
Qed.

Theorem parse_uint0_sound : forall s n, parse_uint0 s = UOk n ->
  exists b body, base_body s = (b, body) /\
    digits_in b (no_underscores body) = true /\ n = base_val b (no_underscores body) /\ n < two64.
Proof.
  intros s n H.
  destruct s as [|c0 r0]; [discriminate H|].
  rewrite parse_uint0_bb in H by discriminate.
  destruct (base_body (c0 :: r0)) as [b body] eqn:EB.
  exists b, body. split; auto.
  destruct (base_body_range _ _ _ EB) as [Hb Hb16].
  destruct (parse_loop b true body 0 false) as [[r|e] us'] eqn:EL; try discriminate.
  apply (loop_sound b Hb Hb16) in EL; [|vm_compute; reflexivity].
  destruct EL as [Hd [Hr Hlt]].
  destruct (us' && negb (underscore_ok (c0 :: r0))); inversion H; subst.
  repeat split; auto.
Qed.

Lemma pod_of_parse : forall s v min, s <> [] -> parse_uint0 s = UOk v ->
  (min < Z.of_N v < 9223372036854775808)%Z ->
  parse_or_default s min = EnvValue (Z.of_N v).
Proof.
  intros s v min Hne HP Hv.
  destruct s as [|c0 r0]; [congruence|].
  assert (Hv64 : v < two64) by (unfold two64; lia).
  unfold parse_or_default. rewrite HP. cbv zeta.
  assert (HT : to_int64 v = Z.of_N v).
  { unfold to_int64. cbv zeta. rewrite (N.mod_small _ _ Hv64).
    assert (C : v <? 9223372036854775808 = true) by (apply N.ltb_lt; lia).
    rewrite C. reflexivity. }
  rewrite HT.
  assert (L : (Z.of_N v <=? min)%Z = false) by (apply Z.leb_gt; lia).
  rewrite L. reflexivity.
Qed.

Lemma octal_digit_lower : forall c d, digit_val c = Some d -> d < 8 ->
  (lower c =? 98) = false /\ (lower c =? 111) = false /\ (lower c =? 120) = false.
Proof.
  intros c d H Hd. unfold digit_val in H.
  destruct ((48 <=? c) && (c <=? 57)) eqn:E.
  - apply andb_true_iff in E. destruct E as [E1 E2].
    apply N.leb_le in E1. apply N.leb_le in E2.
    inversion H; subst. clear H.
    assert (Hc : c = 48 \/ c = 49 \/ c = 50 \/ c = 51 \/ c = 52 \/ c = 53 \/ c = 54 \/ c = 55)
      by lia.
    clear E1 E2 Hd.
    repeat (destruct Hc as [Hc|Hc]); subst; vm_compute; repeat split; reflexivity.
  - destruct ((97 <=? lower c) && (lower c <=? 122)); [|discriminate].
    inversion H; subst. exfalso. lia.
Qed.

Lemma base_body_octal : forall c r d, digit_val c = Some d -> d < 8 ->
  base_body (48 :: c :: r) = (8, c :: r).
Proof.
  intros c r d H Hd. destruct r as [|c2 r2]; [reflexivity|].
  destruct (octal_digit_lower c d H Hd) as [E1 [E2 E3]].
  unfold base_body. change (48 =? 48) with true. cbv beta iota.
  rewrite E1, E2, E3. reflexivity.
Qed.

Theorem env_octal_accepted : forall ds min, ds <> [] -> digits_in 8 ds = true -> (0 <= min)%Z ->
  (min < Z.of_N (base_val 8 ds) < 9223372036854775808)%Z ->
  parse_or_default (48 :: ds) min = EnvValue (Z.of_N (base_val 8 ds)).
Proof.
  intros ds min Hne Hall Hmin Hv.
  destruct ds as [|c r]; [congruence|]. clear Hne.
  assert (Hc : exists d, digit_val c = Some d /\ d < 8).
  { change (digits_in 8 (c :: r)) with
      ((match digit_val c with Some d => d <? 8 | None => false end) && digits_in 8 r) in Hall.
    apply andb_true_iff in Hall. destruct Hall as [Ha _].
    destruct (digit_val c) as [d|]; [|discriminate].
    exists d. split; auto. apply N.ltb_lt; auto. }
  destruct Hc as [d [Ed Hd]].
  assert (Hdv : base_val 8 (c :: r) = fold_left (stepb 8) (c :: r) 0) by reflexivity.
  remember (base_val 8 (c :: r)) as v eqn:Ev. clear Ev.
  assert (Hv64 : v < two64) by (unfold two64; lia).
  apply pod_of_parse; [discriminate| |auto].
  rewrite parse_uint0_bb by discriminate.
  rewrite (base_body_octal c r d Ed Hd). cbv beta iota.
  rewrite (loop_base 8); [| reflexivity | auto | rewrite <- Hdv; auto].
  cbn [andb]. rewrite <- Hdv. reflexivity.
Qed.
