(* GenDesc.v -- side condition on gen/Discipline.v, re-proved on every run against what the
   translator read from the Go sources. *)
From Frugal Require Import DisciplineChecks.

Lemma desc_ok_holds : desc_ok = true.
Proof. vm_compute. reflexivity. Qed.
