(* RoundTrip.v -- property C01: decoding what the encoder wrote gives the value
   back, up to the documented normalisations [norm].

   (1) absorb_denote : the reference decoder inverts the reference encoder;
   (2) need_denote, skipped_denote : depth budget of the message;
   (3) roundtrip : decode_object (append_struct v ++ rest) = norm_top v. *)
From Coq Require Import List PeanoNat NArith Bool Lia ZifyN ZifyNat ZifyBool.
From Frugal Require Import Bytes Wire Skip Values Desc Spec Encode Decode Checks.
From Frugal.gen Require Import Params.
From Frugal.proofs Require Import BytesWire EncodeSpec SkipPut DecodeRefines ParamsSplit.
Import ListNotations.
Open Scope N_scope.

(* ------------------------------------------------------------------ *)
(* the two copies of holders_empty                                      *)
(* ------------------------------------------------------------------ *)

Lemma holders_empty_same : forall v, EncodeSpec.holders_empty v = Spec.holders_empty v.
Proof.
  induction v as [x|n s| |l IH| |m IH| |v IH|fs h IH] using val_ind'; try reflexivity.
  - cbn [EncodeSpec.holders_empty Spec.holders_empty].
    induction IH as [|x l Hx _ IHl]; [reflexivity|]. cbn [forallb]. rewrite Hx, IHl. reflexivity.
  - cbn [EncodeSpec.holders_empty Spec.holders_empty].
    induction IH as [|kv m [Hk Hv] _ IHm]; [reflexivity|]. cbn [forallb]. rewrite Hk, Hv, IHm. reflexivity.
  - exact IH.
  - cbn [EncodeSpec.holders_empty Spec.holders_empty]. destruct h; [|reflexivity]. cbn [andb].
    induction IH as [|x l Hx _ IHl]; [reflexivity|]. cbn [forallb]. rewrite Hx, IHl. reflexivity.
Qed.

(* ------------------------------------------------------------------ *)
(* the shape of a slot's prior content                                  *)
(* ------------------------------------------------------------------ *)

(* A by-value struct slot must already hold a struct value with one cell per
   descriptor field (the decoder indexes into it), and so must, recursively,
   its own by-value struct fields.  Nothing is asked of any other slot. *)
Definition is_struct_ty (t : ty) : bool := match t with TStruct _ => true | _ => false end.

Lemma prior_ok_nonstruct : forall env t p, is_struct_ty t = false -> prior_ok env t p = true.
Proof. intros env t p H. destruct p; destruct t; try reflexivity; discriminate H. Qed.

Lemma prior_ok_VT : forall env sid ps ph, prior_ok env (TStruct sid) (VT ps ph) =
  match lookup_sd env sid with
  | Some sd => fields_all (fun f p' => prior_ok env (fty f) p') (sfields sd) ps
  | None => true
  end.
Proof. reflexivity. Qed.

Lemma prior_ok_struct_inv : forall env sid p, prior_ok env (TStruct sid) p = true ->
  exists ps ph, p = VT ps ph.
Proof. intros env sid p H. destruct p; try discriminate H. eexists. eexists. reflexivity. Qed.



(* ------------------------------------------------------------------ *)
(* lists                                                                *)
(* ------------------------------------------------------------------ *)

Lemma fields_all_set_nth : forall (g : field -> val -> bool) ps fds i x,
  fields_all g fds ps = true ->
  (forall f, nth_error fds i = Some f -> g f x = true) ->
  fields_all g fds (set_nth ps i x) = true.
Proof.
  induction ps as [|p pr IH]; intros fds i x Hall Hx.
  - exact Hall.
  - destruct fds as [|f fr]; [discriminate Hall|].
    cbn [fields_all] in Hall. apply andb_true_iff in Hall. destruct Hall as [Hp Hall].
    destruct i as [|i]; cbn [set_nth fields_all].
    + rewrite (Hx f eq_refl), Hall. reflexivity.
    + rewrite Hp. cbn [andb]. apply IH; [exact Hall|]. intros f' Hf'. apply Hx. exact Hf'.
Qed.

Lemma fields_all_map : forall (g : field -> val -> bool) (h : field -> val) fds,
  (forall f, In f fds -> g f (h f) = true) -> fields_all g fds (map h fds) = true.
Proof.
  induction fds as [|f fr IH]; intros H; [reflexivity|].
  cbn [map fields_all]. rewrite (H f (or_introl eq_refl)). cbn [andb].
  apply IH. intros f' Hf'. apply H. right. exact Hf'.
Qed.

Lemma nth_app_len : forall (A : Type) (pre : list A) x r d, nth (length pre + 0) (pre ++ x :: r) d = x.
Proof.
  intros A pre x r d. rewrite Nat.add_0_r. induction pre as [|y pre IH]; [reflexivity|exact IH].
Qed.

Lemma set_nth_app_len : forall (A : Type) (pre : list A) x y r,
  set_nth (pre ++ x :: r) (length pre + 0) y = pre ++ y :: r.
Proof.
  intros A pre x y r. rewrite Nat.add_0_r. induction pre as [|z pre IH]; [reflexivity|].
  cbn [app length set_nth]. rewrite IH. reflexivity.
Qed.

Lemma find_all_false : forall (A : Type) (p : A -> bool) l,
  (forall x, In x l -> p x = false) -> find p l = None.
Proof.
  intros A p l. induction l as [|x l IH]; intros H; [reflexivity|].
  cbn [find]. rewrite (H x (or_introl eq_refl)). apply IH. intros y Hy. apply H. right. exact Hy.
Qed.

Lemma need_max_bound : forall (A : Type) (f : A -> nat) l n,
  (forall x, In x l -> (f x <= n)%nat) -> (need_max f l <= n)%nat.
Proof.
  intros A f l n. induction l as [|x l IH]; intros H; cbn [need_max]; [lia|].
  pose proof (H x (or_introl eq_refl)) as H1.
  assert (H2 : (need_max f l <= n)%nat) by (apply IH; intros y Hy; apply H; right; exact Hy).
  lia.
Qed.

Lemma vdepth_fold_le : forall l x, In x l ->
  (vdepth x <= fold_right (fun e m => Nat.max (vdepth e) m) O l)%nat.
Proof.
  induction l as [|y l IH]; intros x Hx; [destruct Hx|].
  cbn [fold_right]. destruct Hx as [E|Hx]; [subst y; lia|]. pose proof (IH x Hx). lia.
Qed.

Lemma vdepth_fold_pair_le : forall (m : list (val * val)) kv, In kv m ->
  (Nat.max (vdepth (fst kv)) (vdepth (snd kv))
   <= fold_right (fun kv m => Nat.max (Nat.max (vdepth (fst kv)) (vdepth (snd kv))) m) O m)%nat.
Proof.
  induction m as [|y m IH]; intros kv Hkv; [destruct Hkv|].
  cbn [fold_right]. destruct Hkv as [E|Hkv]; [subst y; lia|]. pose proof (IH kv Hkv). lia.
Qed.

(* the field found for the id of the j-th field of a sorted descriptor *)
Lemma find_field_sorted : forall fds j f i, sorted_ids fds = true -> nth_error fds j = Some f ->
  find_field fds (fid f) i = Some ((i + j)%nat, f).
Proof.
  induction fds as [|g fr IH]; intros j f i Hso Hj.
  - destruct j; discriminate Hj.
  - destruct j as [|j]; cbn [nth_error] in Hj; cbn [find_field].
    + injection Hj as Hj. subst g. rewrite N.eqb_refl, Nat.add_0_r. reflexivity.
    + pose proof (sorted_ids_head_lt fr g f Hso (nth_error_In _ _ Hj)) as Hlt.
      assert (E : (fid g =? fid f) = false) by (apply N.eqb_neq; lia). rewrite E.
      rewrite (IH j f (S i) (sorted_ids_tail g fr Hso) Hj). f_equal. f_equal. lia.
Qed.

(* what the zipped loop of [denote] writes *)
Lemma fields_cat_in : forall env fw vs fds,
  In fw (fields_cat (spec_field env) fds vs) ->
  exists i f v, nth_error fds i = Some f /\ nth_error vs i = Some v /\ emits f v = true
                /\ fw = (fid f, denote env (fty f) v).
Proof.
  induction vs as [|v vr IH]; intros fds H; [destruct H|].
  destruct fds as [|f fr]; [destruct H|].
  cbn [fields_cat] in H. apply in_app_or in H. destruct H as [H|H].
  - unfold spec_field in H. destruct (emits f v) eqn:Hem; [|destruct H].
    destruct H as [H|[]]. exists O, f, v. repeat split; [exact Hem|symmetry; exact H].
  - destruct (IH fr H) as (i & f' & v' & H1 & H2 & H3 & H4).
    exists (S i), f', v'. repeat split; assumption.
Qed.

(* ------------------------------------------------------------------ *)
(* one-step unfoldings                                                  *)
(* ------------------------------------------------------------------ *)

Definition norm_fields (env : senv) : list field -> list val -> list val -> list val :=
  fix go (fds : list field) (vs ps : list val) {struct vs} : list val :=
    match vs, fds, ps with
    | v' :: vr, f :: fr, p :: pr =>
        (if emits f v' then norm env (fty f) v' p else p) :: go fr vr pr
    | _, _, _ => []
    end.

Lemma norm_fields_cons : forall env f fr v vr p pr,
  norm_fields env (f :: fr) (v :: vr) (p :: pr)
  = (if emits f v then norm env (fty f) v p else p) :: norm_fields env fr vr pr.
Proof. reflexivity. Qed.
Lemma norm_fields_nil : forall env fds ps, norm_fields env fds [] ps = [].
Proof. reflexivity. Qed.

Lemma norm_VS : forall env t x p, norm env t (VS x) p = VS (enum_fix t x).
Proof. reflexivity. Qed.
Lemma norm_VB : forall env t n s p, norm env t (VB n s) p = VB false s.
Proof. reflexivity. Qed.
Lemma norm_VLn : forall env t p, norm env t (VL None) p = VL (Some []).
Proof. reflexivity. Qed.
Lemma norm_VLs : forall env b e l p, norm env (TList b e) (VL (Some l)) p =
  VL (Some (map (fun x => norm env e x (zero_of env e)) l)).
Proof. reflexivity. Qed.
Lemma norm_VMn : forall env t p, norm env t (VM None) p = VM (Some []).
Proof. reflexivity. Qed.
Lemma norm_VMs : forall env kt vt m p, norm env (TMap kt vt) (VM (Some m)) p =
  VM (Some (fold_left (fun acc (kv : val * val) =>
                         ainsert kt acc (norm env kt (fst kv) (zero_of env kt))
                                        (norm env vt (snd kv) (zero_of env vt))) m [])).
Proof. reflexivity. Qed.
Lemma norm_VPn : forall env sid p, norm env (TPtr (TStruct sid)) (VP None) p =
  match lookup_sd env sid with
  | Some sd => VP (Some (apply_init sd (zero_of env (TStruct sid))))
  | None => VP None
  end.
Proof. reflexivity. Qed.
Lemma norm_VPs : forall env t' v p, norm env (TPtr t') (VP (Some v)) p =
  VP (Some (norm env t' v (zero_of env t'))).
Proof. reflexivity. Qed.
Lemma norm_VT : forall env sid fs h p, norm env (TStruct sid) (VT fs h) p =
  match lookup_sd env sid with
  | Some sd =>
      match apply_init sd p with
      | VT ps ph => VT (norm_fields env (sfields sd) fs ps) ph
      | _ => VT fs h
      end
  | None => VT fs h
  end.
Proof. reflexivity. Qed.

Lemma req_VLs : forall env b e l, req_complete env (TList b e) (VL (Some l)) = forallb (req_complete env e) l.
Proof. reflexivity. Qed.
Lemma req_VMs : forall env kt vt m, req_complete env (TMap kt vt) (VM (Some m)) =
  forallb (fun kv : val * val => req_complete env kt (fst kv) && req_complete env vt (snd kv)) m.
Proof. reflexivity. Qed.
Lemma req_VPn : forall env sid, req_complete env (TPtr (TStruct sid)) (VP None) =
  match lookup_sd env sid with
  | Some sd => match required_ids sd with [] => true | _ => false end
  | None => true
  end.
Proof. reflexivity. Qed.
Lemma req_VPs : forall env t' v, req_complete env (TPtr t') (VP (Some v)) = req_complete env t' v.
Proof. reflexivity. Qed.
Lemma req_VT : forall env sid fs h, req_complete env (TStruct sid) (VT fs h) =
  match lookup_sd env sid with
  | Some sd => fields_all (fun f v' => negb (emits f v') || req_complete env (fty f) v') (sfields sd) fs
  | None => true
  end.
Proof. reflexivity. Qed.

(* ------------------------------------------------------------------ *)
(* zero values are well shaped                                          *)
(* ------------------------------------------------------------------ *)

(* [zero] nests by-value structs with fuel [S (length env)].  That is enough
   exactly when the by-value nesting below the type is acyclic; this holds of
   every type that has a (finite) typed value, by a pigeonhole argument, so
   no hypothesis on the environment is needed. *)
Fixpoint zero_fits (fuel : nat) (env : senv) (t : ty) : bool :=
  match t with
  | TStruct sid =>
      match lookup_sd env sid with
      | Some sd =>
          match fuel with
          | O => false
          | S fuel' => forallb (fun f => zero_fits fuel' env (fty f)) (sfields sd)
          end
      | None => true
      end
  | _ => true
  end.

(* by-value struct nesting of every declared type is acyclic (a decidable
   check; Go rejects the other descriptors as invalid recursive types) *)
Definition byvalue_acyclic (env : senv) : bool :=
  forallb (fun sd => forallb (fun f => zero_fits (length env) env (fty f)) (sfields sd)) env.

Lemma zero_fits_nonstruct : forall n env t, is_struct_ty t = false -> zero_fits n env t = true.
Proof. intros n env t H. destruct n; destruct t; try reflexivity; discriminate H. Qed.

Lemma zero_fits_S_struct : forall n env sid, zero_fits (S n) env (TStruct sid) =
  match lookup_sd env sid with
  | Some sd => forallb (fun f => zero_fits n env (fty f)) (sfields sd)
  | None => true
  end.
Proof. reflexivity. Qed.

Lemma zero_fits_O_struct : forall env sid, zero_fits O env (TStruct sid) =
  match lookup_sd env sid with Some _ => false | None => true end.
Proof. reflexivity. Qed.

Lemma zero_fits_S : forall env n t, zero_fits n env t = true -> zero_fits (S n) env t = true.
Proof.
  intros env. induction n as [|n IH]; intros t H.
  - destruct t as [| | | | | | | | |b e|k v|sid|t']; try reflexivity.
    rewrite zero_fits_O_struct in H. rewrite zero_fits_S_struct.
    destruct (lookup_sd env sid); [discriminate H|reflexivity].
  - destruct t as [| | | | | | | | |b e|k v|sid|t']; try reflexivity.
    rewrite zero_fits_S_struct in H. rewrite zero_fits_S_struct.
    destruct (lookup_sd env sid) as [sd|]; [|reflexivity].
    rewrite forallb_forall in H. apply forallb_forall. intros f Hf. apply IH. exact (H f Hf).
Qed.

Lemma zero_fits_le : forall env n m t, (n <= m)%nat -> zero_fits n env t = true -> zero_fits m env t = true.
Proof.
  intros env n m t Hle H. induction Hle as [|m Hle IH]; [exact H|]. apply zero_fits_S. exact IH.
Qed.

Lemma zero_nonstruct : forall n env t, is_struct_ty t = false -> prior_ok env t (zero n env t) = true.
Proof. intros n env t H. apply prior_ok_nonstruct. exact H. Qed.

Lemma zero_fits_prior_ok : forall env n t, zero_fits n env t = true -> prior_ok env t (zero n env t) = true.
Proof.
  intros env. induction n as [|n IH]; intros t H.
  - destruct t as [| | | | | | | | |b e|k v|sid|t']; try reflexivity.
    rewrite zero_fits_O_struct in H. cbn [zero]. rewrite prior_ok_VT.
    destruct (lookup_sd env sid); [discriminate H|reflexivity].
  - destruct t as [| | | | | | | | |b e|k v|sid|t']; try reflexivity.
    rewrite zero_fits_S_struct in H. cbn [zero].
    destruct (lookup_sd env sid) as [sd|] eqn:Hl.
    + rewrite prior_ok_VT, Hl. rewrite forallb_forall in H.
      apply fields_all_map. intros f Hf. apply IH. exact (H f Hf).
    + rewrite prior_ok_VT, Hl. reflexivity.
Qed.

(* a typed value bounds the by-value nesting of its type *)
Lemma typed_zero_fits : forall env v t, has_type env t v = true -> zero_fits (vdepth v) env t = true.
Proof.
  intros env.
  induction v as [x|n s| |l IH| |m IH| |v IH|fs h IH] using val_ind'; intros t Hty.
  - rewrite has_type_VS in Hty. apply zero_fits_nonstruct. destruct t; try reflexivity; discriminate Hty.
  - rewrite has_type_VB in Hty. apply zero_fits_nonstruct. destruct t; try reflexivity; discriminate Hty.
  - rewrite has_type_VL in Hty. apply zero_fits_nonstruct. destruct t; try reflexivity; discriminate Hty.
  - rewrite has_type_VL in Hty. apply zero_fits_nonstruct. destruct t; try reflexivity; discriminate Hty.
  - rewrite has_type_VM in Hty. apply zero_fits_nonstruct. destruct t; try reflexivity; discriminate Hty.
  - rewrite has_type_VM in Hty. apply zero_fits_nonstruct. destruct t; try reflexivity; discriminate Hty.
  - rewrite has_type_VP in Hty. apply zero_fits_nonstruct. destruct t; try reflexivity; discriminate Hty.
  - rewrite has_type_VP in Hty. apply zero_fits_nonstruct. destruct t; try reflexivity; discriminate Hty.
  - rewrite has_type_VT in Hty. destruct t as [| | | | | | | | | | |sid|]; try discriminate Hty.
    destruct (lookup_sd env sid) as [sd|] eqn:Hl; [|discriminate Hty].
    apply andb_true_iff in Hty. destruct Hty as [Hty _].
    apply andb_true_iff in Hty. destruct Hty as [Hall _].
    cbn [vdepth]. rewrite zero_fits_S_struct, Hl.
    apply forallb_forall. intros f Hf.
    destruct (In_nth_error _ _ Hf) as [i Hi].
    destruct (fields_all_nth _ fs (sfields sd) i f Hall Hi) as (v & Hv & Htv).
    rewrite Forall_forall in IH. pose proof (nth_error_In _ _ Hv) as Hin.
    apply (zero_fits_le env (vdepth v)); [exact (vdepth_fold_le fs v Hin)|].
    exact (IH v Hin (fty f) Htv).
Qed.

(* a chain of k+1 distinct declared struct ids below a type whose nesting
   has depth exactly n+1 *)
Lemma byvalue_chain : forall env k n sid, (k <= n)%nat ->
  zero_fits (S n) env (TStruct sid) = true -> zero_fits n env (TStruct sid) = false ->
  exists l, length l = S k /\ NoDup l
            /\ forall x, In x l -> x < len env /\ zero_fits (S n) env (TStruct x) = true.
Proof.
  intros env. induction k as [|k IH]; intros n sid Hk H1 H0.
  - exists [sid]. split; [reflexivity|]. split; [constructor; [intros []|constructor]|].
    intros x [E|[]]. subst x. split; [|exact H1].
    destruct n as [|n]; [rewrite zero_fits_O_struct in H0|rewrite zero_fits_S_struct in H0];
      destruct (lookup_sd env sid) as [sd|] eqn:Hl; try discriminate H0;
      apply N.ltb_lt; exact (lookup_sd_lt env sid sd Hl).
  - destruct n as [|n]; [lia|].
    rewrite zero_fits_S_struct in H1, H0.
    destruct (lookup_sd env sid) as [sd|] eqn:Hl; [|discriminate H0].
    assert (Hex : exists f, In f (sfields sd) /\ zero_fits n env (fty f) = false).
    { clear -H0. induction (sfields sd) as [|f fr IHf]; [discriminate H0|].
      cbn [forallb] in H0. destruct (zero_fits n env (fty f)) eqn:E.
      - destruct (IHf H0) as (g & Hg & Hgf). exists g. split; [right; exact Hg|exact Hgf].
      - exists f. split; [left; reflexivity|exact E]. }
    destruct Hex as (f & Hf & Hf0).
    rewrite forallb_forall in H1. pose proof (H1 f Hf) as Hf1.
    destruct (fty f) as [| | | | | | | | |b e|kt vt|sid'|t'] eqn:Eft;
      try (rewrite zero_fits_nonstruct in Hf0 by reflexivity; discriminate Hf0).
    destruct (IH n sid' ltac:(lia) Hf1 Hf0) as (l & Hlen & Hnd & Hl').
    exists (sid :: l). split; [cbn [length]; rewrite Hlen; reflexivity|]. split.
    + constructor; [|exact Hnd]. intros Hin. destruct (Hl' sid Hin) as [_ Hc].
      rewrite zero_fits_S_struct, Hl in Hc. rewrite Hc in H0. discriminate H0.
    + intros x [E|Hx].
      * subst x. split; [apply N.ltb_lt; exact (lookup_sd_lt env sid sd Hl)|].
        rewrite zero_fits_S_struct, Hl. apply forallb_forall. exact H1.
      * destruct (Hl' x Hx) as [Hlt Hx1]. split; [exact Hlt|]. apply zero_fits_S. exact Hx1.
Qed.

(* beyond [length env] levels the fuel no longer matters *)
Lemma zero_fits_stable : forall env n t, (length env <= n)%nat ->
  zero_fits (S n) env t = true -> zero_fits n env t = true.
Proof.
  intros env n t Hn H1.
  destruct t as [| | | | | | | | |b e|k v|sid|t']; try (apply zero_fits_nonstruct; reflexivity).
  destruct (zero_fits n env (TStruct sid)) eqn:H0; [reflexivity|exfalso].
  destruct (byvalue_chain env (length env) n sid Hn H1 H0) as (l & Hlen & Hnd & Hl).
  assert (Hincl : incl l (map N.of_nat (seq 0 (length env)))).
  { intros x Hx. destruct (Hl x Hx) as [Hlt _]. apply in_map_iff. exists (N.to_nat x).
    split; [lia|]. apply in_seq. unfold len in Hlt. lia. }
  pose proof (NoDup_incl_length Hnd Hincl) as Hle.
  rewrite map_length, seq_length in Hle. lia.
Qed.

Lemma zero_fits_down : forall env d n t, (n = length env + d)%nat ->
  zero_fits n env t = true -> zero_fits (length env) env t = true.
Proof.
  intros env. induction d as [|d IH]; intros n t Hn H.
  - rewrite Nat.add_0_r in Hn. subst n. exact H.
  - apply (IH (length env + d)%nat t eq_refl). apply zero_fits_stable; [lia|].
    replace (S (length env + d)) with n by lia. exact H.
Qed.

Lemma zero_fits_any : forall env n t, zero_fits n env t = true -> zero_fits (S (length env)) env t = true.
Proof.
  intros env n t H. apply zero_fits_S.
  destruct (Nat.le_gt_cases n (length env)) as [Hle|Hgt].
  - exact (zero_fits_le env n (length env) t Hle H).
  - apply (zero_fits_down env (n - length env) n t); [lia|exact H].
Qed.

(* the zero value of a type that has a typed value is well shaped *)
Theorem typed_zero_ok : forall env t v, has_type env t v = true -> prior_ok env t (zero_of env t) = true.
Proof.
  intros env t v Hty. unfold zero_of. apply zero_fits_prior_ok.
  exact (zero_fits_any env (vdepth v) t (typed_zero_fits env v t Hty)).
Qed.

(* ... and so is every zero value when by-value nesting is acyclic *)
Theorem acyclic_zero_ok : forall env t, byvalue_acyclic env = true -> prior_ok env t (zero_of env t) = true.
Proof.
  intros env t H. unfold zero_of. apply zero_fits_prior_ok.
  destruct t as [| | | | | | | | |b e|k v|sid|t']; try reflexivity.
  rewrite zero_fits_S_struct. destruct (lookup_sd env sid) as [sd|] eqn:Hl; [|reflexivity].
  unfold byvalue_acyclic in H. rewrite forallb_forall in H. exact (H sd (lookup_sd_In env sid sd Hl)).
Qed.

(* default initialisation keeps the shape *)
Lemma apply_init_prior_ok : forall env sid sd p, init_ok env = true -> lookup_sd env sid = Some sd ->
  prior_ok env (TStruct sid) p = true -> prior_ok env (TStruct sid) (apply_init sd p) = true.
Proof.
  intros env sid sd p HI Hl Hp. destruct (prior_ok_struct_inv env sid p Hp) as (ps & ph & E). subst p.
  unfold apply_init. destruct (sinit sd) as [asg|] eqn:Ei; [|exact Hp].
  rewrite prior_ok_VT, Hl in Hp. rewrite prior_ok_VT, Hl.
  unfold init_ok in HI. rewrite forallb_forall in HI.
  pose proof (HI sd (lookup_sd_In env sid sd Hl)) as Ha. rewrite Ei in Ha. rewrite forallb_forall in Ha.
  clear Ei. revert ps Hp. induction asg as [|iv asg IH]; intros ps Hp; [exact Hp|].
  cbn [fold_left]. apply IH.
  - intros x Hx. apply Ha. right. exact Hx.
  - apply fields_all_set_nth; [exact Hp|]. intros f Hf.
    pose proof (Ha iv (or_introl eq_refl)) as H. rewrite Hf in H. exact H.
Qed.

(* InitDefault is idempotent *)
Lemma set_nth_length : forall (A : Type) (l : list A) i x, length (set_nth l i x) = length l.
Proof.
  induction l as [|y l IH]; intros i x; [reflexivity|].
  destruct i; cbn [set_nth length]; [reflexivity|]. rewrite IH. reflexivity.
Qed.

Lemma nth_error_set_nth : forall (A : Type) (l : list A) i x j,
  nth_error (set_nth l i x) j
  = if Nat.eqb i j then (if Nat.ltb j (length l) then Some x else None) else nth_error l j.
Proof.
  induction l as [|y l IH]; intros i x j.
  - cbn [set_nth length]. destruct j; destruct (Nat.eqb i _); reflexivity.
  - destruct i as [|i]; destruct j as [|j]; cbn [set_nth nth_error]; try reflexivity.
    rewrite IH. cbn [Nat.eqb length]. reflexivity.
Qed.

Definition run_init (asg : list (nat * val)) (fs : list val) : list val :=
  fold_left (fun fs (iv : nat * val) => set_nth fs (fst iv) (snd iv)) asg fs.

(* the cell j after the assignments: the last value assigned to j, if any *)
Fixpoint last_asg (asg : list (nat * val)) (j : nat) (acc : option val) : option val :=
  match asg with
  | [] => acc
  | iv :: r => last_asg r j (if Nat.eqb (fst iv) j then Some (snd iv) else acc)
  end.

Lemma run_init_length : forall asg fs, length (run_init asg fs) = length fs.
Proof.
  induction asg as [|iv asg IH]; intros fs; [reflexivity|].
  unfold run_init. cbn [fold_left]. fold (run_init asg (set_nth fs (fst iv) (snd iv))).
  rewrite IH. apply set_nth_length.
Qed.

Lemma nth_error_run_init : forall asg fs j cell,
  nth_error fs j = cell ->
  nth_error (run_init asg fs) j
  = if Nat.ltb j (length fs) then last_asg asg j cell else None.
Proof.
  induction asg as [|iv asg IH]; intros fs j cell Hc.
  - cbn [run_init fold_left last_asg]. unfold run_init. cbn [fold_left]. subst cell.
    destruct (Nat.ltb j (length fs)) eqn:E; [reflexivity|].
    apply nth_error_None. apply Nat.ltb_ge in E. exact E.
  - unfold run_init. cbn [fold_left last_asg]. fold (run_init asg (set_nth fs (fst iv) (snd iv))).
    rewrite (IH (set_nth fs (fst iv) (snd iv)) j
                (if Nat.eqb (fst iv) j then (if Nat.ltb j (length fs) then Some (snd iv) else None) else cell)).
    + rewrite set_nth_length. destruct (Nat.ltb j (length fs)) eqn:E; reflexivity.
    + rewrite nth_error_set_nth. destruct (Nat.eqb (fst iv) j); [reflexivity|exact Hc].
Qed.

Lemma last_asg_acc : forall asg j acc,
  last_asg asg j acc = match last_asg asg j None with Some y => Some y | None => acc end.
Proof.
  induction asg as [|iv asg IH]; intros j acc; [reflexivity|].
  cbn [last_asg]. destruct (Nat.eqb (fst iv) j).
  - rewrite (IH j (Some (snd iv))). destruct (last_asg asg j None); reflexivity.
  - apply IH.
Qed.

Lemma last_asg_idem : forall asg j c, last_asg asg j (last_asg asg j c) = last_asg asg j c.
Proof.
  intros asg j c. rewrite (last_asg_acc asg j (last_asg asg j c)), (last_asg_acc asg j c).
  destruct (last_asg asg j None); reflexivity.
Qed.

Lemma nth_error_ext' : forall (A : Type) (l1 l2 : list A),
  (forall j, nth_error l1 j = nth_error l2 j) -> l1 = l2.
Proof.
  induction l1 as [|x l1 IH]; intros l2 H.
  - destruct l2 as [|y l2]; [reflexivity|]. pose proof (H O) as H0. discriminate H0.
  - destruct l2 as [|y l2]; [pose proof (H O) as H0; discriminate H0|].
    pose proof (H O) as H0. cbn [nth_error] in H0. injection H0 as H0. subst y.
    f_equal. apply IH. intros j. exact (H (S j)).
Qed.

Lemma run_init_idem : forall asg fs, run_init asg (run_init asg fs) = run_init asg fs.
Proof.
  intros asg fs. apply nth_error_ext'. intros j.
  rewrite (nth_error_run_init asg (run_init asg fs) j _ eq_refl).
  rewrite run_init_length.
  rewrite (nth_error_run_init asg fs j _ eq_refl).
  destruct (Nat.ltb j (length fs)); [|reflexivity]. apply last_asg_idem.
Qed.

Lemma apply_init_idem : forall sd x, apply_init sd (apply_init sd x) = apply_init sd x.
Proof.
  intros sd x. unfold apply_init. destruct (sinit sd) as [asg|] eqn:E; [|reflexivity].
  destruct x as [y|n s|ol|om|op|fs h]; try reflexivity.
  fold (run_init asg fs). fold (run_init asg (run_init asg fs)). rewrite run_init_idem. reflexivity.
Qed.

Lemma apply_init_VT : forall sd fs h, exists fs', apply_init sd (VT fs h) = VT fs' h.
Proof.
  intros sd fs h. unfold apply_init. destruct (sinit sd); eexists; reflexivity.
Qed.

(* ------------------------------------------------------------------ *)
(* (1) the reference decoder inverts the reference encoder              *)
(* ------------------------------------------------------------------ *)

Definition amap_ptr (r : ares val) : ares val :=
  match r with
  | AOk v => AOk (VP (Some v))
  | AMismatch => AMismatch | AMissing i => AMissing i | ABad => ABad
  end.

(* a pointer slot: the pointee is decoded into a zero value *)
Lemma absorb_ptr : forall env t' w prior, is_ptr t' = false ->
  absorb env (TPtr t') w prior = amap_ptr (absorb env t' w (zero_of env t')).
Proof.
  intros env t' w prior Hp.
  assert (Hd : deref_ty t' = t') by (destruct t'; try reflexivity; discriminate Hp).
  destruct w as [x|x|x|x|x|x|s|fs raw|kc vc es|b ec es].
  1-6: rewrite !absorb_scalar by reflexivity; cbn [deref_ty]; rewrite Hd; unfold awrap;
       cbn [is_ptr]; rewrite Hp; destruct (scalar_of t' _); reflexivity.
  - rewrite !absorb_WStr. cbn [deref_ty]. rewrite Hd. unfold awrap. cbn [is_ptr]. rewrite Hp.
    destruct t'; reflexivity.
  - rewrite !absorb_WStruct. cbn [deref_ty is_ptr]. rewrite Hd, Hp. unfold awrap. cbn [is_ptr]. rewrite Hp.
    match goal with |- match ?X with _ => _ end = _ => destruct X end; reflexivity.
  - rewrite !absorb_WMap. cbn [deref_ty is_ptr]. rewrite Hd. unfold awrap. cbn [is_ptr]. rewrite Hp.
    match goal with |- match ?X with _ => _ end = _ => destruct X end; reflexivity.
  - rewrite !absorb_WList. cbn [deref_ty is_ptr]. rewrite Hd. unfold awrap. cbn [is_ptr]. rewrite Hp.
    match goal with |- match ?X with _ => _ end = _ => destruct X end; reflexivity.
Qed.

Lemma lookup_sd_some : forall env sid, (sid <? len env) = true -> exists sd, lookup_sd env sid = Some sd.
Proof.
  intros env sid H. apply N.ltb_lt in H. unfold lookup_sd.
  assert (E : (len env <=? sid) = false) by (apply N.leb_gt; exact H). rewrite E.
  destruct (nth_error env (N.to_nat sid)) as [sd|] eqn:En; [exists sd; reflexivity|exfalso].
  apply nth_error_None in En. unfold len in H. lia.
Qed.

Lemma zero_struct_VT : forall env sid, exists fs, zero_of env (TStruct sid) = VT fs [].
Proof.
  intros env sid. unfold zero_of. cbn [zero]. destruct (lookup_sd env sid); eexists; reflexivity.
Qed.

Lemma fresh_VT : forall env sid, exists fs, fresh env sid = VT fs [].
Proof.
  intros env sid. unfold fresh. destruct (lookup_sd env sid) as [sd|]; [|eexists; reflexivity].
  destruct (zero_struct_VT env sid) as [fs E]. rewrite E. exact (apply_init_VT sd fs []).
Qed.

Section Main.
  Variable env : senv.
  Hypothesis HP : enc_params_ok = true.
  Hypothesis HE : env_ok env = true.
  Hypothesis HI : init_ok env = true.

  Definition absorbs (v : val) : Prop := forall t prior,
    has_type env t v = true -> slot_ok env t v = true -> req_complete env t v = true ->
    prior_ok env t prior = true ->
    absorb env t (denote env t v) prior = AOk (norm env t v prior).

  Lemma ab_elems_denote : forall e l, Forall absorbs l ->
    ty_ok env e = true -> elem_pos e = true ->
    forallb (has_type env e) l = true -> forallb (req_complete env e) l = true ->
    ab_elems (absorb env) env e (map (denote env e) l)
    = AOk (map (fun x => norm env e x (zero_of env e)) l).
  Proof.
    intros e l HF Hok Hpos. induction HF as [|x l Hx _ IHl]; intros Hty Hr; [reflexivity|].
    cbn [forallb] in Hty, Hr.
    apply andb_true_iff in Hty. destruct Hty as [Htx Hty].
    apply andb_true_iff in Hr. destruct Hr as [Hrx Hr].
    cbn [map ab_elems].
    rewrite (Hx e (zero_of env e) Htx (slot_ok_elem env e x Hok Hpos) Hrx (typed_zero_ok env e x Htx)).
    rewrite (IHl Hty Hr). reflexivity.
  Qed.

  Lemma ab_entries_denote : forall kt vt m, Forall (fun kv => absorbs (fst kv) /\ absorbs (snd kv)) m ->
    ty_ok env kt = true -> elem_pos kt = true -> ty_ok env vt = true -> elem_pos vt = true ->
    forall acc,
    forallb (fun kv : val * val => has_type env kt (fst kv) && has_type env vt (snd kv)) m = true ->
    forallb (fun kv : val * val => req_complete env kt (fst kv) && req_complete env vt (snd kv)) m = true ->
    ab_entries (absorb env) env kt vt
               (map (fun kv : val * val => (denote env kt (fst kv), denote env vt (snd kv))) m) acc
    = AOk (fold_left (fun acc (kv : val * val) =>
                        ainsert kt acc (norm env kt (fst kv) (zero_of env kt))
                                       (norm env vt (snd kv) (zero_of env vt))) m acc).
  Proof.
    intros kt vt m HF Hok Hpk Hov Hpv.
    induction HF as [|kv m [Hk Hv] _ IHm]; intros acc Hty Hr; [reflexivity|].
    cbn [forallb] in Hty, Hr.
    apply andb_true_iff in Hty. destruct Hty as [Htx Hty].
    apply andb_true_iff in Htx. destruct Htx as [Htk Htv].
    apply andb_true_iff in Hr. destruct Hr as [Hrx Hr].
    apply andb_true_iff in Hrx. destruct Hrx as [Hrk Hrv].
    cbn [map ab_entries fold_left].
    rewrite (Hk kt (zero_of env kt) Htk (slot_ok_elem env kt _ Hok Hpk) Hrk (typed_zero_ok env kt _ Htk)).
    rewrite (Hv vt (zero_of env vt) Htv (slot_ok_elem env vt _ Hov Hpv) Hrv (typed_zero_ok env vt _ Htv)).
    exact (IHm _ Hty Hr).
  Qed.

  (* the field loop: [pre] are the cells already passed *)
  Lemma ab_fields_denote : forall sd vs fds ps pre seen,
    (forall j f, nth_error fds j = Some f -> get_field sd (fid f) = Some ((length pre + j)%nat, f)) ->
    (forall f, In f fds -> field_ok env f = true) ->
    Forall absorbs vs ->
    fields_all (fun f v' => has_type env (fty f) v') fds vs = true ->
    fields_all (fun f v' => negb (emits f v') || req_complete env (fty f) v') fds vs = true ->
    fields_all (fun f p' => prior_ok env (fty f) p') fds ps = true ->
    ab_fields (absorb env) sd (fields_cat (spec_field env) fds vs) (pre ++ ps) seen []
    = AOk (pre ++ norm_fields env fds vs ps,
           rev (map fst (fields_cat (spec_field env) fds vs)) ++ seen, []).
  Proof.
    intros sd. induction vs as [|v vr IH]; intros fds ps pre seen Hget Hfo HF Hty Hr Hpr.
    - destruct fds as [|f fr]; [|discriminate Hty].
      destruct ps as [|p pr]; [|discriminate Hpr]. reflexivity.
    - destruct fds as [|f fr]; [discriminate Hty|].
      destruct ps as [|p pr]; [discriminate Hpr|].
      cbn [fields_all] in Hty, Hr, Hpr.
      apply andb_true_iff in Hty. destruct Hty as [Htv Hty].
      apply andb_true_iff in Hr. destruct Hr as [Hrv Hr].
      apply andb_true_iff in Hpr. destruct Hpr as [Hpp Hpr].
      inversion HF as [|v0 vr0 Hv HFr]; subst v0 vr0.
      assert (Hget' : forall x j g, nth_error fr j = Some g ->
                get_field sd (fid g) = Some ((length (pre ++ [x]) + j)%nat, g)).
      { intros x j g Hg. rewrite (Hget (S j) g Hg). rewrite app_length. cbn [length].
        f_equal. f_equal. lia. }
      assert (Hfo' : forall g, In g fr -> field_ok env g = true) by (intros g Hg; apply Hfo; right; exact Hg).
      rewrite norm_fields_cons. cbn [fields_cat]. unfold spec_field at 1 3.
      destruct (emits f v) eqn:Hem.
      + cbn [app ab_fields map fst rev].
        rewrite (Hget O f eq_refl).
        assert (Hsk : (can_skip_nil f && is_nil v) = false).
        { unfold emits in Hem. apply andb_true_iff in Hem. destruct Hem as [Hem _].
          apply negb_true_iff in Hem. exact Hem. }
        pose proof (emitted_slot_ok env f v (Hfo f (or_introl eq_refl)) Hsk) as Hsv.
        rewrite (code_of_denote env HP v (fty f) Htv Hsv), N.eqb_refl.
        rewrite nth_app_len.
        cbn [negb orb] in Hrv.
        rewrite (Hv (fty f) p Htv Hsv Hrv Hpp).
        rewrite set_nth_app_len.
        replace (pre ++ norm env (fty f) v p :: pr) with ((pre ++ [norm env (fty f) v p]) ++ pr)
          by (rewrite <- app_assoc; reflexivity).
        rewrite (IH fr pr (pre ++ [norm env (fty f) v p]) (fid f :: seen)
                    (Hget' _) Hfo' HFr Hty Hr Hpr).
        rewrite <- !app_assoc. reflexivity.
      + cbn [app].
        replace (pre ++ p :: pr) with ((pre ++ [p]) ++ pr) by (rewrite <- app_assoc; reflexivity).
        rewrite (IH fr pr (pre ++ [p]) seen (Hget' _) Hfo' HFr Hty Hr Hpr).
        rewrite <- !app_assoc. reflexivity.
  Qed.

  (* a struct: field loop, required check, holder *)
  Lemma struct_denote : forall sid sd fs h ps ph,
    lookup_sd env sid = Some sd ->
    Forall absorbs fs ->
    has_type env (TStruct sid) (VT fs h) = true ->
    req_complete env (TStruct sid) (VT fs h) = true ->
    fields_all (fun f p' => prior_ok env (fty f) p') (sfields sd) ps = true ->
    afinish sd ph (ab_fields (absorb env) sd (fields_cat (spec_field env) (sfields sd) fs) ps [] [])
    = AOk (VT (norm_fields env (sfields sd) fs ps) ph).
  Proof.
    intros sid sd fs h ps ph Hl HF Hty0 Hr Hpr.
    pose proof Hty0 as Hty. rewrite has_type_VT, Hl in Hty.
    apply andb_true_iff in Hty. destruct Hty as [Hty _].
    apply andb_true_iff in Hty. destruct Hty as [Hall _].
    rewrite req_VT, Hl in Hr.
    pose proof (ab_fields_denote sd fs (sfields sd) ps [] []) as Hab. cbn [app length] in Hab.
    rewrite Hab; [|
      intros j f Hj; unfold get_field;
        exact (find_field_sorted (sfields sd) j f O (env_sorted_ids env sid sd HE Hl) Hj)
      | intros f Hf; exact (env_field_ok env sid sd f HE Hl Hf)
      | exact HF | exact Hall | exact Hr | exact Hpr].
    unfold afinish. rewrite app_nil_r.
    rewrite find_all_false.
    - destruct (sholder sd); reflexivity.
    - intros id Hid. apply negb_false_iff. apply memN_self. rewrite <- in_rev.
      unfold required_ids in Hid. apply in_map_iff in Hid. destruct Hid as (f & Hfid & Hf).
      apply filter_In in Hf. destruct Hf as [Hf Hreq].
      assert (Hq : freq f = RRequired) by (destruct (freq f); try discriminate Hreq; reflexivity).
      destruct (denote_required env sid sd fs h f Hl Hty0 Hf Hq) as (fields & raw & Hd & Hin).
      rewrite denote_VT, Hl in Hd. injection Hd as Hd _. subst fields. rewrite <- Hfid. exact Hin.
  Qed.

  Theorem absorb_denote_gen : forall v, absorbs v.
  Proof.
    induction v as [x|n s| |l IH| |m IH| |v IH|fs h IH] using val_ind'; intros t prior Hty Hs Hr Hpr.
    - (* scalar *)
      rewrite has_type_VS in Hty. rewrite denote_VS, norm_VS.
      destruct t; try discriminate Hty; reflexivity.
    - (* string, binary *)
      rewrite has_type_VB in Hty. rewrite denote_VB, norm_VB.
      destruct t; try discriminate Hty; reflexivity.
    - (* nil slice *)
      rewrite has_type_VL in Hty. destruct t as [| | | | | | | | |b e| | |]; try discriminate Hty.
      rewrite denote_VL, norm_VLn, absorb_WList. cbn [deref_ty awrap is_ptr ab_elems].
      rewrite N.eqb_refl. reflexivity.
    - (* slice *)
      rewrite has_type_VL in Hty. destruct t as [| | | | | | | | |b e| | |]; try discriminate Hty.
      apply andb_true_iff in Hty. destruct Hty as [Hall _].
      destruct (ty_ok_list env b e (slot_ok_ty _ _ _ Hs)) as [Hoe Hpe].
      rewrite req_VLs in Hr.
      rewrite denote_VL, norm_VLs, absorb_WList. cbn [deref_ty awrap is_ptr].
      rewrite N.eqb_refl. cbn [negb].
      rewrite (ab_elems_denote e l IH Hoe Hpe Hall Hr). reflexivity.
    - (* nil map *)
      rewrite has_type_VM in Hty. destruct t as [| | | | | | | | | |kt vt| |]; try discriminate Hty.
      rewrite denote_VM, norm_VMn, absorb_WMap. cbn [deref_ty awrap is_ptr ab_entries].
      rewrite !N.eqb_refl. reflexivity.
    - (* map *)
      rewrite has_type_VM in Hty. destruct t as [| | | | | | | | | |kt vt| |]; try discriminate Hty.
      apply andb_true_iff in Hty. destruct Hty as [Hty _].
      apply andb_true_iff in Hty. destruct Hty as [Hall _].
      destruct (ty_ok_map env kt vt (slot_ok_ty _ _ _ Hs)) as (Hkk & Hok & Hov & Hpv).
      rewrite req_VMs in Hr.
      rewrite denote_VM, norm_VMs, absorb_WMap. cbn [deref_ty awrap is_ptr].
      rewrite !N.eqb_refl. cbn [andb negb].
      rewrite (ab_entries_denote kt vt m IH Hok (key_elem_pos kt Hkk) Hov Hpv [] Hall Hr). reflexivity.
    - (* nil pointer: to a struct *)
      rewrite has_type_VP in Hty. destruct t as [| | | | | | | | | | | |t']; try discriminate Hty.
      pose proof (slot_ok_ty _ _ _ Hs) as Hok.
      unfold slot_ok in Hs. apply andb_true_iff in Hs. destruct Hs as [_ Hs].
      cbn [is_ptr is_nil negb orb] in Hs. rewrite orb_false_r in Hs.
      destruct t' as [| | | | | | | | | | |sid|]; try discriminate Hs.
      cbn [ty_ok] in Hok. destruct (lookup_sd_some env sid Hok) as [sd Hl].
      rewrite req_VPn, Hl in Hr.
      rewrite denote_VPn, norm_VPn, Hl, absorb_WStruct. cbn [deref_ty is_ptr]. rewrite Hl.
      destruct (zero_struct_VT env sid) as [zs Ez]. rewrite Ez.
      destruct (apply_init_VT sd zs []) as [zs' Ez']. rewrite Ez'.
      cbn [ab_fields afinish].
      destruct (required_ids sd); [|discriminate Hr]. cbn [find awrap is_ptr].
      destruct (sholder sd); reflexivity.
    - (* pointer *)
      rewrite has_type_VP in Hty. destruct t as [| | | | | | | | | | | |t']; try discriminate Hty.
      destruct (ty_ok_ptr env t' (slot_ok_ty _ _ _ Hs)) as [Hok Hnp].
      rewrite req_VPs in Hr.
      rewrite denote_VPs, norm_VPs, (absorb_ptr env t' _ prior Hnp).
      rewrite (IH t' (zero_of env t') Hty); [reflexivity| |exact Hr|exact (typed_zero_ok env t' v Hty)].
      unfold slot_ok. rewrite Hok, Hnp. reflexivity.
    - (* struct *)
      pose proof Hty as Hty0.
      rewrite has_type_VT in Hty. destruct t as [| | | | | | | | | | |sid|]; try discriminate Hty.
      destruct (lookup_sd env sid) as [sd|] eqn:Hl; [|discriminate Hty].
      pose proof (apply_init_prior_ok env sid sd prior HI Hl Hpr) as Hpi.
      destruct (prior_ok_struct_inv _ _ _ Hpi) as (ps & ph & Eps).
      rewrite Eps, prior_ok_VT, Hl in Hpi.
      rewrite denote_VT, norm_VT, Hl, absorb_WStruct. cbn [deref_ty is_ptr]. rewrite Hl, Eps.
      rewrite (struct_denote sid sd fs h ps ph Hl IH Hty0 Hr Hpi). reflexivity.
  Qed.
End Main.

(* the statement as asked: [holders_empty] and [enums32] are not needed here
   (the decoder ignores the raw bytes of a wire struct, and [norm] applies
   the enum truncation to every value); [init_ok] is new, see the end *)
Theorem absorb_denote : forall env, enc_params_ok = true -> env_ok env = true -> init_ok env = true ->
  forall v t prior, has_type env t v = true -> slot_ok env t v = true ->
    Spec.holders_empty v = true -> enums32 env t v = true -> req_complete env t v = true ->
    prior_ok env t prior = true ->
    absorb env t (denote env t v) prior = AOk (norm env t v prior).
Proof.
  intros env HP HE HI v t prior Hty Hs _ _ Hr Hpr.
  exact (absorb_denote_gen env HP HE HI v t prior Hty Hs Hr Hpr).
Qed.

(* top level: the destination is [fresh], which the decoder does not
   initialise again; [norm] does, and InitDefault is idempotent *)
Theorem absorb_top_denote : forall env sid v,
  enc_params_ok = true -> env_ok env = true -> init_ok env = true ->
  has_type env (TStruct sid) v = true -> req_complete env (TStruct sid) v = true ->
  absorb_top env sid (denote env (TStruct sid) v) (fresh env sid) = AOk (norm_top env sid v).
Proof.
  intros env sid v HP HE HI Hty Hr.
  pose proof (typed_zero_ok env (TStruct sid) v Hty) as Hz.
  destruct v as [x|n s|ol|om|op|fs h];
    rewrite ?has_type_VS, ?has_type_VB, ?has_type_VL, ?has_type_VM, ?has_type_VP in Hty;
    try discriminate Hty.
  pose proof Hty as Hty0. rewrite has_type_VT in Hty.
  destruct (lookup_sd env sid) as [sd|] eqn:Hl; [|discriminate Hty].
  pose proof (apply_init_prior_ok env sid sd _ HI Hl Hz) as Hpi.
  destruct (prior_ok_struct_inv _ _ _ Hpi) as (ps & ph & Eps).
  rewrite Eps, prior_ok_VT, Hl in Hpi.
  assert (Hfresh : fresh env sid = VT ps ph) by (unfold fresh; rewrite Hl; exact Eps).
  unfold norm_top. rewrite denote_VT, norm_VT, Hl, absorb_top_eq, Hl, Hfresh.
  rewrite <- Eps, apply_init_idem, Eps.
  apply (struct_denote env HP HE HI sid sd fs h ps ph Hl); try assumption.
  apply Forall_forall. intros x _. exact (absorb_denote_gen env HP HE HI x).
Qed.

(* ------------------------------------------------------------------ *)
(* (2) the depth budget of an encoded value                             *)
(* ------------------------------------------------------------------ *)

Lemma deref_nonptr : forall t, is_ptr t = false -> deref_ty t = t.
Proof. intros t H. destruct t; try reflexivity; discriminate H. Qed.

Lemma need_ptr : forall env t' w, is_ptr t' = false -> need env (TPtr t') w = need env t' w.
Proof. intros env t' w H. rewrite !need_eq. cbn [deref_ty]. rewrite (deref_nonptr t' H). reflexivity. Qed.

Lemma skipped_ptr : forall env t' w, is_ptr t' = false ->
  skipped_depth env (TPtr t') w = skipped_depth env t' w.
Proof.
  intros env t' w H. rewrite !skipped_depth_eq. cbn [deref_ty]. rewrite (deref_nonptr t' H). reflexivity.
Qed.

Lemma emits_not_skipped : forall f v, emits f v = true -> (can_skip_nil f && is_nil v) = false.
Proof.
  intros f v Hem. unfold emits in Hem. apply andb_true_iff in Hem. destruct Hem as [Hem _].
  apply negb_true_iff in Hem. exact Hem.
Qed.

(* The bound is 2 * vdepth v + 2, not + 1: a nil struct pointer has depth 0
   but is written as an empty struct, which costs the decoder two levels
   (need_denote_not_plus_1 below). *)
Lemma need_denote : forall env, enc_params_ok = true -> env_ok env = true ->
  forall v t, has_type env t v = true -> slot_ok env t v = true ->
  (need env t (denote env t v) <= 2 * vdepth v + 2)%nat.
Proof.
  intros env HP HE.
  induction v as [x|n s| |l IH| |m IH| |v IH|fs h IH] using val_ind'; intros t Hty Hs.
  - rewrite has_type_VS in Hty. rewrite denote_VS, need_eq.
    destruct (0 <? fixed_size (deref_ty t)); [lia|].
    destruct t; try discriminate Hty; cbn [vdepth]; lia.
  - rewrite denote_VB, need_eq. destruct (0 <? fixed_size (deref_ty t)); cbn [vdepth]; lia.
  - rewrite has_type_VL in Hty. destruct t as [| | | | | | | | |b e| | |]; try discriminate Hty.
    rewrite denote_VL, need_eq. cbn [deref_ty need_max vdepth].
    destruct (0 <? fixed_size (TList b e)); lia.
  - rewrite has_type_VL in Hty. destruct t as [| | | | | | | | |b e| | |]; try discriminate Hty.
    apply andb_true_iff in Hty. destruct Hty as [Hall _]. rewrite forallb_forall in Hall.
    destruct (ty_ok_list env b e (slot_ok_ty _ _ _ Hs)) as [Hoe Hpe].
    rewrite Forall_forall in IH.
    rewrite denote_VL, need_eq. cbn [deref_ty vdepth].
    destruct (0 <? fixed_size (TList b e)); [lia|].
    assert (Hb : (need_max (fun x => need env e x) (map (denote env e) l)
                  <= 2 * fold_right (fun e0 m => Nat.max (vdepth e0) m) O l + 2)%nat).
    { apply need_max_bound. intros w Hw. apply in_map_iff in Hw. destruct Hw as (x & Ex & Hx). subst w.
      pose proof (IH x Hx e (Hall x Hx) (slot_ok_elem env e x Hoe Hpe)) as H1.
      pose proof (vdepth_fold_le l x Hx) as H2. lia. }
    lia.
  - rewrite has_type_VM in Hty. destruct t as [| | | | | | | | | |kt vt| |]; try discriminate Hty.
    rewrite denote_VM, need_eq. cbn [deref_ty need_max vdepth].
    destruct (0 <? fixed_size (TMap kt vt)); lia.
  - rewrite has_type_VM in Hty. destruct t as [| | | | | | | | | |kt vt| |]; try discriminate Hty.
    apply andb_true_iff in Hty. destruct Hty as [Hty _].
    apply andb_true_iff in Hty. destruct Hty as [Hall _]. rewrite forallb_forall in Hall.
    destruct (ty_ok_map env kt vt (slot_ok_ty _ _ _ Hs)) as (Hkk & Hok & Hov & Hpv).
    rewrite Forall_forall in IH.
    rewrite denote_VM, need_eq. cbn [deref_ty vdepth].
    destruct (0 <? fixed_size (TMap kt vt)); [lia|].
    match goal with |- (S (need_max ?f ?l) <= _)%nat =>
      assert (Hb : (need_max f l
        <= 2 * fold_right (fun kv m0 => Nat.max (Nat.max (vdepth (fst kv)) (vdepth (snd kv))) m0) O m + 2)%nat)
    end.
    { apply need_max_bound. intros w Hw. apply in_map_iff in Hw. destruct Hw as (kv & Ex & Hkv). subst w.
      cbn [fst snd]. destruct (IH kv Hkv) as [IHk IHv].
      pose proof (Hall kv Hkv) as Hkvt. apply andb_true_iff in Hkvt. destruct Hkvt as [Htk Htv].
      pose proof (IHk kt Htk (slot_ok_elem env kt _ Hok (key_elem_pos kt Hkk))) as H1.
      pose proof (IHv vt Htv (slot_ok_elem env vt _ Hov Hpv)) as H2.
      pose proof (vdepth_fold_pair_le m kv Hkv) as H3. lia. }
    lia.
  - rewrite denote_VPn, need_eq. cbn [vdepth].
    destruct (0 <? fixed_size (deref_ty t)); [lia|].
    destruct (deref_ty t); try lia. destruct (lookup_sd env sid); cbn [need_max]; lia.
  - rewrite has_type_VP in Hty. destruct t as [| | | | | | | | | | | |t']; try discriminate Hty.
    destruct (ty_ok_ptr env t' (slot_ok_ty _ _ _ Hs)) as [Hok Hnp].
    rewrite denote_VPs, (need_ptr env t' _ Hnp). cbn [vdepth]. apply IH; [exact Hty|].
    unfold slot_ok. rewrite Hok, Hnp. reflexivity.
  - rewrite has_type_VT in Hty. destruct t as [| | | | | | | | | | |sid|]; try discriminate Hty.
    destruct (lookup_sd env sid) as [sd|] eqn:Hl; [|discriminate Hty].
    apply andb_true_iff in Hty. destruct Hty as [Hty _].
    apply andb_true_iff in Hty. destruct Hty as [Hall _].
    rewrite Forall_forall in IH.
    rewrite denote_VT, Hl, need_eq. cbn [deref_ty vdepth]. rewrite Hl.
    destruct (0 <? fixed_size (TStruct sid)); [lia|].
    match goal with |- (S (S (need_max ?f ?l)) <= _)%nat =>
      assert (Hb : (need_max f l <= 2 * fold_right (fun e m => Nat.max (vdepth e) m) O fs + 2)%nat)
    end.
    { apply need_max_bound. intros fw Hfw.
      destruct (fields_cat_in env fw fs (sfields sd) Hfw) as (i & f & v & Hf & Hv & Hem & Efw). subst fw.
      cbn [fst snd]. unfold get_field.
      rewrite (find_field_sorted (sfields sd) i f O (env_sorted_ids env sid sd HE Hl) Hf).
      destruct (wt (fty f) =? code_of (denote env (fty f) v)); [|lia].
      destruct (fields_all_nth _ fs (sfields sd) i f Hall Hf) as (v' & Hv' & Htv).
      rewrite Hv in Hv'. injection Hv' as Hv'. subst v'.
      pose proof (nth_error_In _ _ Hv) as Hin.
      pose proof (env_field_ok env sid sd f HE Hl (nth_error_In _ _ Hf)) as Hfo.
      pose proof (IH v Hin (fty f) Htv (emitted_slot_ok env f v Hfo (emits_not_skipped f v Hem))) as H1.
      pose proof (vdepth_fold_le fs v Hin) as H2. lia. }
    lia.
Qed.

(* reader and writer share the schema: nothing is skipped *)
Lemma skipped_denote : forall env, enc_params_ok = true -> env_ok env = true ->
  forall v t, has_type env t v = true -> slot_ok env t v = true ->
  skipped_depth env t (denote env t v) = O.
Proof.
  intros env HP HE.
  induction v as [x|n s| |l IH| |m IH| |v IH|fs h IH] using val_ind'; intros t Hty Hs.
  - rewrite has_type_VS in Hty. rewrite denote_VS.
    destruct t; try discriminate Hty; reflexivity.
  - rewrite denote_VB. reflexivity.
  - rewrite has_type_VL in Hty. destruct t as [| | | | | | | | |b e| | |]; try discriminate Hty.
    rewrite denote_VL. reflexivity.
  - rewrite has_type_VL in Hty. destruct t as [| | | | | | | | |b e| | |]; try discriminate Hty.
    apply andb_true_iff in Hty. destruct Hty as [Hall _]. rewrite forallb_forall in Hall.
    destruct (ty_ok_list env b e (slot_ok_ty _ _ _ Hs)) as [Hoe Hpe].
    rewrite Forall_forall in IH.
    rewrite denote_VL, skipped_depth_eq. cbn [deref_ty].
    apply Nat.le_0_r. apply need_max_bound. intros w Hw.
    apply in_map_iff in Hw. destruct Hw as (x & Ex & Hx). subst w.
    rewrite (IH x Hx e (Hall x Hx) (slot_ok_elem env e x Hoe Hpe)). lia.
  - rewrite has_type_VM in Hty. destruct t as [| | | | | | | | | |kt vt| |]; try discriminate Hty.
    rewrite denote_VM. reflexivity.
  - rewrite has_type_VM in Hty. destruct t as [| | | | | | | | | |kt vt| |]; try discriminate Hty.
    apply andb_true_iff in Hty. destruct Hty as [Hty _].
    apply andb_true_iff in Hty. destruct Hty as [Hall _]. rewrite forallb_forall in Hall.
    destruct (ty_ok_map env kt vt (slot_ok_ty _ _ _ Hs)) as (Hkk & Hok & Hov & Hpv).
    rewrite Forall_forall in IH.
    rewrite denote_VM, skipped_depth_eq. cbn [deref_ty].
    apply Nat.le_0_r. apply need_max_bound. intros w Hw.
    apply in_map_iff in Hw. destruct Hw as (kv & Ex & Hkv). subst w.
    cbn [fst snd]. destruct (IH kv Hkv) as [IHk IHv].
    pose proof (Hall kv Hkv) as Hkvt. apply andb_true_iff in Hkvt. destruct Hkvt as [Htk Htv].
    rewrite (IHk kt Htk (slot_ok_elem env kt _ Hok (key_elem_pos kt Hkk))).
    rewrite (IHv vt Htv (slot_ok_elem env vt _ Hov Hpv)). lia.
  - rewrite denote_VPn, skipped_depth_eq.
    destruct (deref_ty t); try reflexivity. destruct (lookup_sd env sid); reflexivity.
  - rewrite has_type_VP in Hty. destruct t as [| | | | | | | | | | | |t']; try discriminate Hty.
    destruct (ty_ok_ptr env t' (slot_ok_ty _ _ _ Hs)) as [Hok Hnp].
    rewrite denote_VPs, (skipped_ptr env t' _ Hnp). apply IH; [exact Hty|].
    unfold slot_ok. rewrite Hok, Hnp. reflexivity.
  - rewrite has_type_VT in Hty. destruct t as [| | | | | | | | | | |sid|]; try discriminate Hty.
    destruct (lookup_sd env sid) as [sd|] eqn:Hl; [|discriminate Hty].
    apply andb_true_iff in Hty. destruct Hty as [Hty _].
    apply andb_true_iff in Hty. destruct Hty as [Hall _].
    rewrite Forall_forall in IH.
    rewrite denote_VT, Hl, skipped_depth_eq. cbn [deref_ty]. rewrite Hl.
    apply Nat.le_0_r. apply need_max_bound. intros fw Hfw.
    destruct (fields_cat_in env fw fs (sfields sd) Hfw) as (i & f & v & Hf & Hv & Hem & Efw). subst fw.
    cbn [fst snd]. unfold get_field.
    rewrite (find_field_sorted (sfields sd) i f O (env_sorted_ids env sid sd HE Hl) Hf).
    destruct (fields_all_nth _ fs (sfields sd) i f Hall Hf) as (v' & Hv' & Htv).
    rewrite Hv in Hv'. injection Hv' as Hv'. subst v'.
    pose proof (nth_error_In _ _ Hv) as Hin.
    pose proof (env_field_ok env sid sd f HE Hl (nth_error_In _ _ Hf)) as Hfo.
    pose proof (emitted_slot_ok env f v Hfo (emits_not_skipped f v Hem)) as Hsv.
    rewrite (code_of_denote env HP v (fty f) Htv Hsv), N.eqb_refl.
    rewrite (IH v Hin (fty f) Htv Hsv). lia.
Qed.

(* ------------------------------------------------------------------ *)
(* (3) round trip (property C01)                                        *)
(* ------------------------------------------------------------------ *)

(* The form that uses only [dec_params_ok] about the generated constants. *)
Theorem roundtrip_gen : forall env pool sid v rest,
  dec_params_ok = true -> tables_ok = true -> env_ok env = true -> init_ok env = true ->
  has_type env (TStruct sid) v = true -> Spec.holders_empty v = true ->
  req_complete env (TStruct sid) v = true ->
  (2 * vdepth v + 2 <= S (N.to_nat maxDepthLimit))%nat ->
  decode_object env pool sid (append_struct env sid v ++ rest) (fresh env sid)
  = DOk (norm_top env sid v, len (append_struct env sid v)) rest.
Proof.
  intros env pool sid v rest HP HT HE HI Hty Hh Hr Hd.
  pose proof (dec_enc HP) as HPe.
  rewrite (encode_refines env sid v HPe HT HE Hty).
  rewrite <- holders_empty_same in Hh.
  pose proof (denote_wf_struct env sid v Hty Hh HPe HE) as Hwf.
  pose proof (absorb_top_denote env sid v HPe HE HI Hty Hr) as Hab.
  assert (Hs : slot_ok env (TStruct sid) v = true).
  { destruct v as [x|n s|ol|om|op|fs h];
      rewrite ?has_type_VS, ?has_type_VB, ?has_type_VL, ?has_type_VM, ?has_type_VP, ?has_type_VT in Hty;
      try discriminate Hty.
    destruct (lookup_sd env sid) as [sd|] eqn:Hl; [|discriminate Hty].
    exact (slot_ok_struct env sid sd _ Hl). }
  pose proof (need_denote env HPe HE v (TStruct sid) Hty Hs) as Hn.
  pose proof (skipped_denote env HPe HE v (TStruct sid) Hty Hs) as Hsk.
  assert (Hsid : lookup_sd env sid <> None).
  { destruct v as [x|n s|ol|om|op|fs h];
      rewrite ?has_type_VS, ?has_type_VB, ?has_type_VL, ?has_type_VM, ?has_type_VP, ?has_type_VT in Hty;
      try discriminate Hty.
    destruct (lookup_sd env sid); [discriminate|discriminate Hty]. }
  assert (Hw : exists fields, denote env (TStruct sid) v = WStruct fields []).
  { destruct v as [x|n s|ol|om|op|fs h];
      rewrite ?has_type_VS, ?has_type_VB, ?has_type_VL, ?has_type_VM, ?has_type_VP in Hty;
      try discriminate Hty.
    rewrite has_type_VT in Hty. rewrite denote_VT in Hwf |- *.
    destruct (lookup_sd env sid) as [sd|]; [|discriminate Hty].
    rewrite wf_WStruct in Hwf. apply andb_true_iff in Hwf. destruct Hwf as [_ Hraw].
    destruct (if sholder sd then h else []); [|discriminate Hraw]. eexists. reflexivity. }
  destruct Hw as [fields Ew]. rewrite Ew in *.
  destruct (fresh_VT env sid) as [fs0 Ef].
  pose proof (decode_refines (fun w r Hw Hd' _ => gk_skip_put HP w r Hw Hd')
                env pool sid fields rest (fresh env sid) HP HE Hwf Hsid
                (ex_intro _ fs0 (ex_intro _ [] Ef))) as Hdec.
  rewrite Hab in Hdec. apply Hdec; lia.
Qed.

(* The statement as asked.  With [need_denote] corrected to + 2 the bound
   [2 * vdepth v + 1 <= S maxDepthLimit] still suffices because maxDepthLimit
   (1023) is odd: [depth_odd_ok], a side condition of its own
   (proofs/GenDepthOdd.v), not part of [params_ok]. *)
Theorem roundtrip : forall env pool sid v rest,
  dec_params_ok = true -> depth_odd_ok = true -> tables_ok = true -> env_ok env = true -> init_ok env = true ->
  has_type env (TStruct sid) v = true -> Spec.holders_empty v = true ->
  enums32 env (TStruct sid) v = true -> req_complete env (TStruct sid) v = true ->
  (2 * vdepth v + 1 <= S (N.to_nat maxDepthLimit))%nat ->
  decode_object env pool sid (append_struct env sid v ++ rest) (fresh env sid)
  = DOk (norm_top env sid v, len (append_struct env sid v)) rest.
Proof.
  intros env pool sid v rest HP HO HT HE HI Hty Hh _ Hr Hd.
  apply roundtrip_gen; try assumption.
  exact (odd_budget _ HO Hd).
Qed.

(* ------------------------------------------------------------------ *)
(* the corrections are needed                                           *)
(* ------------------------------------------------------------------ *)

(* need <= 2 * vdepth + 1 fails: a struct whose only field is a nil struct
   pointer (written, as the field is not optional) *)
Example need_denote_not_plus_1 :
  let env := [mkSdesc [mkField 1 (TPtr (TStruct 0)) RDefault false None] false None] in
  let v := VT [VP None] [] in
  env_ok env = true /\ has_type env (TStruct 0) v = true
  /\ need env (TStruct 0) (denote env (TStruct 0) v) = 4%nat /\ (2 * vdepth v + 1 = 3)%nat.
Proof. repeat split; vm_compute; reflexivity. Qed.

(* without [init_ok]: InitDefault may put anything into a by-value struct
   field; the decoder then refuses the destination *)
Example roundtrip_needs_init_ok :
  let env := [mkSdesc [mkField 1 (TStruct 1) RDefault false None] false (Some [(O, VS 0)]);
              mkSdesc [] false None] in
  let v := VT [VT [] []] [] in
  env_ok env = true /\ init_ok env = false
  /\ has_type env (TStruct 0) v = true /\ Spec.holders_empty v = true
  /\ enums32 env (TStruct 0) v = true /\ req_complete env (TStruct 0) v = true
  /\ decode_object env [] 0 (append_struct env 0 v) (fresh env 0) = DErr EInternal.
Proof. repeat split; vm_compute; reflexivity. Qed.

(* [prior_ok] has to be recursive: a prior with the right number of cells
   whose by-value struct cell is not a struct is refused *)
Example prior_ok_needs_nesting :
  let env := [mkSdesc [mkField 1 (TStruct 1) RDefault false None] false None;
              mkSdesc [] false None] in
  let v := VT [VT [] []] [] in
  let prior := VT [VS 0] [] in
  env_ok env = true /\ init_ok env = true /\ has_type env (TStruct 0) v = true
  /\ length [VS 0] = length (sfields (mkSdesc [mkField 1 (TStruct 1) RDefault false None] false None))
  /\ prior_ok env (TStruct 0) prior = false
  /\ absorb env (TStruct 0) (denote env (TStruct 0) v) prior = ABad.
Proof. repeat split; vm_compute; reflexivity. Qed.

Print Assumptions absorb_denote.
Print Assumptions absorb_top_denote.
Print Assumptions need_denote.
Print Assumptions skipped_denote.
Print Assumptions typed_zero_ok.
Print Assumptions apply_init_idem.
Print Assumptions roundtrip_gen.
Print Assumptions roundtrip.
