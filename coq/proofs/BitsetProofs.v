(* BitsetProofs.v -- the 1024 x 64-bit word array of Bitset.v implements a set
   of 16-bit ids. *)
From Coq Require Import List NArith ZArith Bool Lia ZifyN ZifyNat ZifyBool.
From Frugal Require Import Bitset.
Import ListNotations.
Open Scope N_scope.
Ltac Zify.zify_post_hook ::= Z.div_mod_to_equations.
Arguments N.pow : simpl never.

(* ---------- upd / nth ---------- *)

Lemma upd_length : forall l k f, length (upd l k f) = length l.
Proof.
  induction l as [|w r IH]; intros [|k] f; cbn [upd length]; auto.
Qed.

Lemma nth_upd_same : forall l k f d, (k < length l)%nat -> nth k (upd l k f) d = f (nth k l d).
Proof.
  induction l as [|w r IH]; intros [|k] f d H; cbn [upd nth length] in *; try lia; auto.
  apply IH; lia.
Qed.

Lemma nth_upd_other : forall l k k' f d, k <> k' -> nth k' (upd l k f) d = nth k' l d.
Proof.
  induction l as [|w r IH]; intros [|k] [|k'] f d H; cbn [upd nth]; auto; try congruence.
Qed.

Lemma Forall_upd : forall (P : N -> Prop) l k f,
  Forall P l -> (forall w, P w -> P (f w)) -> Forall P (upd l k f).
Proof.
  intros P l k f HF Hf. revert k.
  induction HF as [|w r Hw Hr IH]; intros [|k]; cbn [upd]; constructor; auto.
Qed.

(* ---------- index arithmetic ---------- *)

Lemma bs_y_mod : forall i, bs_y i = i mod 64.
Proof.
  intros i. unfold bs_y. change 63 with (N.ones 6). rewrite N.land_ones. reflexivity.
Qed.

Lemma bs_y_lt : forall i, bs_y i < 64.
Proof. intros i. rewrite bs_y_mod. apply N.mod_upper_bound. discriminate. Qed.

Lemma bs_x_div : forall i, bs_x i = N.to_nat (i / 64).
Proof. intros i. unfold bs_x. rewrite N.shiftr_div_pow2. reflexivity. Qed.

Lemma bs_x_lt : forall i, i < 65536 -> (bs_x i < bs_words)%nat.
Proof.
  intros i Hi. rewrite bs_x_div. unfold bs_words.
  assert (H : i / 64 < 1024) by (apply N.div_lt_upper_bound; [discriminate | exact Hi]).
  lia.
Qed.

Lemma idx_inj : forall i j, bs_x i = bs_x j -> bs_y i = bs_y j -> i = j.
Proof.
  intros i j Hx Hy. rewrite !bs_x_div in Hx. rewrite !bs_y_mod in Hy.
  apply N2Nat.inj in Hx.
  rewrite (N.div_mod i 64), (N.div_mod j 64) by discriminate. rewrite Hx, Hy. reflexivity.
Qed.

Lemma eqb_idx : forall i j, bs_x i = bs_x j -> (i =? j) = (bs_y i =? bs_y j).
Proof.
  intros i j Hx. destruct (N.eqb_spec i j) as [E|E].
  - subst. symmetry. apply N.eqb_refl.
  - destruct (N.eqb_spec (bs_y i) (bs_y j)) as [E'|E']; auto.
    exfalso. apply E. apply idx_inj; assumption.
Qed.

(* ---------- bit-level facts ---------- *)

Lemma land_bit_eqb : forall w y, (N.land w (N.shiftl 1 y) =? 0) = negb (N.testbit w y).
Proof.
  intros w y. rewrite N.shiftl_1_l.
  destruct (N.testbit w y) eqn:T; cbn [negb].
  - apply N.eqb_neq. intros H.
    assert (B : N.testbit (N.land w (2 ^ y)) y = true).
    { rewrite N.land_spec, T, N.pow2_bits_eqb, N.eqb_refl. reflexivity. }
    rewrite H, N.bits_0 in B. discriminate.
  - apply N.eqb_eq. apply N.bits_inj_iff. intros m.
    rewrite N.land_spec, N.pow2_bits_eqb, N.bits_0.
    destruct (N.eqb_spec y m) as [E|E].
    + subst. rewrite T. reflexivity.
    + apply andb_false_r.
Qed.

Lemma bs_test_bit : forall s i, bs_test s i = N.testbit (nth (bs_x i) s 0) (bs_y i).
Proof. intros s i. unfold bs_test. rewrite land_bit_eqb. apply negb_involutive. Qed.

Lemma set_word_bit : forall w y m, m < 64 ->
  N.testbit (mask64 (N.lor w (N.shiftl 1 y))) m = N.testbit w m || (y =? m).
Proof.
  intros w y m Hm. unfold mask64. rewrite N.mod_pow2_bits_low by exact Hm.
  rewrite N.lor_spec, N.shiftl_1_l, N.pow2_bits_eqb. reflexivity.
Qed.

Lemma unset_word_bit : forall w y m,
  N.testbit (N.ldiff w (N.shiftl 1 y)) m = N.testbit w m && negb (y =? m).
Proof.
  intros w y m. rewrite N.ldiff_spec, N.shiftl_1_l, N.pow2_bits_eqb. reflexivity.
Qed.

Lemma mask64_lt : forall w, mask64 w < 2 ^ 64.
Proof. intros w. unfold mask64. apply N.mod_upper_bound. discriminate. Qed.

Lemma high_bits_small : forall w m, w < 2 ^ 64 -> 64 <= m -> N.testbit w m = false.
Proof.
  intros w m Hw Hm. rewrite <- (N.mod_small w (2 ^ 64)) by exact Hw.
  apply N.mod_pow2_bits_high. exact Hm.
Qed.

Lemma ldiff_lt : forall w x, w < 2 ^ 64 -> N.ldiff w x < 2 ^ 64.
Proof.
  intros w x Hw.
  assert (E : N.ldiff w x = N.ldiff w x mod 2 ^ 64).
  { apply N.bits_inj_iff. intros m. destruct (N.lt_ge_cases m 64) as [L|G].
    - rewrite N.mod_pow2_bits_low by exact L. reflexivity.
    - rewrite N.mod_pow2_bits_high by exact G.
      rewrite N.ldiff_spec, (high_bits_small w m Hw G). reflexivity. }
  rewrite E. apply N.mod_upper_bound. discriminate.
Qed.

(* ---------- well-formedness ---------- *)

Lemma bs_zero_wf : bs_wf bs_zero.
Proof.
  unfold bs_wf, bs_zero. split.
  - apply repeat_length.
  - apply Forall_forall. intros w Hw. apply repeat_spec in Hw. subst. reflexivity.
Qed.

Lemma bs_set_wf : forall s i, bs_wf s -> i < 65536 -> bs_wf (bs_set s i).
Proof.
  intros s i [HL HF] _. unfold bs_wf, bs_set. split.
  - rewrite upd_length. exact HL.
  - apply Forall_upd; [exact HF|]. intros w _. apply mask64_lt.
Qed.

Lemma bs_unset_wf : forall s i, bs_wf s -> i < 65536 -> bs_wf (bs_unset s i).
Proof.
  intros s i [HL HF] _. unfold bs_wf, bs_unset. split.
  - rewrite upd_length. exact HL.
  - apply Forall_upd; [exact HF|]. intros w Hw. apply ldiff_lt. exact Hw.
Qed.

(* ---------- test after set / unset ---------- *)

Theorem bs_test_set : forall s i j, bs_wf s -> i < 65536 -> j < 65536 ->
  bs_test (bs_set s i) j = (i =? j) || bs_test s j.
Proof.
  intros s i j [HL _] Hi Hj. rewrite !bs_test_bit. unfold bs_set.
  destruct (Nat.eq_dec (bs_x i) (bs_x j)) as [Ex|Ex].
  - rewrite (eqb_idx i j Ex). rewrite <- Ex.
    rewrite nth_upd_same by (rewrite HL; apply bs_x_lt; exact Hi).
    rewrite set_word_bit by apply bs_y_lt. apply orb_comm.
  - rewrite nth_upd_other by exact Ex.
    destruct (N.eqb_spec i j) as [E|E]; [subst; congruence|]. reflexivity.
Qed.

Theorem bs_test_unset : forall s i j, bs_wf s -> i < 65536 -> j < 65536 ->
  bs_test (bs_unset s i) j = negb (i =? j) && bs_test s j.
Proof.
  intros s i j [HL _] Hi Hj. rewrite !bs_test_bit. unfold bs_unset.
  destruct (Nat.eq_dec (bs_x i) (bs_x j)) as [Ex|Ex].
  - rewrite (eqb_idx i j Ex). rewrite <- Ex.
    rewrite nth_upd_same by (rewrite HL; apply bs_x_lt; exact Hi).
    rewrite unset_word_bit. apply andb_comm.
  - rewrite nth_upd_other by exact Ex.
    destruct (N.eqb_spec i j) as [E|E]; [subst; congruence|]. reflexivity.
Qed.

Theorem bs_test_zero : forall j, j < 65536 -> bs_test bs_zero j = false.
Proof.
  intros j Hj. rewrite bs_test_bit. unfold bs_zero.
  assert (E : nth (bs_x j) (repeat 0 bs_words) 0 = 0).
  { destruct (nth_in_or_default (bs_x j) (repeat 0 bs_words) 0) as [H|H].
    - apply repeat_spec in H. exact H.
    - exact H. }
  rewrite E. apply N.bits_0.
Qed.

(* ---------- refinement of the abstract set ---------- *)

Lemma existsb_filter_ne : forall i j l,
  existsb (N.eqb j) (filter (fun j' => negb (j' =? i)) l) = negb (i =? j) && existsb (N.eqb j) l.
Proof.
  intros i j l. induction l as [|a l IH]; cbn [filter existsb].
  - symmetry. apply andb_false_r.
  - destruct (N.eqb_spec a i) as [E|E]; cbn [negb existsb].
    + subst a. rewrite IH. rewrite (N.eqb_sym j i).
      destruct (i =? j); reflexivity.
    + rewrite IH. destruct (N.eqb_spec j a) as [E'|E'].
      * subst a. destruct (N.eqb_spec i j) as [E2|E2]; [congruence|]. reflexivity.
      * cbn [orb]. reflexivity.
Qed.

Theorem bs_refines_set : forall ops s l,
  bs_wf s ->
  (forall j, j < 65536 -> bs_test s j = existsb (N.eqb j) l) ->
  Forall (fun oi => snd oi < 65536) ops ->
  bs_run s ops = set_run l ops.
Proof.
  induction ops as [|[o i] r IH]; intros s l Hwf Hrel Hops; cbn [bs_run set_run]; [reflexivity|].
  inversion Hops as [|x y Hi Hr]; subst. cbn [snd] in Hi.
  destruct (o =? 0).
  - apply IH; [apply bs_set_wf; assumption | | exact Hr].
    intros j Hj. rewrite bs_test_set by assumption. cbn [existsb].
    rewrite (N.eqb_sym j i), Hrel by exact Hj. reflexivity.
  - destruct (o =? 1).
    + apply IH; [apply bs_unset_wf; assumption | | exact Hr].
      intros j Hj. rewrite bs_test_unset by assumption.
      rewrite existsb_filter_ne, Hrel by exact Hj. reflexivity.
    + f_equal; [apply Hrel; exact Hi | apply IH; assumption].
Qed.

(* from the all-zero array, the runs agree with the empty set *)
Corollary bs_refines_set_zero : forall ops,
  Forall (fun oi => snd oi < 65536) ops -> bs_run bs_zero ops = set_run [] ops.
Proof.
  intros ops H. apply bs_refines_set; [apply bs_zero_wf | | exact H].
  intros j Hj. apply bs_test_zero. exact Hj.
Qed.

Print Assumptions bs_set_wf.
Print Assumptions bs_unset_wf.
Print Assumptions bs_zero_wf.
Print Assumptions bs_test_set.
Print Assumptions bs_test_unset.
Print Assumptions bs_test_zero.
Print Assumptions bs_refines_set.
