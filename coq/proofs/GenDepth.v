(* GenDepth.v -- the nesting-depth promise (48 levels fit into both budgets), re-proved on every run
   against what the translator read from the Go sources. *)
From Frugal Require Import Checks.

Lemma depth_ok_holds : depth_ok = true.
Proof. vm_compute. reflexivity. Qed.
