(* TwoHop.v -- property C11, end to end: a message written with a newer schema,
   decoded and re-encoded by an intermediary that knows an older sub-schema
   (with the unknown-fields holder), is decoded by a newer-schema reader to
   exactly the value it would have got directly from the writer.

   (0) lists, map keys, [ainsert];
   (1) what [norm] preserves, and when a second normalisation changes nothing
       ([hop_all]: typing, completeness and norm (norm v p1) p2 = norm v p2);
   (2) the reference field loop over a message with pairwise distinct ids,
       computed cell by cell ([ab_fields_cells]);
   (3) [two_hop], [two_hop_full]: the reference-decoder statement;
   (4) [two_hop_impl], [two_hop_size], [two_hop_length]: the byte-level statements;
   (5) the hypotheses on schemas and initialisers as one computable check
       ([hop_checks], [hop_value_ok], [two_hop_checked], [two_hop_impl_checked]);
   (6) they hold when no struct declares defaults ([two_hop_noinit],
       [two_hop_impl_noinit]);
   (7) a worked instance, and examples showing that each side condition is needed. *)
From Coq Require Import List PeanoNat NArith Bool Lia ZifyN ZifyNat ZifyBool.
From Frugal Require Import Bytes Wire Skip Values Desc Spec Encode Decode Checks.
From Frugal.gen Require Import Params.
From Frugal.proofs Require Import DecodeSound BytesWire EncodeSpec SizeExact SkipPut DecodeSafe DecodeRefines RoundTrip Corollaries ParamsSplit.
Import ListNotations.
Open Scope N_scope.

(* ================================================================== *)
(* 0. Lists, keys, ainsert                                              *)
(* ================================================================== *)

Inductive Forall3 {A B C : Type} (R : A -> B -> C -> Prop) : list A -> list B -> list C -> Prop :=
| Forall3_nil : Forall3 R [] [] []
| Forall3_cons : forall a b c la lb lc,
    R a b c -> Forall3 R la lb lc -> Forall3 R (a :: la) (b :: lb) (c :: lc).

Lemma list_eqb_N_eq : forall a b : list N, list_eqb N.eqb a b = true -> a = b.
Proof.
  induction a as [|x a IH]; intros b H; destruct b as [|y b]; try discriminate H; [reflexivity|].
  cbn [list_eqb] in H. apply andb_true_iff in H. destruct H as [H1 H2].
  apply N.eqb_eq in H1. subst y. rewrite (IH b H2). reflexivity.
Qed.

Lemma list_eqb_N_refl : forall a : list N, list_eqb N.eqb a a = true.
Proof. induction a as [|x a IH]; [reflexivity|]. cbn [list_eqb]. rewrite N.eqb_refl, IH. reflexivity. Qed.

Lemma dbl_eq_trans : forall a b c, dbl_eq a b = true -> dbl_eq b c = true -> dbl_eq a c = true.
Proof.
  unfold dbl_eq. intros a b c H1 H2.
  destruct (dbl_is_nan a); [discriminate H1|]. destruct (dbl_is_nan b); [discriminate H1|].
  destruct (dbl_is_nan c); [discriminate H2|]. cbn [orb] in *.
  destruct (dbl_is_zero a) eqn:Za; destruct (dbl_is_zero b) eqn:Zb; destruct (dbl_is_zero c) eqn:Zc;
    cbn [andb] in *; try reflexivity;
    try (apply N.eqb_eq in H1; subst b); try (apply N.eqb_eq in H2; subst c); try congruence.
  apply N.eqb_refl.
Qed.

Lemma key_eq_trans : forall kt a b c, key_eq kt a b = true -> key_eq kt b c = true -> key_eq kt a c = true.
Proof.
  intros kt a b c H1 H2.
  destruct a as [x|n s| | | |]; destruct b as [y|n' s'| | | |]; try discriminate H1;
    destruct c as [z|n'' s''| | | |]; try discriminate H2; cbn [key_eq] in *.
  - destruct kt; try (apply N.eqb_eq in H1; apply N.eqb_eq in H2; subst; apply N.eqb_refl).
    exact (dbl_eq_trans x y z H1 H2).
  - unfold bytes_eqb in *. apply list_eqb_N_eq in H1. apply list_eqb_N_eq in H2. subst.
    apply list_eqb_N_refl.
Qed.

(* ---- ainsert ---- *)

Definition key_free (kt : ty) (k : val) (m : list (val * val)) : bool :=
  negb (existsb (fun kv : val * val => key_eq kt k (fst kv)) m).

Lemma keys_nodup_cons : forall kt k v r,
  keys_nodup kt ((k, v) :: r) = key_free kt k r && keys_nodup kt r.
Proof. reflexivity. Qed.

Lemma ainsert_in : forall kt m k v kv, In kv (ainsert kt m k v) -> In kv m \/ kv = (k, v).
Proof.
  induction m as [|[k' v'] r IH]; intros k v kv H.
  - destruct H as [H|[]]. right. symmetry. exact H.
  - cbn [ainsert] in H. destruct (key_eq kt k' k).
    + destruct H as [H|H]; [right; symmetry; exact H|left; right; exact H].
    + destruct H as [H|H]; [left; left; exact H|].
      destruct (IH k v kv H) as [H'|H']; [left; right; exact H'|right; exact H'].
Qed.

Lemma ainsert_length : forall kt m k v, (length (ainsert kt m k v) <= S (length m))%nat.
Proof.
  induction m as [|[k' v'] r IH]; intros k v; [cbn [ainsert length]; lia|].
  cbn [ainsert]. destruct (key_eq kt k' k); cbn [length]; [lia|]. pose proof (IH k v). lia.
Qed.

Lemma key_free_ainsert : forall kt k0 m k v,
  key_free kt k0 m = true -> key_eq kt k0 k = false -> key_free kt k0 (ainsert kt m k v) = true.
Proof.
  unfold key_free. induction m as [|[k' v'] r IH]; intros k v Hm Hk.
  - cbn [ainsert existsb fst]. rewrite Hk. reflexivity.
  - cbn [existsb fst] in Hm. apply negb_true_iff in Hm. apply orb_false_iff in Hm. destruct Hm as [H1 H2].
    cbn [ainsert]. destruct (key_eq kt k' k).
    + cbn [existsb fst]. rewrite Hk, H2. reflexivity.
    + cbn [existsb fst]. rewrite H1. cbn [orb]. apply IH; [rewrite H2; reflexivity|exact Hk].
Qed.

Lemma ainsert_nodup : forall kt m k v, keys_nodup kt m = true -> keys_nodup kt (ainsert kt m k v) = true.
Proof.
  induction m as [|[k' v'] r IH]; intros k v H; [reflexivity|].
  rewrite keys_nodup_cons in H. apply andb_true_iff in H. destruct H as [H1 H2].
  cbn [ainsert]. destruct (key_eq kt k' k) eqn:E.
  - rewrite keys_nodup_cons, H2, andb_true_r.
    unfold key_free in *. apply negb_true_iff. apply negb_true_iff in H1.
    destruct (existsb (fun kv : val * val => key_eq kt k (fst kv)) r) eqn:Ex; [|reflexivity].
    apply existsb_exists in Ex. destruct Ex as (kv & Hin & Hkv).
    assert (Hc : existsb (fun kv0 : val * val => key_eq kt k' (fst kv0)) r = true).
    { apply existsb_exists. exists kv. split; [exact Hin|]. exact (key_eq_trans kt k' k (fst kv) E Hkv). }
    rewrite Hc in H1. discriminate H1.
  - rewrite keys_nodup_cons, (IH k v H2), andb_true_r. apply key_free_ainsert; assumption.
Qed.

Definition ins_all (kt : ty) (g : val * val -> val * val) (m acc : list (val * val)) : list (val * val) :=
  fold_left (fun acc kv => ainsert kt acc (fst (g kv)) (snd (g kv))) m acc.

Lemma ins_all_in : forall kt g m acc kv, In kv (ins_all kt g m acc) -> In kv acc \/ exists kv0, In kv0 m /\ kv = g kv0.
Proof.
  unfold ins_all. induction m as [|x m IH]; intros acc kv H; [left; exact H|].
  cbn [fold_left] in H. destruct (IH _ kv H) as [H'|(kv0 & Hin & E)].
  - destruct (ainsert_in _ _ _ _ _ H') as [H1|H1]; [left; exact H1|].
    right. exists x. split; [left; reflexivity|]. rewrite H1. destruct (g x); reflexivity.
  - right. exists kv0. split; [right; exact Hin|exact E].
Qed.

Lemma ins_all_length : forall kt g m acc, (length (ins_all kt g m acc) <= length acc + length m)%nat.
Proof.
  unfold ins_all. induction m as [|x m IH]; intros acc; cbn [fold_left length]; [lia|].
  pose proof (IH (ainsert kt acc (fst (g x)) (snd (g x)))) as H.
  pose proof (ainsert_length kt acc (fst (g x)) (snd (g x))). lia.
Qed.

Lemma ins_all_nodup : forall kt g m acc, keys_nodup kt acc = true -> keys_nodup kt (ins_all kt g m acc) = true.
Proof.
  unfold ins_all. induction m as [|x m IH]; intros acc H; [exact H|].
  cbn [fold_left]. apply IH. apply ainsert_nodup. exact H.
Qed.

(* inserting the entries of a duplicate-free list one by one rebuilds it *)
Lemma keys_nodup_app_free : forall kt acc k v l, keys_nodup kt (acc ++ (k, v) :: l) = true ->
  forall kv, In kv acc -> key_eq kt (fst kv) k = false.
Proof.
  induction acc as [|[k' v'] r IH]; intros k v l H kv Hin; [destruct Hin|].
  cbn [app] in H. rewrite keys_nodup_cons in H. apply andb_true_iff in H. destruct H as [H1 H2].
  destruct Hin as [E|Hin].
  - subst kv. cbn [fst]. unfold key_free in H1. apply negb_true_iff in H1.
    destruct (key_eq kt k' k) eqn:Ek; [|reflexivity].
    assert (Hc : existsb (fun kv0 : val * val => key_eq kt k' (fst kv0)) (r ++ (k, v) :: l) = true).
    { apply existsb_exists. exists (k, v). split; [apply in_or_app; right; left; reflexivity|exact Ek]. }
    rewrite Hc in H1. discriminate H1.
  - exact (IH k v l H2 kv Hin).
Qed.

Lemma ainsert_fresh : forall kt acc k v, (forall kv, In kv acc -> key_eq kt (fst kv) k = false) ->
  ainsert kt acc k v = acc ++ [(k, v)].
Proof.
  induction acc as [|[k' v'] r IH]; intros k v H; [reflexivity|].
  cbn [ainsert]. pose proof (H (k', v') (or_introl eq_refl)) as Hk. cbn [fst] in Hk. rewrite Hk.
  cbn [app]. f_equal.
  apply IH. intros kv Hin. apply H. right. exact Hin.
Qed.

Lemma ins_all_id : forall kt g l acc, (forall kv, In kv l -> g kv = kv) ->
  keys_nodup kt (acc ++ l) = true -> ins_all kt g l acc = acc ++ l.
Proof.
  unfold ins_all. induction l as [|[k v] l IH]; intros acc Hg H; [rewrite app_nil_r; reflexivity|].
  cbn [fold_left]. rewrite (Hg (k, v) (or_introl eq_refl)). cbn [fst snd].
  rewrite (ainsert_fresh kt acc k v (keys_nodup_app_free kt acc k v l H)).
  rewrite IH.
  - rewrite <- app_assoc. reflexivity.
  - intros kv Hin. apply Hg. right. exact Hin.
  - rewrite <- app_assoc. exact H.
Qed.

Lemma lt31_le : forall a b, a <= b -> lt31 b = true -> lt31 a = true.
Proof. unfold lt31. intros a b H1 H2. apply N.ltb_lt in H2. apply N.ltb_lt. lia. Qed.

Lemma enum32_fix : forall x, enum32 x = true -> sext32 (low32 x) = x.
Proof.
  unfold enum32, sext32, low32. intros x H.
  change (2 ^ 31) with 2147483648 in *. change (2 ^ 32) with 4294967296 in *.
  change (2 ^ 64) with 18446744073709551616 in *.
  apply orb_true_iff in H. destruct H as [H|H].
  - apply N.ltb_lt in H. rewrite (N.mod_small x 4294967296) by lia.
    assert (E : (x <? 2147483648) = true) by (apply N.ltb_lt; exact H). rewrite E. reflexivity.
  - apply andb_true_iff in H. destruct H as [H1 H2]. apply N.leb_le in H1. apply N.ltb_lt in H2.
    assert (Em : x mod 4294967296 = x - 18446744069414584320).
    { symmetry. apply (N.mod_unique x 4294967296 4294967295); lia. }
    rewrite Em.
    assert (E : (x - 18446744069414584320 <? 2147483648) = false) by (apply N.ltb_ge; lia).
    rewrite E. lia.
Qed.

(* ================================================================== *)
(* 1. Normalising twice                                                 *)
(* ================================================================== *)

(* the types at which go_equal can answer true *)
Definition dflt_ty (t : ty) : bool :=
  is_scalar_ty t || match t with TString | TBinary => true | _ => false end.

(* the encoder may omit some value of the field *)
Definition skippable (f : field) : bool :=
  can_skip_nil f || (can_skip_default f && dflt_ty (fty f)).

Lemma go_equal_dflt_ty : forall t a b, go_equal t a b = true -> dflt_ty t = true.
Proof.
  intros t a b H. destruct a as [x|n s| | | |]; destruct b as [y|n' s'| | | |]; try discriminate H;
    destruct t; try discriminate H; reflexivity.
Qed.

Lemma not_emitted_skippable : forall f v, emits f v = false -> skippable f = true.
Proof.
  intros f v H. unfold emits in H. unfold skippable. apply andb_false_iff in H. destruct H as [H|H].
  - apply negb_false_iff in H. apply andb_true_iff in H. destruct H as [H _]. rewrite H. reflexivity.
  - apply negb_false_iff in H. apply andb_true_iff in H. destruct H as [H1 H2]. rewrite H1.
    destruct (fdflt f) as [d|]; [|discriminate H2]. rewrite (go_equal_dflt_ty _ _ _ H2). apply orb_true_r.
Qed.

(* what is asked of a cell q1 of the intermediary's destination (q2: the final
   reader's cell for the same field) when the writer omits the field: it is a
   typed value, and if the intermediary writes it out, decoding it into q2
   gives q2 *)
Definition cell_ok (env : senv) (f : field) (q1 q2 : val) : Prop :=
  has_type env (fty f) q1 = true /\ enums32 env (fty f) q1 = true /\ Spec.holders_empty q1 = true
  /\ (emits f q1 = true -> req_complete env (fty f) q1 = true /\ norm env (fty f) q1 q2 = q2).

(* p1, p2: prior contents of a slot of type t at the intermediary and at the
   final reader.  Only by-value struct slots matter. *)
Inductive pcompat (env : senv) : ty -> val -> val -> Prop :=
| pc_other : forall t p1 p2, is_struct_ty t = false -> pcompat env t p1 p2
| pc_struct : forall sid sd p1 p2 ps1 ps2 h2,
    lookup_sd env sid = Some sd -> prior_ok env (TStruct sid) p1 = true ->
    apply_init sd p1 = VT ps1 [] -> apply_init sd p2 = VT ps2 h2 ->
    Forall3 (fun f q1 q2 => pcompat env (fty f) q1 q2 /\ (skippable f = true -> cell_ok env f q1 q2))
            (sfields sd) ps1 ps2 ->
    pcompat env (TStruct sid) p1 p2.

(* every nil struct pointer that is written points to a type in [ok] *)
Fixpoint nil_ptrs_ok (ok : N -> bool) (env : senv) (t : ty) (v : val) {struct v} : bool :=
  match v with
  | VS _ | VB _ _ => true
  | VL None | VM None => true
  | VP None => match t with TPtr (TStruct sid) => ok sid | _ => true end
  | VL (Some l) => match t with TList _ e => forallb (nil_ptrs_ok ok env e) l | _ => true end
  | VM (Some m) =>
      match t with
      | TMap kt vt => forallb (fun kv : val * val => nil_ptrs_ok ok env kt (fst kv) && nil_ptrs_ok ok env vt (snd kv)) m
      | _ => true
      end
  | VP (Some v') => match t with TPtr t' => nil_ptrs_ok ok env t' v' | _ => true end
  | VT fs _ =>
      match t with
      | TStruct sid =>
          match lookup_sd env sid with
          | Some sd => fields_all (fun f v' => negb (emits f v') || nil_ptrs_ok ok env (fty f) v') (sfields sd) fs
          | None => true
          end
      | _ => true
      end
  end.

(* the default-initialised value of the type is typed and survives encode + decode unchanged *)
Definition fresh_stable (env : senv) (sid : N) : Prop :=
  has_type env (TStruct sid) (fresh env sid) = true /\ enums32 env (TStruct sid) (fresh env sid) = true
  /\ Spec.holders_empty (fresh env sid) = true /\ req_complete env (TStruct sid) (fresh env sid) = true
  /\ norm_top env sid (fresh env sid) = fresh env sid.

(* ---- one-step unfoldings ---- *)
Lemma enums32_VT : forall env sid fs h, enums32 env (TStruct sid) (VT fs h) =
  match lookup_sd env sid with
  | Some sd => fields_all (fun f v' => enums32 env (fty f) v') (sfields sd) fs
  | None => true
  end.
Proof. reflexivity. Qed.
Lemma nil_VT : forall ok env sid fs h, nil_ptrs_ok ok env (TStruct sid) (VT fs h) =
  match lookup_sd env sid with
  | Some sd => fields_all (fun f v' => negb (emits f v') || nil_ptrs_ok ok env (fty f) v') (sfields sd) fs
  | None => true
  end.
Proof. reflexivity. Qed.
Lemma hempty_VT : forall fs h, Spec.holders_empty (VT fs h) =
  match h with [] => forallb Spec.holders_empty fs | _ => false end.
Proof. reflexivity. Qed.

Lemma enum_fix_id : forall env t x, enums32 env t (VS x) = true -> enum_fix t x = x.
Proof.
  intros env t x H. destruct t; try reflexivity. cbn [enums32] in H. cbn [enum_fix]. apply enum32_fix. exact H.
Qed.

Lemma norm_prior_init : forall env sid sd x p, lookup_sd env sid = Some sd ->
  norm env (TStruct sid) x (apply_init sd p) = norm env (TStruct sid) x p.
Proof.
  intros env sid sd x p Hl. destruct x as [y|n s|[l|]|[m|]|[v'|]|fs h]; try reflexivity.
  rewrite !norm_VT, Hl, apply_init_idem. reflexivity.
Qed.

(* ---- an emitted value is still emitted after normalisation ---- *)
Lemma is_nil_norm : forall env t v p, is_nil v = false -> is_nil (norm env t v p) = false.
Proof.
  intros env t v p H. destruct v as [y|n s|[l|]|[m|]|[v'|]|fs h]; try reflexivity; try discriminate H.
  - destruct t; reflexivity.
  - destruct t; reflexivity.
  - destruct t; reflexivity.
  - destruct t as [| | | | | | | | | | |sid|]; try reflexivity. rewrite norm_VT.
    destruct (lookup_sd env sid) as [sd|]; [|reflexivity]. destruct (apply_init sd p); reflexivity.
Qed.

Lemma go_equal_norm : forall env t d v p, enums32 env t v = true ->
  go_equal t d (norm env t v p) = go_equal t d v.
Proof.
  intros env t d v p He. destruct v as [y|n s|[l|]|[m|]|[v'|]|fs h].
  - rewrite norm_VS, (enum_fix_id env t y He). reflexivity.
  - rewrite norm_VB. destruct d; reflexivity.
  - destruct t; destruct d; reflexivity.
  - destruct d; reflexivity.
  - destruct t; destruct d; reflexivity.
  - destruct d; reflexivity.
  - destruct t as [| | | | | | | | | | | |t']; try (destruct d; reflexivity).
  - destruct t as [| | | | | | | | | | | |t']; try (destruct d; reflexivity).
    destruct t' as [| | | | | | | | | | |sid|]; try (destruct d; reflexivity).
    rewrite norm_VPn. destruct (lookup_sd env sid); destruct d; reflexivity.
  - destruct t as [| | | | | | | | | | |sid|]; try (destruct d; reflexivity). rewrite norm_VT.
    destruct (lookup_sd env sid) as [sd|]; [|destruct d; reflexivity].
    destruct (apply_init sd p); destruct d; reflexivity.
Qed.

Lemma emits_norm : forall env f v p, emits f v = true -> enums32 env (fty f) v = true ->
  emits f (norm env (fty f) v p) = true.
Proof.
  intros env f v p Hem He. unfold emits in *. apply andb_true_iff in Hem. destruct Hem as [H1 H2].
  apply andb_true_iff. split.
  - destruct (can_skip_nil f); [|reflexivity]. cbn [andb] in *. apply negb_true_iff in H1.
    rewrite (is_nil_norm env (fty f) v p H1). reflexivity.
  - destruct (fdflt f) as [d|]; [|exact H2]. rewrite (go_equal_norm env (fty f) d v p He). exact H2.
Qed.

Lemma pcompat_zero_typed : forall env t v,
  (forall sid sd, lookup_sd env sid = Some sd ->
     pcompat env (TStruct sid) (zero_of env (TStruct sid)) (zero_of env (TStruct sid))) ->
  has_type env t v = true -> pcompat env t (zero_of env t) (zero_of env t).
Proof.
  intros env t v HZ H. destruct t as [| | | | | | | | | | |sid|]; try (apply pc_other; reflexivity).
  destruct v as [y|n s|[l|]|[m|]|[v'|]|fs h]; try discriminate H.
  rewrite has_type_VT in H. destruct (lookup_sd env sid) as [sd|] eqn:Hl; [|discriminate H].
  exact (HZ sid sd Hl).
Qed.

Section Hop.
  Variable env : senv.
  Variable ok : N -> bool.
  Hypothesis HOK : forall sid, ok sid = true -> fresh_stable env sid.
  Hypothesis HZ : forall sid sd, lookup_sd env sid = Some sd ->
    pcompat env (TStruct sid) (zero_of env (TStruct sid)) (zero_of env (TStruct sid)).

  (* the value decoded by the intermediary (prior p1) is typed and complete,
     and re-encoding it and decoding into p2 gives what v itself gives *)
  Definition hop_res (t : ty) (v x : val) (p2 : val) : Prop :=
    has_type env t x = true /\ enums32 env t x = true /\ Spec.holders_empty x = true
    /\ req_complete env t x = true /\ norm env t x p2 = norm env t v p2.

  Definition hopP (v : val) : Prop := forall t p1 p2,
    has_type env t v = true -> enums32 env t v = true -> Spec.holders_empty v = true ->
    req_complete env t v = true -> nil_ptrs_ok ok env t v = true -> pcompat env t p1 p2 ->
    hop_res t v (norm env t v p1) p2.

  Definition nz (e : ty) (x : val) : val := norm env e x (zero_of env e).

  Lemma hop_elems : forall e l, Forall hopP l ->
    forallb (has_type env e) l = true -> forallb (enums32 env e) l = true ->
    forallb Spec.holders_empty l = true -> forallb (req_complete env e) l = true ->
    forallb (nil_ptrs_ok ok env e) l = true ->
    forallb (has_type env e) (map (nz e) l) = true /\ forallb (enums32 env e) (map (nz e) l) = true
    /\ forallb Spec.holders_empty (map (nz e) l) = true /\ forallb (req_complete env e) (map (nz e) l) = true
    /\ map (nz e) (map (nz e) l) = map (nz e) l.
  Proof.
    intros e l HF. induction HF as [|x l Hx _ IHl]; intros Ht He Hh Hr Hn.
    - repeat split; reflexivity.
    - cbn [forallb] in Ht, He, Hh, Hr, Hn.
      apply andb_true_iff in Ht. destruct Ht as [Ht1 Ht2].
      apply andb_true_iff in He. destruct He as [He1 He2].
      apply andb_true_iff in Hh. destruct Hh as [Hh1 Hh2].
      apply andb_true_iff in Hr. destruct Hr as [Hr1 Hr2].
      apply andb_true_iff in Hn. destruct Hn as [Hn1 Hn2].
      destruct (IHl Ht2 He2 Hh2 Hr2 Hn2) as (A1 & A2 & A3 & A4 & A5).
      destruct (Hx e (zero_of env e) (zero_of env e) Ht1 He1 Hh1 Hr1 Hn1 (pcompat_zero_typed env e x HZ Ht1))
        as (B1 & B2 & B3 & B4 & B5).
      fold (nz e x) in B1, B2, B3, B4, B5. fold (nz e (nz e x)) in B5.
      cbn [map forallb]. rewrite A1, A2, A3, A4, A5, B1, B2, B3, B4, B5.
      repeat split; reflexivity.
  Qed.

  Lemma hop_entries : forall kt vt m, Forall (fun kv : val * val => hopP (fst kv) /\ hopP (snd kv)) m ->
    forallb (fun kv : val * val => has_type env kt (fst kv) && has_type env vt (snd kv)) m = true ->
    forallb (fun kv : val * val => enums32 env kt (fst kv) && enums32 env vt (snd kv)) m = true ->
    forallb (fun kv : val * val => Spec.holders_empty (fst kv) && Spec.holders_empty (snd kv)) m = true ->
    forallb (fun kv : val * val => req_complete env kt (fst kv) && req_complete env vt (snd kv)) m = true ->
    forallb (fun kv : val * val => nil_ptrs_ok ok env kt (fst kv) && nil_ptrs_ok ok env vt (snd kv)) m = true ->
    let g := fun kv : val * val => (norm env kt (fst kv) (zero_of env kt), norm env vt (snd kv) (zero_of env vt)) in
    forall kv, In kv m ->
      (has_type env kt (fst (g kv)) && has_type env vt (snd (g kv))) = true
      /\ (enums32 env kt (fst (g kv)) && enums32 env vt (snd (g kv))) = true
      /\ (Spec.holders_empty (fst (g kv)) && Spec.holders_empty (snd (g kv))) = true
      /\ (req_complete env kt (fst (g kv)) && req_complete env vt (snd (g kv))) = true
      /\ g (g kv) = g kv.
  Proof.
    intros kt vt m HF Ht He Hh Hr Hn g kv Hin.
    rewrite Forall_forall in HF. rewrite forallb_forall in Ht, He, Hh, Hr, Hn.
    destruct (HF kv Hin) as [Pk Pv].
    pose proof (Ht kv Hin) as T. apply andb_true_iff in T. destruct T as [T1 T2].
    pose proof (He kv Hin) as E. apply andb_true_iff in E. destruct E as [E1 E2].
    pose proof (Hh kv Hin) as H. apply andb_true_iff in H. destruct H as [H1 H2].
    pose proof (Hr kv Hin) as R. apply andb_true_iff in R. destruct R as [R1 R2].
    pose proof (Hn kv Hin) as Nn. apply andb_true_iff in Nn. destruct Nn as [N1 N2].
    destruct (Pk kt (zero_of env kt) (zero_of env kt) T1 E1 H1 R1 N1 (pcompat_zero_typed env kt _ HZ T1))
      as (A1 & A2 & A3 & A4 & A5).
    destruct (Pv vt (zero_of env vt) (zero_of env vt) T2 E2 H2 R2 N2 (pcompat_zero_typed env vt _ HZ T2))
      as (B1 & B2 & B3 & B4 & B5).
    unfold g. cbn [fst snd]. rewrite A1, A2, A3, A4, A5, B1, B2, B3, B4, B5. repeat split; reflexivity.
  Qed.

  Definition fcell (f : field) (q1 q2 : val) : Prop :=
    pcompat env (fty f) q1 q2 /\ (skippable f = true -> cell_ok env f q1 q2).

  Lemma hop_fields : forall fs fds ps1 ps2, Forall hopP fs -> Forall3 fcell fds ps1 ps2 ->
    fields_all (fun f v' => has_type env (fty f) v') fds fs = true ->
    fields_all (fun f v' => enums32 env (fty f) v') fds fs = true ->
    forallb Spec.holders_empty fs = true ->
    fields_all (fun f v' => negb (emits f v') || req_complete env (fty f) v') fds fs = true ->
    fields_all (fun f v' => negb (emits f v') || nil_ptrs_ok ok env (fty f) v') fds fs = true ->
    fields_all (fun f v' => has_type env (fty f) v') fds (norm_fields env fds fs ps1) = true
    /\ fields_all (fun f v' => enums32 env (fty f) v') fds (norm_fields env fds fs ps1) = true
    /\ forallb Spec.holders_empty (norm_fields env fds fs ps1) = true
    /\ fields_all (fun f v' => negb (emits f v') || req_complete env (fty f) v') fds (norm_fields env fds fs ps1) = true
    /\ norm_fields env fds (norm_fields env fds fs ps1) ps2 = norm_fields env fds fs ps2.
  Proof.
    intros fs fds ps1 ps2 HF. revert fds ps1 ps2.
    induction HF as [|v vr Hv _ IH]; intros fds ps1 ps2 H3 Ht He Hh Hr Hn.
    - destruct fds as [|f fr]; [|discriminate Ht]. inversion H3; subst. repeat split; reflexivity.
    - destruct fds as [|f fr]; [discriminate Ht|].
      inversion H3 as [|f0 q1 q2 fr0 r1 r2 [Hpc Hck] H3r]; subst.
      cbn [fields_all forallb] in Ht, He, Hh, Hr, Hn.
      apply andb_true_iff in Ht. destruct Ht as [Ht1 Ht2].
      apply andb_true_iff in He. destruct He as [He1 He2].
      apply andb_true_iff in Hh. destruct Hh as [Hh1 Hh2].
      apply andb_true_iff in Hr. destruct Hr as [Hr1 Hr2].
      apply andb_true_iff in Hn. destruct Hn as [Hn1 Hn2].
      destruct (IH fr r1 r2 H3r Ht2 He2 Hh2 Hr2 Hn2) as (A1 & A2 & A3 & A4 & A5).
      rewrite (norm_fields_cons env f fr v vr q1 r1), (norm_fields_cons env f fr v vr q2 r2).
      destruct (emits f v) eqn:Hem; cbv iota.
      + cbn [negb orb] in Hr1, Hn1.
        destruct (Hv (fty f) q1 q2 Ht1 He1 Hh1 Hr1 Hn1 Hpc) as (B1 & B2 & B3 & B4 & B5).
        rewrite norm_fields_cons, (emits_norm env f v q1 Hem He1), B5, A5.
        cbn [fields_all forallb]. rewrite (emits_norm env f v q1 Hem He1), A1, A2, A3, A4, B1, B2, B3, B4.
        repeat split; reflexivity.
      + destruct (Hck (not_emitted_skippable f v Hem)) as (C1 & C2 & C3 & C4).
        rewrite norm_fields_cons, A5. cbn [fields_all forallb]. rewrite A1, A2, A3, A4, C1, C2, C3.
        destruct (emits f q1) eqn:Hq.
        * destruct (C4 eq_refl) as [C5 C6]. rewrite C5, C6. repeat split; reflexivity.
        * repeat split; reflexivity.
  Qed.

  Theorem hop_all : forall v, hopP v.
  Proof.
    induction v as [x|n s| |l IH| |m IH| |v IH|fs h IH] using val_ind'; intros t p1 p2 Hty He Hh Hr Hn Hpc;
      unfold hop_res.
    - (* scalar *)
      rewrite !norm_VS, !(enum_fix_id env t x He).
      repeat split; assumption.
    - (* string, binary *)
      rewrite !norm_VB. rewrite has_type_VB in Hty |- *.
      repeat split; try reflexivity.
      destruct t; try discriminate Hty.
      + apply andb_true_iff in Hty. destruct Hty as [Hty H2]. apply andb_true_iff in Hty. destruct Hty as [_ H1].
        rewrite H1, H2. reflexivity.
      + apply andb_true_iff in Hty. destruct Hty as [Hty _]. rewrite Hty. reflexivity.
    - (* nil slice *)
      rewrite has_type_VL in Hty. destruct t as [| | | | | | | | |b e| | |]; try discriminate Hty.
      rewrite norm_VLn. repeat split; reflexivity.
    - (* slice *)
      rewrite has_type_VL in Hty. destruct t as [| | | | | | | | |b e| | |]; try discriminate Hty.
      apply andb_true_iff in Hty. destruct Hty as [Hall Hlen].
      rewrite req_VLs in Hr. cbn [enums32] in He. cbn [Spec.holders_empty] in Hh. cbn [nil_ptrs_ok] in Hn.
      destruct (hop_elems e l IH Hall He Hh Hr Hn) as (A1 & A2 & A3 & A4 & A5).
      rewrite !norm_VLs. fold (nz e). rewrite A5. rewrite has_type_VL, req_VLs. cbn [enums32 Spec.holders_empty].
      rewrite A1, A2, A3, A4, len_map, Hlen. repeat split; reflexivity.
    - (* nil map *)
      rewrite has_type_VM in Hty. destruct t as [| | | | | | | | | |kt vt| |]; try discriminate Hty.
      rewrite norm_VMn. repeat split; reflexivity.
    - (* map *)
      rewrite has_type_VM in Hty. destruct t as [| | | | | | | | | |kt vt| |]; try discriminate Hty.
      apply andb_true_iff in Hty. destruct Hty as [Hty Hnd].
      apply andb_true_iff in Hty. destruct Hty as [Hall Hlen].
      rewrite req_VMs in Hr. cbn [enums32] in He. cbn [Spec.holders_empty] in Hh. cbn [nil_ptrs_ok] in Hn.
      pose proof (hop_entries kt vt m IH Hall He Hh Hr Hn) as HA. cbv zeta in HA.
      set (g := fun kv : val * val => (norm env kt (fst kv) (zero_of env kt), norm env vt (snd kv) (zero_of env vt))) in HA.
      assert (En : forall p, norm env (TMap kt vt) (VM (Some m)) p = VM (Some (ins_all kt g m []))) by reflexivity.
      assert (En' : forall m0 p, norm env (TMap kt vt) (VM (Some m0)) p = VM (Some (ins_all kt g m0 []))) by reflexivity.
      rewrite !En, En'.
      assert (Hin : forall kv, In kv (ins_all kt g m []) -> exists kv0, In kv0 m /\ kv = g kv0).
      { intros kv H. destruct (ins_all_in kt g m [] kv H) as [[]|H']. exact H'. }
      assert (Hnd' : keys_nodup kt (ins_all kt g m []) = true) by (apply ins_all_nodup; reflexivity).
      rewrite (ins_all_id kt g (ins_all kt g m []) []); [|
        intros kv H; destruct (Hin kv H) as (kv0 & H0 & E); subst kv; exact (proj2 (proj2 (proj2 (proj2 (HA kv0 H0)))))
        | exact Hnd'].
      cbn [app]. rewrite has_type_VM, req_VMs. cbn [enums32 Spec.holders_empty].
      rewrite Hnd'.
      assert (Hl' : lt31 (len (ins_all kt g m [])) = true).
      { apply (lt31_le _ (len m)); [|exact Hlen]. pose proof (ins_all_length kt g m []) as H.
        cbn [length] in H. unfold len. lia. }
      rewrite Hl'.
      repeat split; try reflexivity.
      + rewrite andb_true_r, andb_true_r. apply forallb_forall. intros kv H. destruct (Hin kv H) as (kv0 & H0 & E). subst kv.
        exact (proj1 (HA kv0 H0)).
      + apply forallb_forall. intros kv H. destruct (Hin kv H) as (kv0 & H0 & E). subst kv.
        exact (proj1 (proj2 (HA kv0 H0))).
      + apply forallb_forall. intros kv H. destruct (Hin kv H) as (kv0 & H0 & E). subst kv.
        exact (proj1 (proj2 (proj2 (HA kv0 H0)))).
      + apply forallb_forall. intros kv H. destruct (Hin kv H) as (kv0 & H0 & E). subst kv.
        exact (proj1 (proj2 (proj2 (proj2 (HA kv0 H0))))).
    - (* nil pointer *)
      rewrite has_type_VP in Hty. destruct t as [| | | | | | | | | | | |t']; try discriminate Hty.
      destruct t' as [| | | | | | | | | | |sid|]; try (repeat split; reflexivity).
      rewrite !norm_VPn. destruct (lookup_sd env sid) as [sd|] eqn:Hl.
      + cbn [nil_ptrs_ok] in Hn. destruct (HOK sid Hn) as (F1 & F2 & F3 & F4 & F5).
        assert (Ef : apply_init sd (zero_of env (TStruct sid)) = fresh env sid) by (unfold fresh; rewrite Hl; reflexivity).
        rewrite Ef, norm_VPs, has_type_VP, req_VPs. cbn [enums32 Spec.holders_empty].
        rewrite F1, F2, F3, F4. repeat split; try reflexivity.
        unfold norm_top in F5. rewrite <- Ef in F5 at 2. rewrite (norm_prior_init env sid sd _ _ Hl) in F5.
        rewrite F5. reflexivity.
      + rewrite norm_VPn, Hl. repeat split; try reflexivity. exact Hr.
    - (* pointer *)
      rewrite has_type_VP in Hty. destruct t as [| | | | | | | | | | | |t']; try discriminate Hty.
      rewrite req_VPs in Hr. cbn [enums32] in He. cbn [Spec.holders_empty] in Hh. cbn [nil_ptrs_ok] in Hn.
      destruct (IH t' (zero_of env t') (zero_of env t') Hty He Hh Hr Hn (pcompat_zero_typed env t' v HZ Hty))
        as (B1 & B2 & B3 & B4 & B5).
      rewrite !norm_VPs, B5, has_type_VP, req_VPs. cbn [enums32 Spec.holders_empty].
      repeat split; assumption.
    - (* struct *)
      rewrite has_type_VT in Hty. destruct t as [| | | | | | | | | | |sid|]; try discriminate Hty.
      destruct (lookup_sd env sid) as [sd|] eqn:Hl; [|discriminate Hty].
      apply andb_true_iff in Hty. destruct Hty as [Hty _].
      apply andb_true_iff in Hty. destruct Hty as [Hall _].
      rewrite req_VT, Hl in Hr. rewrite enums32_VT, Hl in He. rewrite nil_VT, Hl in Hn.
      rewrite hempty_VT in Hh. destruct h; [|discriminate Hh].
      inversion Hpc as [t0 q1 q2 Hns|sid0 sd0 q1 q2 ps1 ps2 h2 Hl0 _ Ei1 Ei2 H3]; [discriminate Hns|]. subst.
      rewrite Hl in Hl0. injection Hl0 as Hl0. subst sd0.
      destruct (hop_fields fs (sfields sd) ps1 ps2 IH H3 Hall He Hh Hr Hn) as (A1 & A2 & A3 & A4 & A5).
      rewrite !norm_VT, Hl, Ei1, Ei2, norm_VT, Hl, Ei2, A5.
      rewrite has_type_VT, req_VT, enums32_VT, hempty_VT, Hl, A1, A2, A3, A4.
      repeat split; try reflexivity. cbn [bytes_ok forallb andb]. apply orb_true_r.
  Qed.
End Hop.

Lemma pcompat_prior_ok : forall env t p1 p2, pcompat env t p1 p2 -> prior_ok env t p1 = true.
Proof.
  intros env t p1 p2 H. destruct H as [t p1 p2 Hns|sid sd p1 p2 ps1 ps2 h2 _ Hp _ _ _].
  - exact (prior_ok_nonstruct env t p1 Hns).
  - exact Hp.
Qed.

(* ================================================================== *)
(* 2. The field loop over a message with pairwise distinct ids          *)
(* ================================================================== *)

Lemma find_field_spec : forall fs id i0 i f, find_field fs id i0 = Some (i, f) ->
  exists k, i = (i0 + k)%nat /\ nth_error fs k = Some f /\ fid f = id.
Proof.
  induction fs as [|g r IH]; intros id i0 i f H; [discriminate H|].
  cbn [find_field] in H. destruct (fid g =? id) eqn:E.
  - injection H as H1 H2. subst. exists O. split; [lia|]. split; [reflexivity|apply N.eqb_eq; exact E].
  - destruct (IH id (S i0) i f H) as (k & Hk & Hn & Hf). exists (S k). split; [lia|]. split; assumption.
Qed.

Lemma get_field_spec : forall sd id j f, get_field sd id = Some (j, f) ->
  nth_error (sfields sd) j = Some f /\ fid f = id.
Proof.
  intros sd id j f H. unfold get_field in H. destruct (find_field_spec _ _ _ _ _ H) as (k & Hk & Hn & Hf).
  cbn [Nat.add] in Hk. subst j. split; assumption.
Qed.

Lemma nth_set_nth_other : forall (A : Type) (l : list A) i j x d, i <> j -> nth j (set_nth l i x) d = nth j l d.
Proof.
  induction l as [|y l IH]; intros i j x d H; [reflexivity|].
  destruct i as [|i]; destruct j as [|j]; cbn [set_nth nth]; try reflexivity; [contradiction|].
  apply IH. intros E. apply H. rewrite E. reflexivity.
Qed.

(* the loop computed cell by cell: every stored field lands in its own cell
   (ids are distinct), every other cell keeps its content *)
Lemma ab_fields_cells : forall ab sd msg cur expected seen unk,
  NoDup (map fst msg) ->
  length cur = length (sfields sd) -> length expected = length (sfields sd) ->
  (forall id w, In (id, w) msg -> skipped sd (id, w) = false ->
     exists j f, get_field sd id = Some (j, f)
                 /\ ab (fty f) w (nth j cur (VS 0)) = AOk (nth j expected (VS 0))) ->
  (forall j, (forall id w f, In (id, w) msg -> skipped sd (id, w) = false -> get_field sd id <> Some (j, f)) ->
     nth_error cur j = nth_error expected j) ->
  exists seen' unk', ab_fields ab sd msg cur seen unk = AOk (expected, seen', unk').
Proof.
  intros ab sd. induction msg as [|[id w] r IH]; intros cur expected seen unk Hnd Hlc Hle Ht Hu.
  - exists seen, unk. cbn [ab_fields]. f_equal. f_equal. f_equal. apply nth_error_ext'. intros j. apply Hu.
    intros id w f [].
  - cbn [map fst] in Hnd. inversion Hnd as [|x l Hnin Hnd']; subst.
    rewrite ab_fields_cons. destruct (skipped sd (id, w)) eqn:Es.
    + apply IH; try assumption.
      * intros id' w' Hin Hs. apply Ht; [right; exact Hin|exact Hs].
      * intros j Hj. apply Hu. intros id' w' f [E|Hin] Hs.
        -- injection E as E1 E2. subst. rewrite Es in Hs. discriminate Hs.
        -- exact (Hj id' w' f Hin Hs).
    + destruct (Ht id w (or_introl eq_refl) Es) as (j & f & Hg & Hab). rewrite Hg, Hab.
      destruct (get_field_spec sd id j f Hg) as [Hnj Hfid].
      assert (Hjl : (j < length (sfields sd))%nat) by (apply nth_error_Some; rewrite Hnj; discriminate).
      apply IH.
      * exact Hnd'.
      * rewrite set_nth_length. exact Hlc.
      * exact Hle.
      * intros id' w' Hin Hs. destruct (Ht id' w' (or_intror Hin) Hs) as (j' & f' & Hg' & Hab').
        exists j', f'. split; [exact Hg'|].
        assert (Hne : j <> j').
        { intros E. subst j'. destruct (get_field_spec sd id' j f' Hg') as [Hnj' Hfid'].
          rewrite Hnj in Hnj'. injection Hnj' as E. subst f'. apply Hnin. rewrite <- Hfid, Hfid'.
          apply in_map_iff. exists (id', w'). split; [reflexivity|exact Hin]. }
        rewrite (nth_set_nth_other _ cur j j' _ _ Hne). exact Hab'.
      * intros j0 Hj0. rewrite nth_error_set_nth. destruct (Nat.eqb j j0) eqn:E.
        -- apply Nat.eqb_eq in E. subst j0. rewrite Hlc.
           assert (E : Nat.ltb j (length (sfields sd)) = true) by (apply Nat.ltb_lt; exact Hjl). rewrite E.
           symmetry. apply nth_error_nth'. rewrite Hle. exact Hjl.
        -- apply Nat.eqb_neq in E. apply Hu. intros id' w' f' [E'|Hin] Hs.
           ++ injection E' as E1 E2. subst id' w'. rewrite Hg. intros Hc. injection Hc as Hc _. contradiction.
           ++ exact (Hj0 id' w' f' Hin Hs).
Qed.

(* ---- ids of a sorted descriptor ---- *)
Lemma sorted_fid_inj : forall fds f g, sorted_ids fds = true -> In f fds -> In g fds -> fid f = fid g -> f = g.
Proof.
  induction fds as [|x fr IH]; intros f g Hs Hf Hg E; [destruct Hf|].
  destruct Hf as [Hf|Hf]; destruct Hg as [Hg|Hg].
  - subst. reflexivity.
  - subst x. pose proof (sorted_ids_head_lt fr f g Hs Hg). lia.
  - subst x. pose proof (sorted_ids_head_lt fr g f Hs Hf). lia.
  - exact (IH f g (sorted_ids_tail x fr Hs) Hf Hg E).
Qed.

Lemma fields_cat_ids_nodup : forall env fds vs, sorted_ids fds = true ->
  NoDup (map fst (fields_cat (spec_field env) fds vs)).
Proof.
  intros env. induction fds as [|f fr IH]; intros vs Hs; destruct vs as [|v vr]; try (cbn [fields_cat map]; constructor).
  cbn [fields_cat]. rewrite map_app. unfold spec_field at 1. destruct (emits f v).
  - cbn [map fst app]. constructor; [|exact (IH vr (sorted_ids_tail f fr Hs))].
    intros Hin. destruct (fields_cat_ids_in env _ _ _ Hin) as (g & Hg & E).
    pose proof (sorted_ids_head_lt fr f g Hs Hg). lia.
  - cbn [map app]. exact (IH vr (sorted_ids_tail f fr Hs)).
Qed.

Lemma fields_cat_intro : forall env fds vs i f v,
  nth_error fds i = Some f -> nth_error vs i = Some v -> emits f v = true ->
  In (fid f, denote env (fty f) v) (fields_cat (spec_field env) fds vs).
Proof.
  intros env. induction fds as [|fd fr IH]; intros vs i f v Hf Hv Hem; [destruct i; discriminate Hf|].
  destruct vs as [|v0 vr]; [destruct i; discriminate Hv|].
  cbn [fields_cat]. apply in_or_app. destruct i as [|i].
  - cbn [nth_error] in Hf, Hv. injection Hf as Hf. injection Hv as Hv. subst fd v0.
    left. unfold spec_field. rewrite Hem. left. reflexivity.
  - right. exact (IH vr i f v Hf Hv Hem).
Qed.

Lemma nodup_map_filter : forall (A B : Type) (g : A -> B) (p : A -> bool) l,
  NoDup (map g l) -> NoDup (map g (filter p l)).
Proof.
  intros A B g p. induction l as [|x l IH]; intros H; [constructor|].
  cbn [map] in H. inversion H as [|y l' Hn Hd]; subst. cbn [filter]. destruct (p x).
  - cbn [map]. constructor; [|exact (IH Hd)]. intros Hin. apply Hn.
    apply in_map_iff in Hin. destruct Hin as (z & E & Hz). apply filter_In in Hz. destruct Hz as [Hz _].
    apply in_map_iff. exists z. split; assumption.
  - exact (IH Hd).
Qed.

Lemma nodup_app : forall (A : Type) (a b : list A), NoDup a -> NoDup b ->
  (forall x, In x a -> ~ In x b) -> NoDup (a ++ b).
Proof.
  intros A. induction a as [|x a IH]; intros b Ha Hb Hd; [exact Hb|].
  inversion Ha as [|y l Hn Ha']; subst. cbn [app]. constructor.
  - intros Hin. apply in_app_or in Hin. destruct Hin as [Hin|Hin]; [exact (Hn Hin)|].
    exact (Hd x (or_introl eq_refl) Hin).
  - apply IH; [exact Ha'|exact Hb|]. intros z Hz. apply Hd. right. exact Hz.
Qed.

(* ---- zipping a descriptor with cells ---- *)
Fixpoint zipw (g : field -> val -> val) (fds : list field) (ps : list val) : list val :=
  match fds, ps with
  | f :: fr, p :: pr => g f p :: zipw g fr pr
  | _, _ => []
  end.

Lemma nth_error_zipw : forall g fds ps i f p,
  nth_error fds i = Some f -> nth_error ps i = Some p -> nth_error (zipw g fds ps) i = Some (g f p).
Proof.
  intros g. induction fds as [|f0 fr IH]; intros ps i f p Hf Hp; [destruct i; discriminate Hf|].
  destruct ps as [|p0 pr]; [destruct i; discriminate Hp|].
  destruct i as [|i]; cbn [nth_error zipw] in *.
  - injection Hf as Hf. injection Hp as Hp. subst. reflexivity.
  - exact (IH pr i f p Hf Hp).
Qed.

Lemma zipw_length : forall g fds ps, length ps = length fds -> length (zipw g fds ps) = length fds.
Proof.
  intros g. induction fds as [|f fr IH]; intros ps H; [reflexivity|].
  destruct ps as [|p pr]; [discriminate H|]. cbn [zipw length]. rewrite IH; [reflexivity|].
  cbn [length] in H. lia.
Qed.

Lemma nth_error_norm_fields : forall env fds vs ps i f v p,
  nth_error fds i = Some f -> nth_error vs i = Some v -> nth_error ps i = Some p ->
  nth_error (norm_fields env fds vs ps) i = Some (if emits f v then norm env (fty f) v p else p).
Proof.
  intros env. induction fds as [|f0 fr IH]; intros vs ps i f v p Hf Hv Hp; [destruct i; discriminate Hf|].
  destruct vs as [|v0 vr]; [destruct i; discriminate Hv|].
  destruct ps as [|p0 pr]; [destruct i; discriminate Hp|].
  rewrite norm_fields_cons. destruct i as [|i]; cbn [nth_error] in *.
  - injection Hf as Hf. injection Hv as Hv. injection Hp as Hp. subst. reflexivity.
  - exact (IH vr pr i f v p Hf Hv Hp).
Qed.

Lemma norm_fields_length : forall env fds vs ps, length vs = length fds -> length ps = length fds ->
  length (norm_fields env fds vs ps) = length fds.
Proof.
  intros env. induction fds as [|f fr IH]; intros vs ps H1 H2.
  - destruct vs; [reflexivity|discriminate H1].
  - destruct vs as [|v vr]; [discriminate H1|]. destruct ps as [|p pr]; [discriminate H2|].
    rewrite norm_fields_cons. cbn [length] in *. rewrite IH; lia.
Qed.

Lemma fresh_length : forall env sid sd ps h, lookup_sd env sid = Some sd -> fresh env sid = VT ps h ->
  length ps = length (sfields sd).
Proof.
  intros env sid sd ps h Hl H. unfold fresh in H. rewrite Hl in H. unfold zero_of in H. cbn [zero] in H.
  rewrite Hl in H. unfold apply_init in H. destruct (sinit sd) as [asg|].
  - injection H as H _. subst ps.
    fold (run_init asg (map (fun f => zero (length env) env (fty f)) (sfields sd))).
    rewrite run_init_length, map_length. reflexivity.
  - injection H as H _. subst ps. rewrite map_length. reflexivity.
Qed.

(* ---- depth of a denotation ---- *)
Lemma fold_max_lub : forall (A : Type) (g : A -> nat) l n,
  (forall x, In x l -> (g x <= n)%nat) -> (fold_right (fun y m => Nat.max (g y) m) O l <= n)%nat.
Proof.
  intros A g l n. induction l as [|x l IH]; intros H; cbn [fold_right]; [lia|].
  pose proof (H x (or_introl eq_refl)) as H1.
  assert (H2 : (fold_right (fun y m => Nat.max (g y) m) O l <= n)%nat) by (apply IH; intros y Hy; apply H; right; exact Hy).
  lia.
Qed.

Lemma wdepth_denote : forall env v t, (wdepth (denote env t v) <= S (vdepth v))%nat.
Proof.
  intros env. induction v as [x|n s| |l IH| |m IH| |v IH|fs h IH] using val_ind'; intros t.
  - rewrite denote_VS. destruct t; cbn [wdepth junk fold_right vdepth]; lia.
  - rewrite denote_VB. cbn [wdepth]. lia.
  - destruct t; try (cbn [denote wdepth junk fold_right vdepth]; lia).
  - destruct t as [| | | | | | | | |b e| | |]; try (cbn [denote wdepth junk fold_right vdepth]; lia).
    rewrite denote_VL. cbn [wdepth vdepth]. apply le_n_S.
    apply (fold_max_lub tv wdepth). intros w Hw. apply in_map_iff in Hw. destruct Hw as (x & E & Hx). subst w.
    rewrite Forall_forall in IH. pose proof (IH x Hx e) as H1. pose proof (vdepth_fold_le l x Hx) as H2. lia.
  - destruct t; try (cbn [denote wdepth junk fold_right vdepth]; lia).
  - destruct t as [| | | | | | | | | |kt vt| |]; try (cbn [denote wdepth junk fold_right vdepth]; lia).
    rewrite denote_VM. cbn [wdepth vdepth]. apply le_n_S.
    apply (fold_max_lub (tv * tv) (fun kv => Nat.max (wdepth (fst kv)) (wdepth (snd kv)))).
    intros w Hw. apply in_map_iff in Hw. destruct Hw as (kv & E & Hkv). subst w. cbn [fst snd].
    rewrite Forall_forall in IH. destruct (IH kv Hkv) as [H1 H2].
    pose proof (H1 kt) as H1'. pose proof (H2 vt) as H2'. pose proof (vdepth_fold_pair_le m kv Hkv) as H3. lia.
  - rewrite denote_VPn. cbn [wdepth fold_right vdepth]. lia.
  - destruct t as [| | | | | | | | | | | |t']; try (cbn [denote wdepth junk fold_right vdepth]; lia).
    rewrite denote_VPs. cbn [vdepth]. exact (IH t').
  - destruct t as [| | | | | | | | | | |sid|]; try (cbn [denote wdepth junk fold_right vdepth]; lia).
    rewrite denote_VT. destruct (lookup_sd env sid) as [sd|]; [|cbn [wdepth junk fold_right vdepth]; lia].
    cbn [wdepth vdepth]. apply le_n_S.
    apply (fold_max_lub (N * tv) (fun fv => wdepth (snd fv))). intros fw Hfw.
    destruct (fields_cat_in env fw fs (sfields sd) Hfw) as (i & f & v & Hf & Hv & Hem & Efw). subst fw. cbn [snd].
    rewrite Forall_forall in IH. pose proof (nth_error_In _ _ Hv) as Hin.
    pose proof (IH v Hin (fty f)) as H1. pose proof (vdepth_fold_le fs v Hin) as H2. lia.
Qed.

(* ================================================================== *)
(* 3. Two hops, reference decoder                                       *)
(* ================================================================== *)

(* the value of the field with this id in a struct value *)
Definition wval (fds : list field) (vs : list val) (id : N) : option val :=
  match find_field fds id O with
  | Some (j, _) => nth_error vs j
  | None => None
  end.

(* the cell of the intermediary's result for its field f (q: the cell of its destination) *)
Definition hop_cell (env : senv) (fdsW : list field) (fs : list val) (f : field) (q : val) : val :=
  match wval fdsW fs (fid f) with
  | Some v => if emits f v then norm env (fty f) v q else q
  | None => q
  end.

Section TwoHop.
  Variable env : senv.
  Hypothesis HP : dec_params_ok = true.
  Hypothesis HE : env_ok env = true.
  Hypothesis HI : init_ok env = true.
  Variable ok : N -> bool.
  Hypothesis HOK : forall sid, ok sid = true -> fresh_stable env sid.
  Hypothesis HZ : forall sid sd, lookup_sd env sid = Some sd ->
    pcompat env (TStruct sid) (zero_of env (TStruct sid)) (zero_of env (TStruct sid)).
  Variables sidW sidR : N.
  Variables sdW sdR : sdesc.
  Hypothesis HlW : lookup_sd env sidW = Some sdW.
  Hypothesis HlR : lookup_sd env sidR = Some sdR.
  Hypothesis Hsub : incl (sfields sdR) (sfields sdW).
  Variables psR psW : list val.
  Hypothesis HfR : fresh env sidR = VT psR [].
  Hypothesis HfW : fresh env sidW = VT psW [].
  Hypothesis Htop : forall i j f qR qW,
    nth_error (sfields sdR) i = Some f -> nth_error (sfields sdW) j = Some f ->
    nth_error psR i = Some qR -> nth_error psW j = Some qW -> fcell env f qR qW.
  Variable fs : list val.
  Hypothesis Hty : has_type env (TStruct sidW) (VT fs []) = true.
  Hypothesis Hen : enums32 env (TStruct sidW) (VT fs []) = true.
  Hypothesis Hhe : forallb Spec.holders_empty fs = true.
  Hypothesis Hrq : req_complete env (TStruct sidW) (VT fs []) = true.
  Hypothesis Hnp : nil_ptrs_ok ok env (TStruct sidW) (VT fs []) = true.

  Let fdsW := sfields sdW.
  Let fdsR := sfields sdR.
  Let fsW := emitted env sdW fs.
  Let curR := zipw (hop_cell env fdsW fs) fdsR psR.
  Let msg2 := emitted env sdR curR ++ filter (skipped sdR) fsW.
  Let expW := norm_fields env fdsW fs psW.

  Lemma sortedW_ids : sorted_ids fdsW = true. Proof. exact (env_sorted_ids env sidW sdW HE HlW). Qed.
  Lemma sortedR_ids : sorted_ids fdsR = true. Proof. exact (env_sorted_ids env sidR sdR HE HlR). Qed.

  Lemma typedW_fields : fields_all (fun f v' => has_type env (fty f) v') fdsW fs = true.
  Proof.
    pose proof Hty as H. rewrite has_type_VT, HlW in H.
    apply andb_true_iff in H. destruct H as [H _]. apply andb_true_iff in H. destruct H as [H _]. exact H.
  Qed.

  Lemma priorW_cells : fields_all (fun f p' => prior_ok env (fty f) p') fdsW psW = true.
  Proof.
    pose proof (typed_zero_ok env (TStruct sidW) _ Hty) as Hz.
    pose proof (apply_init_prior_ok env sidW sdW _ HI HlW Hz) as Hpi.
    assert (E : apply_init sdW (zero_of env (TStruct sidW)) = VT psW []).
    { rewrite <- HfW. unfold fresh. rewrite HlW. reflexivity. }
    rewrite E, prior_ok_VT, HlW in Hpi. exact Hpi.
  Qed.

  Lemma lenW_cells : length psW = length fdsW. Proof. exact (fresh_length env sidW sdW psW [] HlW HfW). Qed.
  Lemma lenR_cells : length psR = length fdsR. Proof. exact (fresh_length env sidR sdR psR [] HlR HfR). Qed.
  Lemma lenW_values : length fs = length fdsW.
  Proof. symmetry. exact (fields_all_length _ fs fdsW typedW_fields). Qed.

  Lemma wval_nth : forall j f, nth_error fdsW j = Some f -> wval fdsW fs (fid f) = nth_error fs j.
  Proof.
    intros j f Hj. unfold wval. rewrite (find_field_sorted fdsW j f O sortedW_ids Hj). reflexivity.
  Qed.

  Lemma getW : forall j f, nth_error fdsW j = Some f -> get_field sdW (fid f) = Some (j, f).
  Proof. intros j f Hj. unfold get_field. exact (find_field_sorted fdsW j f O sortedW_ids Hj). Qed.
  Lemma getR : forall i f, nth_error fdsR i = Some f -> get_field sdR (fid f) = Some (i, f).
  Proof. intros i f Hi. unfold get_field. exact (find_field_sorted fdsR i f O sortedR_ids Hi). Qed.

  Lemma idxW : forall i f, nth_error fdsR i = Some f -> exists j, nth_error fdsW j = Some f.
  Proof. intros i f Hi. apply In_nth_error. apply Hsub. exact (nth_error_In _ _ Hi). Qed.

  (* what the writer's value offers at position j *)
  Lemma Wfacts : forall j f, nth_error fdsW j = Some f ->
    exists v q2, nth_error fs j = Some v /\ nth_error psW j = Some q2
      /\ has_type env (fty f) v = true /\ enums32 env (fty f) v = true /\ Spec.holders_empty v = true
      /\ (emits f v = true -> req_complete env (fty f) v = true /\ nil_ptrs_ok ok env (fty f) v = true)
      /\ prior_ok env (fty f) q2 = true /\ field_ok env f = true.
  Proof.
    intros j f Hj.
    destruct (fields_all_nth _ fs fdsW j f typedW_fields Hj) as (v & Hv & Htv).
    destruct (fields_all_nth _ psW fdsW j f priorW_cells Hj) as (q2 & Hq2 & Hpq).
    pose proof Hen as He. rewrite enums32_VT, HlW in He.
    destruct (fields_all_nth _ fs fdsW j f He Hj) as (v1 & Hv1 & Hev). rewrite Hv in Hv1. injection Hv1 as Hv1. subst v1.
    pose proof Hrq as Hr. rewrite req_VT, HlW in Hr.
    destruct (fields_all_nth _ fs fdsW j f Hr Hj) as (v1 & Hv1 & Hrv). rewrite Hv in Hv1. injection Hv1 as Hv1. subst v1.
    pose proof Hnp as Hn. rewrite nil_VT, HlW in Hn.
    destruct (fields_all_nth _ fs fdsW j f Hn Hj) as (v1 & Hv1 & Hnv). rewrite Hv in Hv1. injection Hv1 as Hv1. subst v1.
    exists v, q2.
    split; [exact Hv|]. split; [exact Hq2|]. split; [exact Htv|]. split; [exact Hev|].
    split; [pose proof Hhe as Hh; rewrite forallb_forall in Hh; exact (Hh v (nth_error_In _ _ Hv))|].
    split; [intros Hem; rewrite Hem in Hrv, Hnv; split; [exact Hrv|exact Hnv]|].
    split; [exact Hpq|].
    exact (env_field_ok env sidW sdW f HE HlW (nth_error_In _ _ Hj)).
  Qed.

  (* the message entry of an emitted field is absorbed to its normal form *)
  Lemma absorb_entry : forall f v q, field_ok env f = true -> emits f v = true ->
    has_type env (fty f) v = true -> req_complete env (fty f) v = true -> prior_ok env (fty f) q = true ->
    wt (fty f) = code_of (denote env (fty f) v)
    /\ absorb env (fty f) (denote env (fty f) v) q = AOk (norm env (fty f) v q).
  Proof.
    intros f v q Hfo Hem Ht Hr Hp.
    pose proof (emitted_slot_ok env f v Hfo (emits_not_skipped f v Hem)) as Hs.
    split.
    - symmetry. exact (code_of_denote env (dec_enc HP) v (fty f) Ht Hs).
    - exact (absorb_denote_gen env (dec_enc HP) HE HI v (fty f) q Ht Hs Hr Hp).
  Qed.

  (* the cells of the intermediary's result *)
  Lemma Rfacts : forall i j f v q1 q2,
    nth_error fdsR i = Some f -> nth_error fdsW j = Some f -> nth_error fs j = Some v ->
    nth_error psR i = Some q1 -> nth_error psW j = Some q2 ->
    has_type env (fty f) v = true -> enums32 env (fty f) v = true -> Spec.holders_empty v = true ->
    (emits f v = true -> req_complete env (fty f) v = true /\ nil_ptrs_ok ok env (fty f) v = true) ->
    exists c, nth_error curR i = Some c
      /\ c = (if emits f v then norm env (fty f) v q1 else q1)
      /\ has_type env (fty f) c = true /\ Spec.holders_empty c = true
      /\ (emits f v = true -> emits f c = true)
      /\ (emits f c = true -> req_complete env (fty f) c = true
                              /\ norm env (fty f) c q2 = (if emits f v then norm env (fty f) v q2 else q2))
      /\ prior_ok env (fty f) q1 = true.
  Proof.
    intros i j f v q1 q2 Hi Hj Hv Hq1 Hq2 Ht He Hh Hrn.
    destruct (Htop i j f q1 q2 Hi Hj Hq1 Hq2) as [Hpc Hck].
    exists (hop_cell env fdsW fs f q1). split; [exact (nth_error_zipw _ fdsR psR i f q1 Hi Hq1)|].
    unfold hop_cell. rewrite (wval_nth j f Hj), Hv.
    split; [reflexivity|].
    destruct (emits f v) eqn:Hem.
    - destruct (Hrn eq_refl) as [Hr Hn].
      destruct (hop_all env ok HOK HZ v (fty f) q1 q2 Ht He Hh Hr Hn Hpc) as (B1 & B2 & B3 & B4 & B5).
      split; [exact B1|]. split; [exact B3|].
      split; [intros _; exact (emits_norm env f v q1 Hem He)|].
      split; [intros _; split; [exact B4|exact B5]|].
      exact (pcompat_prior_ok env _ _ _ Hpc).
    - destruct (Hck (not_emitted_skippable f v Hem)) as (C1 & C2 & C3 & C4).
      split; [exact C1|]. split; [exact C3|].
      split; [discriminate|].
      split; [exact C4|].
      exact (pcompat_prior_ok env _ _ _ Hpc).
  Qed.

  (* both together, from the intermediary's field index *)
  Lemma RWfacts : forall i f, nth_error fdsR i = Some f ->
    exists j v q1 q2 c, nth_error fdsW j = Some f /\ nth_error fs j = Some v
      /\ nth_error psR i = Some q1 /\ nth_error psW j = Some q2 /\ nth_error curR i = Some c
      /\ c = (if emits f v then norm env (fty f) v q1 else q1)
      /\ has_type env (fty f) v = true /\ field_ok env f = true
      /\ (emits f v = true -> req_complete env (fty f) v = true)
      /\ prior_ok env (fty f) q1 = true /\ prior_ok env (fty f) q2 = true
      /\ has_type env (fty f) c = true /\ Spec.holders_empty c = true
      /\ (emits f v = true -> emits f c = true)
      /\ (emits f c = true -> req_complete env (fty f) c = true
                              /\ norm env (fty f) c q2 = (if emits f v then norm env (fty f) v q2 else q2)).
  Proof.
    intros i f Hi. destruct (idxW i f Hi) as [j Hj].
    destruct (Wfacts j f Hj) as (v & q2 & Hv & Hq2 & Ht & He & Hh & Hrn & Hp2 & Hfo).
    assert (Hq1 : exists q1, nth_error psR i = Some q1).
    { destruct (nth_error psR i) as [q1|] eqn:E; [exists q1; reflexivity|].
      apply nth_error_None in E. rewrite lenR_cells in E.
      assert (Hlt : (i < length fdsR)%nat) by (apply nth_error_Some; rewrite Hi; discriminate).
      clear -E Hlt. lia. }
    destruct Hq1 as [q1 Hq1].
    destruct (Rfacts i j f v q1 q2 Hi Hj Hv Hq1 Hq2 Ht He Hh Hrn) as (c & Hc & Ec & Htc & Hhc & Hemc & Hcc & Hp1).
    exists j, v, q1, q2, c.
    split; [exact Hj|]. split; [exact Hv|]. split; [exact Hq1|]. split; [exact Hq2|]. split; [exact Hc|].
    split; [exact Ec|]. split; [exact Ht|]. split; [exact Hfo|].
    split; [intros Hem; exact (proj1 (Hrn Hem))|].
    split; [exact Hp1|]. split; [exact Hp2|]. split; [exact Htc|]. split; [exact Hhc|].
    split; [exact Hemc|exact Hcc].
  Qed.

  (* an entry of the writer's message *)
  Lemma fsW_entry : forall id w, In (id, w) fsW ->
    exists j f v, nth_error fdsW j = Some f /\ nth_error fs j = Some v /\ emits f v = true
                  /\ id = fid f /\ w = denote env (fty f) v.
  Proof.
    intros id w Hin. destruct (fields_cat_in env (id, w) fs fdsW Hin) as (j & f & v & Hj & Hv & Hem & E).
    injection E as E1 E2. exists j, f, v. repeat split; assumption.
  Qed.

  (* the intermediary knows a field of the writer's message iff it declares it *)
  Lemma known_R : forall j f v i fR, nth_error fdsW j = Some f -> nth_error fs j = Some v -> emits f v = true ->
    get_field sdR (fid f) = Some (i, fR) -> fR = f /\ nth_error fdsR i = Some f.
  Proof.
    intros j f v i fR Hj Hv Hem Hg. destruct (get_field_spec sdR _ i fR Hg) as [Hi Hid].
    assert (E : fR = f).
    { apply (sorted_fid_inj fdsW fR f sortedW_ids); [apply Hsub; exact (nth_error_In _ _ Hi)|exact (nth_error_In _ _ Hj)|exact Hid]. }
    subst fR. split; [reflexivity|exact Hi].
  Qed.

  Lemma declared_not_skipped : forall i f v, nth_error fdsR i = Some f ->
    has_type env (fty f) v = true -> field_ok env f = true -> emits f v = true ->
    skipped sdR (fid f, denote env (fty f) v) = false.
  Proof.
    intros i f v Hi Ht Hfo Hem. apply skipped_false. exists i, f. split; [exact (getR i f Hi)|].
    pose proof (emitted_slot_ok env f v Hfo (emits_not_skipped f v Hem)) as Hs.
    symmetry. exact (code_of_denote env (dec_enc HP) v (fty f) Ht Hs).
  Qed.

  (* ---- the intermediary's field loop ---- *)
  Lemma reader_run : exists seen' unk',
    ab_fields (absorb env) sdR fsW psR [] [] = AOk (curR, seen', unk').
  Proof.
    apply ab_fields_cells.
    - exact (fields_cat_ids_nodup env fdsW fs sortedW_ids).
    - exact lenR_cells.
    - unfold curR. apply zipw_length. exact lenR_cells.
    - intros id w Hin Hs.
      destruct (fsW_entry id w Hin) as (j & f & v & Hj & Hv & Hem & Eid & Ew). subst id w.
      apply skipped_false in Hs. destruct Hs as (i & fR & Hg & _).
      destruct (known_R j f v i fR Hj Hv Hem Hg) as [E Hi]. subst fR.
      exists i, f. split; [exact Hg|].
      destruct (RWfacts i f Hi) as (j' & v' & q1 & q2 & c & Hj' & Hv' & Hq1 & Hq2 & Hc & Ec & Ht & Hfo & Hr & Hp1 & _).
      assert (Ej : j' = j).
      { pose proof (getW j f Hj) as G1. pose proof (getW j' f Hj') as G2. rewrite G1 in G2. injection G2 as G2. symmetry. exact G2. }
      subst j'. rewrite Hv in Hv'. injection Hv' as Hv'. subst v'.
      rewrite (nth_error_nth _ _ (VS 0) Hq1), (nth_error_nth _ _ (VS 0) Hc), Ec, Hem.
      exact (proj2 (absorb_entry f v q1 Hfo Hem Ht (Hr Hem) Hp1)).
    - intros i Hun.
      destruct (nth_error fdsR i) as [f|] eqn:Hi.
      + destruct (RWfacts i f Hi) as (j & v & q1 & q2 & c & Hj & Hv & Hq1 & Hq2 & Hc & Ec & Ht & Hfo & Hr & _).
        rewrite Hq1, Hc, Ec. destruct (emits f v) eqn:Hem; [|reflexivity]. exfalso.
        apply (Hun (fid f) (denote env (fty f) v) f).
        * exact (fields_cat_intro env fdsW fs j f v Hj Hv Hem).
        * exact (declared_not_skipped i f v Hi Ht Hfo Hem).
        * exact (getR i f Hi).
      + apply nth_error_None in Hi.
        assert (E1 : nth_error psR i = None) by (apply nth_error_None; rewrite lenR_cells; exact Hi).
        assert (E2 : nth_error curR i = None).
        { apply nth_error_None. unfold curR. rewrite zipw_length; [exact Hi|exact lenR_cells]. }
        rewrite E1, E2. reflexivity.
  Qed.

  (* ---- the re-emitted message ---- *)
  Lemma curR_entry : forall id w, In (id, w) (emitted env sdR curR) ->
    exists i f c, nth_error fdsR i = Some f /\ nth_error curR i = Some c /\ emits f c = true
                  /\ id = fid f /\ w = denote env (fty f) c.
  Proof.
    intros id w Hin. destruct (fields_cat_in env (id, w) curR fdsR Hin) as (i & f & c & Hi & Hc & Hem & E).
    injection E as E1 E2. exists i, f, c. repeat split; assumption.
  Qed.

  (* every entry is a field the final reader declares, with its wire code, and
     is absorbed to the expected cell *)
  Lemma msg2_entry : forall id w, In (id, w) msg2 ->
    exists j f, get_field sdW id = Some (j, f) /\ wt (fty f) = code_of w
                /\ absorb env (fty f) w (nth j psW (VS 0)) = AOk (nth j expW (VS 0)).
  Proof.
    intros id w Hin. apply in_app_or in Hin. destruct Hin as [Hin|Hin].
    - destruct (curR_entry id w Hin) as (i & f & c & Hi & Hc & Hemc & Eid & Ew). subst id w.
      destruct (RWfacts i f Hi) as (j & v & q1 & q2 & c' & Hj & Hv & Hq1 & Hq2 & Hc' & Ec & Ht & Hfo & Hr & Hp1 & Hp2
                                      & Htc & Hhc & Hemvc & Hcc).
      rewrite Hc in Hc'. injection Hc' as Hc'. subst c'.
      destruct (Hcc Hemc) as [Hrc Hnc].
      exists j, f. split; [exact (getW j f Hj)|].
      destruct (absorb_entry f c q2 Hfo Hemc Htc Hrc Hp2) as [Hcode Hab].
      split; [exact Hcode|].
      rewrite (nth_error_nth _ _ (VS 0) Hq2), Hab, Hnc.
      unfold expW. rewrite (nth_error_nth _ _ (VS 0) (nth_error_norm_fields env fdsW fs psW j f v q2 Hj Hv Hq2)).
      reflexivity.
    - apply filter_In in Hin. destruct Hin as [Hin _].
      destruct (fsW_entry id w Hin) as (j & f & v & Hj & Hv & Hem & Eid & Ew). subst id w.
      destruct (Wfacts j f Hj) as (v' & q2 & Hv' & Hq2 & Ht & He & Hh & Hrn & Hp2 & Hfo).
      rewrite Hv in Hv'. injection Hv' as Hv'. subst v'.
      exists j, f. split; [exact (getW j f Hj)|].
      destruct (absorb_entry f v q2 Hfo Hem Ht (proj1 (Hrn Hem)) Hp2) as [Hcode Hab].
      split; [exact Hcode|].
      rewrite (nth_error_nth _ _ (VS 0) Hq2), Hab.
      unfold expW. rewrite (nth_error_nth _ _ (VS 0) (nth_error_norm_fields env fdsW fs psW j f v q2 Hj Hv Hq2)).
      rewrite Hem. reflexivity.
  Qed.

  Lemma msg2_known : forall id w, In (id, w) msg2 -> skipped sdW (id, w) = false.
  Proof.
    intros id w Hin. destruct (msg2_entry id w Hin) as (j & f & Hg & Hc & _).
    apply skipped_false. exists j, f. split; assumption.
  Qed.

  (* a field the writer emitted is in the re-emitted message *)
  Lemma emitted_in_msg2 : forall j f v, nth_error fdsW j = Some f -> nth_error fs j = Some v -> emits f v = true ->
    exists w, In (fid f, w) msg2.
  Proof.
    intros j f v Hj Hv Hem.
    destruct (Wfacts j f Hj) as (v' & q2 & Hv' & Hq2 & Ht & He & Hh & Hrn & Hp2 & Hfo).
    rewrite Hv in Hv'. injection Hv' as Hv'. subst v'.
    pose proof (fields_cat_intro env fdsW fs j f v Hj Hv Hem) as Hin.
    destruct (skipped sdR (fid f, denote env (fty f) v)) eqn:Es.
    - exists (denote env (fty f) v). apply in_or_app. right. apply filter_In. split; [exact Hin|exact Es].
    - apply skipped_false in Es. destruct Es as (i & fR & Hg & _).
      destruct (known_R j f v i fR Hj Hv Hem Hg) as [E Hi]. subst fR.
      destruct (RWfacts i f Hi) as (j' & v' & q1 & q2' & c & Hj' & Hv' & Hq1 & Hq2' & Hc & Ec & _ & _ & _ & _ & _
                                      & _ & _ & Hemvc & _).
      assert (Ej : j' = j).
      { pose proof (getW j f Hj) as G1. pose proof (getW j' f Hj') as G2. rewrite G1 in G2. injection G2 as G2. symmetry. exact G2. }
      subst j'. rewrite Hv in Hv'. injection Hv' as Hv'. subst v'.
      exists (denote env (fty f) c). apply in_or_app. left.
      exact (fields_cat_intro env fdsR curR i f c Hi Hc (Hemvc Hem)).
  Qed.

  Lemma msg2_nodup : NoDup (map fst msg2).
  Proof.
    unfold msg2. rewrite map_app. apply nodup_app.
    - exact (fields_cat_ids_nodup env fdsR curR sortedR_ids).
    - apply nodup_map_filter. exact (fields_cat_ids_nodup env fdsW fs sortedW_ids).
    - intros id H1 H2.
      apply in_map_iff in H1. destruct H1 as ([id1 w1] & E1 & H1). cbn [fst] in E1. subst id1.
      apply in_map_iff in H2. destruct H2 as ([id2 w2] & E2 & H2). cbn [fst] in E2. subst id2.
      destruct (curR_entry id w1 H1) as (i & f & c & Hi & Hc & Hemc & Eid & Ew).
      apply filter_In in H2. destruct H2 as [H2 Hs].
      destruct (fsW_entry id w2 H2) as (j & f' & v & Hj & Hv & Hem & Eid' & Ew'). subst id w2.
      assert (E : f' = f).
      { apply (sorted_fid_inj fdsW f' f sortedW_ids); [exact (nth_error_In _ _ Hj)|apply Hsub; exact (nth_error_In _ _ Hi)|].
        symmetry. exact Eid'. }
      subst f'.
      destruct (Wfacts j f Hj) as (v' & q2 & Hv' & Hq2 & Ht & He & Hh & Hrn & Hp2 & Hfo).
      rewrite Hv in Hv'. injection Hv' as Hv'. subst v'.
      rewrite (declared_not_skipped i f v Hi Ht Hfo Hem) in Hs. discriminate Hs.
  Qed.

  (* ---- the final reader's field loop ---- *)
  Lemma writer_run : exists seen',
    ab_fields (absorb env) sdW msg2 psW [] [] = AOk (expW, seen', [])
    /\ forall id, In id (required_ids sdW) -> In id seen'.
  Proof.
    assert (Hlen : length expW = length fdsW).
    { unfold expW. apply norm_fields_length; [exact lenW_values|exact lenW_cells]. }
    destruct (ab_fields_cells (absorb env) sdW msg2 psW expW [] [] msg2_nodup lenW_cells Hlen) as (seen' & unk' & Hab).
    - intros id w Hin _. destruct (msg2_entry id w Hin) as (j & f & Hg & _ & Ha). exists j, f. split; assumption.
    - intros j Hun.
      destruct (nth_error fdsW j) as [f|] eqn:Hj.
      + destruct (Wfacts j f Hj) as (v & q2 & Hv & Hq2 & _).
        unfold expW. rewrite Hq2, (nth_error_norm_fields env fdsW fs psW j f v q2 Hj Hv Hq2).
        destruct (emits f v) eqn:Hem; [|reflexivity]. exfalso.
        destruct (emitted_in_msg2 j f v Hj Hv Hem) as [w Hin].
        exact (Hun (fid f) w f Hin (msg2_known _ _ Hin) (getW j f Hj)).
      + apply nth_error_None in Hj.
        assert (E1 : nth_error psW j = None) by (apply nth_error_None; rewrite lenW_cells; exact Hj).
        assert (E2 : nth_error expW j = None) by (apply nth_error_None; rewrite Hlen; exact Hj).
        rewrite E1, E2. reflexivity.
    - destruct (ab_fields_char _ _ _ _ _ _ _ _ _ Hab) as [Hu Hs].
      assert (Ef : filter (skipped sdW) msg2 = []).
      { clear Hu Hs Hab. pose proof msg2_known as K. induction msg2 as [|[id w] r IH]; [reflexivity|].
        cbn [filter]. rewrite (K id w (or_introl eq_refl)). apply IH. intros id' w' Hin. apply K. right. exact Hin. }
      rewrite Ef in Hu. cbn [app put_fields cat_map] in Hu. subst unk'.
      exists seen'. split; [exact Hab|].
      intros id Hid. apply Hs. right.
      unfold required_ids in Hid. apply in_map_iff in Hid. destruct Hid as (f & Hfid & Hf).
      apply filter_In in Hf. destruct Hf as [Hf Hreq].
      assert (Hq : freq f = RRequired) by (destruct (freq f); try discriminate Hreq; reflexivity).
      destruct (In_nth_error _ _ Hf) as [j Hj].
      destruct (Wfacts j f Hj) as (v & q2 & Hv & _).
      destruct (emitted_in_msg2 j f v Hj Hv (required_emits f v Hq)) as [w Hin].
      exists w. rewrite <- Hfid. split; [exact Hin|exact (msg2_known _ _ Hin)].
  Qed.

  (* ---- the statement, inside the section ---- *)
  Lemma hop_inner : forall r,
    absorb_top env sidR (WStruct fsW []) (VT psR []) = AOk r ->
    exists h, r = VT curR h
      /\ absorb_top env sidW (WStruct msg2 []) (VT psW []) = AOk (norm_top env sidW (VT fs []))
      /\ fields_all (fun f v' => has_type env (fty f) v') fdsR curR = true
      /\ forallb Spec.holders_empty curR = true.
  Proof.
    intros r Hr.
    destruct reader_run as (seenR & unkR & HabR).
    rewrite absorb_top_eq, HlR, HabR in Hr. cbn [afinish] in Hr.
    destruct (find (fun i => negb (memN i seenR)) (required_ids sdR)); [discriminate Hr|].
    injection Hr as Hr. eexists. split; [symmetry; exact Hr|].
    split.
    - destruct writer_run as (seenW & HabW & Hreq).
      rewrite absorb_top_eq, HlW, HabW. cbn [afinish].
      rewrite find_all_false.
      + unfold norm_top. rewrite norm_VT, HlW, HfW.
        assert (E : apply_init sdW (VT psW []) = VT psW []).
        { rewrite <- HfW. unfold fresh. rewrite HlW. apply apply_init_idem. }
        rewrite E. destruct (sholder sdW); reflexivity.
      + intros id Hid. apply negb_false_iff. apply memN_self. exact (Hreq id Hid).
    - assert (G : forall fds n ps, (n + length fds = length fdsR)%nat -> length ps = length fds ->
                  (forall i f, nth_error fds i = Some f -> nth_error fdsR (n + i) = Some f) ->
                  (forall i p, nth_error ps i = Some p -> nth_error psR (n + i) = Some p) ->
                  fields_all (fun f v' => has_type env (fty f) v') fds (zipw (hop_cell env fdsW fs) fds ps) = true
                  /\ forallb Spec.holders_empty (zipw (hop_cell env fdsW fs) fds ps) = true).
      { induction fds as [|f fr IH]; intros n ps Hn Hl Hf Hp.
        - destruct ps; [split; reflexivity|discriminate Hl].
        - destruct ps as [|p pr]; [discriminate Hl|]. cbn [zipw fields_all forallb].
          pose proof (Hf O f eq_refl) as Hi. pose proof (Hp O p eq_refl) as Hq. rewrite Nat.add_0_r in Hi, Hq.
          destruct (RWfacts n f Hi) as (j & v & q1 & q2 & c & Hj & Hv & Hq1 & Hq2 & Hc & Ec & _ & _ & _ & _ & _
                                          & Htc & Hhc & _).
          rewrite Hq in Hq1. injection Hq1 as Hq1. subst q1.
          assert (Ecell : hop_cell env fdsW fs f p = c).
          { pose proof (nth_error_zipw (hop_cell env fdsW fs) fdsR psR n f p Hi Hq) as Hz.
            fold curR in Hz. rewrite Hc in Hz. injection Hz as Hz. symmetry. exact Hz. }
          rewrite Ecell, Htc, Hhc. cbn [andb].
          apply (IH (S n) pr).
          + cbn [length] in Hn. clear -Hn. lia.
          + cbn [length] in Hl. clear -Hl. lia.
          + intros i g Hg. replace (S n + i)%nat with (n + S i)%nat by (clear; lia). exact (Hf (S i) g Hg).
          + intros i g Hg. replace (S n + i)%nat with (n + S i)%nat by (clear; lia). exact (Hp (S i) g Hg). }
      apply (G fdsR O psR); [reflexivity|exact lenR_cells| |]; intros i x Hx; exact Hx.
  Qed.

  (* ---- depth budgets of the two messages ---- *)
  Lemma vdepth_field : forall (l : list val) j v h, nth_error l j = Some v -> (S (vdepth v) <= vdepth (VT l h))%nat.
  Proof.
    intros l j v h Hv. cbn [vdepth]. apply le_n_S. exact (vdepth_fold_le l v (nth_error_In _ _ Hv)).
  Qed.

  Lemma need_R : (need env (TStruct sidR) (WStruct fsW []) <= 2 * vdepth (VT fs []) + 2)%nat.
  Proof.
    rewrite (top_need_eq HP env sidR sdR fsW [] HlR).
    assert (H : (need_max (fneed env sdR) fsW <= 2 * vdepth (VT fs []))%nat); [|clear -H; lia].
    apply need_max_bound. intros [id w] Hin.
    destruct (fsW_entry id w Hin) as (j & f & v & Hj & Hv & Hem & Eid & Ew). subst id w.
    unfold fneed. cbn [fst snd].
    destruct (get_field sdR (fid f)) as [[i fR]|] eqn:Hg; [|apply Nat.le_0_l].
    destruct (known_R j f v i fR Hj Hv Hem Hg) as [E Hi]. subst fR.
    destruct (wt (fty f) =? code_of (denote env (fty f) v)); [|apply Nat.le_0_l].
    destruct (Wfacts j f Hj) as (v' & q2 & Hv' & Hq2 & Ht & He & Hh & Hrn & Hp2 & Hfo).
    rewrite Hv in Hv'. injection Hv' as Hv'. subst v'.
    pose proof (need_denote env (dec_enc HP) HE v (fty f) Ht (emitted_slot_ok env f v Hfo (emits_not_skipped f v Hem))) as H1.
    pose proof (vdepth_field fs j v [] Hv) as H2. clear -H1 H2. lia.
  Qed.

  Lemma skipped_R : (skipped_depth env (TStruct sidR) (WStruct fsW []) <= S (vdepth (VT fs [])))%nat.
  Proof.
    rewrite (top_skipped env sidR sdR fsW [] HlR).
    apply need_max_bound. intros [id w] Hin.
    destruct (fsW_entry id w Hin) as (j & f & v & Hj & Hv & Hem & Eid & Ew). subst id w.
    pose proof (wdepth_denote env v (fty f)) as Hw. pose proof (vdepth_field fs j v [] Hv) as H2.
    unfold fskip. cbn [fst snd].
    destruct (get_field sdR (fid f)) as [[i fR]|] eqn:Hg; [|clear -Hw H2; lia].
    destruct (known_R j f v i fR Hj Hv Hem Hg) as [E Hi]. subst fR.
    destruct (wt (fty f) =? code_of (denote env (fty f) v)); [|clear -Hw H2; lia].
    destruct (Wfacts j f Hj) as (v' & q2 & Hv' & Hq2 & Ht & He & Hh & Hrn & Hp2 & Hfo).
    rewrite Hv in Hv'. injection Hv' as Hv'. subst v'.
    rewrite (skipped_denote env (dec_enc HP) HE v (fty f) Ht (emitted_slot_ok env f v Hfo (emits_not_skipped f v Hem))).
    apply Nat.le_0_l.
  Qed.

  Lemma need_W2 : forall h,
    (need env (TStruct sidW) (WStruct msg2 []) <= Nat.max (2 * vdepth (VT fs []) + 2) (2 * vdepth (VT curR h) + 2))%nat.
  Proof.
    intros h. rewrite (top_need_eq HP env sidW sdW msg2 [] HlW).
    assert (H : (need_max (fneed env sdW) msg2 <= Nat.max (2 * vdepth (VT fs [])) (2 * vdepth (VT curR h)))%nat); [|clear -H; lia].
    apply need_max_bound. intros [id w] Hin. unfold fneed. cbn [fst snd].
    apply in_app_or in Hin. destruct Hin as [Hin|Hin].
    - destruct (curR_entry id w Hin) as (i & f & c & Hi & Hc & Hemc & Eid & Ew). subst id w.
      destruct (RWfacts i f Hi) as (j & v & q1 & q2 & c' & Hj & Hv & Hq1 & Hq2 & Hc' & Ec & Ht & Hfo & Hr & Hp1 & Hp2
                                      & Htc & Hhc & Hemvc & Hcc).
      rewrite Hc in Hc'. injection Hc' as Hc'. subst c'.
      rewrite (getW j f Hj). destruct (wt (fty f) =? code_of (denote env (fty f) c)); [|apply Nat.le_0_l].
      pose proof (need_denote env (dec_enc HP) HE c (fty f) Htc (emitted_slot_ok env f c Hfo (emits_not_skipped f c Hemc))) as H1.
      pose proof (vdepth_field curR i c h Hc) as H2. clear -H1 H2. lia.
    - apply filter_In in Hin. destruct Hin as [Hin _].
      destruct (fsW_entry id w Hin) as (j & f & v & Hj & Hv & Hem & Eid & Ew). subst id w.
      destruct (Wfacts j f Hj) as (v' & q2 & Hv' & Hq2 & Ht & He & Hh & Hrn & Hp2 & Hfo).
      rewrite Hv in Hv'. injection Hv' as Hv'. subst v'.
      rewrite (getW j f Hj). destruct (wt (fty f) =? code_of (denote env (fty f) v)); [|apply Nat.le_0_l].
      pose proof (need_denote env (dec_enc HP) HE v (fty f) Ht (emitted_slot_ok env f v Hfo (emits_not_skipped f v Hem))) as H1.
      pose proof (vdepth_field fs j v [] Hv) as H2. clear -H1 H2. lia.
  Qed.

  Lemma skipped_W2 : skipped_depth env (TStruct sidW) (WStruct msg2 []) = O.
  Proof.
    rewrite (top_skipped env sidW sdW msg2 [] HlW). apply Nat.le_0_r.
    apply need_max_bound. intros [id w] Hin. unfold fskip. cbn [fst snd].
    apply in_app_or in Hin. destruct Hin as [Hin|Hin].
    - destruct (curR_entry id w Hin) as (i & f & c & Hi & Hc & Hemc & Eid & Ew). subst id w.
      destruct (RWfacts i f Hi) as (j & v & q1 & q2 & c' & Hj & Hv & Hq1 & Hq2 & Hc' & Ec & Ht & Hfo & Hr & Hp1 & Hp2
                                      & Htc & Hhc & Hemvc & Hcc).
      rewrite Hc in Hc'. injection Hc' as Hc'. subst c'.
      pose proof (emitted_slot_ok env f c Hfo (emits_not_skipped f c Hemc)) as Hs.
      rewrite (getW j f Hj), (code_of_denote env (dec_enc HP) c (fty f) Htc Hs), N.eqb_refl.
      rewrite (skipped_denote env (dec_enc HP) HE c (fty f) Htc Hs). apply Nat.le_0_l.
    - apply filter_In in Hin. destruct Hin as [Hin _].
      destruct (fsW_entry id w Hin) as (j & f & v & Hj & Hv & Hem & Eid & Ew). subst id w.
      destruct (Wfacts j f Hj) as (v' & q2 & Hv' & Hq2 & Ht & He & Hh & Hrn & Hp2 & Hfo).
      rewrite Hv in Hv'. injection Hv' as Hv'. subst v'.
      pose proof (emitted_slot_ok env f v Hfo (emits_not_skipped f v Hem)) as Hs.
      rewrite (getW j f Hj), (code_of_denote env (dec_enc HP) v (fty f) Ht Hs), N.eqb_refl.
      rewrite (skipped_denote env (dec_enc HP) HE v (fty f) Ht Hs). apply Nat.le_0_l.
  Qed.
End TwoHop.

(* ---- the statement ---- *)

(* the older schema: every field of sdR is a field of sdW (same id, type,
   requiredness, options and default; the position may differ) *)
Definition sub_schema (sdR sdW : sdesc) : Prop := incl (sfields sdR) (sfields sdW).

(* zero values of by-value struct slots (pointees, elements) *)
Definition zero_compat (env : senv) : Prop :=
  forall sid sd, lookup_sd env sid = Some sd ->
    pcompat env (TStruct sid) (zero_of env (TStruct sid)) (zero_of env (TStruct sid)).

(* the two top-level destinations, on the fields the schemas share *)
Definition fresh_compat (env : senv) (sdR sdW : sdesc) (pR pW : val) : Prop :=
  match pR, pW with
  | VT psR _, VT psW _ =>
      forall i j f qR qW,
        nth_error (sfields sdR) i = Some f -> nth_error (sfields sdW) j = Some f ->
        nth_error psR i = Some qR -> nth_error psW j = Some qW -> fcell env f qR qW
  | _, _ => False
  end.

(* the wire struct the intermediary's output is the encoding of: the fields it
   knows, re-encoded from its value r, followed by the fields of the incoming
   struct w it skipped *)
Definition hop_message (env : senv) (sdR : sdesc) (w : tv) (r : val) : tv :=
  match w, r with
  | WStruct fsw _, VT cur _ => WStruct (emitted env sdR cur ++ filter (skipped sdR) fsw) []
  | _, _ => junk
  end.

Lemma typed_struct_inv : forall env sid v, has_type env (TStruct sid) v = true -> Spec.holders_empty v = true ->
  exists fs, v = VT fs [] /\ forallb Spec.holders_empty fs = true.
Proof.
  intros env sid v Hty Hh. destruct v as [y|n s|[l|]|[m|]|[v'|]|fs h]; try discriminate Hty.
  rewrite hempty_VT in Hh. destruct h; [|discriminate Hh]. exists fs. split; [reflexivity|exact Hh].
Qed.

Lemma bytes_ok_skipped : forall sd fsw, wf (WStruct fsw []) = true ->
  bytes_ok (put_fields (filter (skipped sd) fsw)) = true.
Proof.
  intros sd fsw Hwf.
  assert (W : wf (WStruct (filter (skipped sd) fsw) []) = true).
  { rewrite wf_WStruct in Hwf |- *. rewrite andb_true_r in Hwf |- *.
    rewrite forallb_forall in Hwf. apply forallb_forall. intros x Hx. apply filter_In in Hx. exact (Hwf x (proj1 Hx)). }
  pose proof (put_bytes_ok _ W) as Hb. rewrite put_struct_eq in Hb.
  rewrite bytes_ok_app in Hb. apply andb_true_iff in Hb. exact (proj1 Hb).
Qed.

Lemma forallb_holders_same : forall l, forallb EncodeSpec.holders_empty l = forallb Spec.holders_empty l.
Proof. induction l as [|x l IH]; [reflexivity|]. cbn [forallb]. rewrite holders_empty_same, IH. reflexivity. Qed.

(* the intermediary's value, and what the final reader makes of its output *)
Theorem two_hop_full : forall env ok sidW sidR sdW sdR v r,
  dec_params_ok = true -> env_ok env = true -> init_ok env = true ->
  (forall sid, ok sid = true -> fresh_stable env sid) -> zero_compat env ->
  lookup_sd env sidW = Some sdW -> lookup_sd env sidR = Some sdR -> sholder sdR = true ->
  sub_schema sdR sdW -> fresh_compat env sdR sdW (fresh env sidR) (fresh env sidW) ->
  has_type env (TStruct sidW) v = true -> enums32 env (TStruct sidW) v = true -> Spec.holders_empty v = true ->
  req_complete env (TStruct sidW) v = true -> nil_ptrs_ok ok env (TStruct sidW) v = true ->
  absorb_top env sidR (denote env (TStruct sidW) v) (fresh env sidR) = AOk r ->
  exists fsw cur,
    denote env (TStruct sidW) v = WStruct fsw []
    /\ r = VT cur (put_fields (filter (skipped sdR) fsw))
    /\ has_type env (TStruct sidR) r = true /\ forallb Spec.holders_empty cur = true
    /\ put (denote env (TStruct sidR) r) = put (hop_message env sdR (denote env (TStruct sidW) v) r)
    /\ absorb_top env sidW (hop_message env sdR (denote env (TStruct sidW) v) r) (fresh env sidW)
       = AOk (norm_top env sidW v)
    /\ hop_message env sdR (denote env (TStruct sidW) v) r
       = WStruct (emitted env sdR cur ++ filter (skipped sdR) fsw) []
    /\ wf (hop_message env sdR (denote env (TStruct sidW) v) r) = true
    /\ (need env (TStruct sidW) (hop_message env sdR (denote env (TStruct sidW) v) r)
        <= Nat.max (2 * vdepth v + 2) (2 * vdepth r + 2))%nat
    /\ skipped_depth env (TStruct sidW) (hop_message env sdR (denote env (TStruct sidW) v) r) = O.
Proof.
  intros env ok sidW sidR sdW sdR v r HP HE HI HOK HZ HlW HlR HhR Hsub Hfc Hty Hen Hh Hrq Hnp Hr.
  destruct (typed_struct_inv env sidW v Hty Hh) as (fs & Ev & Hhe). subst v.
  destruct (fresh_VT env sidR) as [psR HfR]. destruct (fresh_VT env sidW) as [psW HfW].
  rewrite HfR, HfW in Hfc. cbn [fresh_compat] in Hfc.
  assert (Ed : denote env (TStruct sidW) (VT fs []) = WStruct (emitted env sdW fs) []).
  { rewrite denote_VT, HlW. destruct (sholder sdW); reflexivity. }
  rewrite Ed, HfR in Hr.
  destruct (hop_inner env HP HE HI ok HOK HZ sidW sidR sdW sdR HlW HlR Hsub psR psW HfR HfW Hfc fs
              Hty Hen Hhe Hrq Hnp r Hr) as (h & Er & Hab & Htc & Hhc).
  subst r.
  pose proof (holder_exact env sidR sdR _ [] psR [] _ h HlR Hr) as Eh. rewrite HhR in Eh.
  assert (Eh' : h = put_fields (filter (skipped sdR) (emitted env sdW fs)))
    by (rewrite Eh; destruct (put_fields (filter (skipped sdR) (emitted env sdW fs))); reflexivity).
  clear Eh. subst h.
  assert (Hwf : wf (WStruct (emitted env sdW fs) []) = true).
  { rewrite <- Ed. apply denote_wf_struct; try assumption; try exact (dec_enc HP). rewrite holders_empty_same. exact Hh. }
  assert (Htr : has_type env (TStruct sidR)
                  (VT (zipw (hop_cell env (sfields sdW) fs) (sfields sdR) psR)
                      (put_fields (filter (skipped sdR) (emitted env sdW fs)))) = true).
  { rewrite has_type_VT, HlR, Htc, HhR, (bytes_ok_skipped sdR _ Hwf). reflexivity. }
  exists (emitted env sdW fs), (zipw (hop_cell env (sfields sdW) fs) (sfields sdR) psR).
  split; [exact Ed|]. split; [reflexivity|]. split; [exact Htr|]. split; [exact Hhc|].
  rewrite Ed. cbn [hop_message].
  split; [exact (unknown_conserved env sidR sdR _ _ HlR HhR)|].
  split; [rewrite HfW; exact Hab|].
  split; [reflexivity|].
  split; [|split].
  - apply (one_hop_wf env sidR sdR _ _ _ (dec_enc HP) HE HlR Hwf Htr).
    rewrite forallb_holders_same. exact Hhc.
  - exact (need_W2 env HP HE HI ok HOK HZ sidW sidR sdW sdR HlW HlR Hsub psR psW HfR HfW Hfc fs
                         Hty Hen Hhe Hrq Hnp _).
  - exact (skipped_W2 env HP HE HI ok HOK HZ sidW sidR sdW sdR HlW HlR Hsub psR psW HfR HfW Hfc fs
             Hty Hen Hhe Hrq Hnp).
Qed.

(* the depth budget of the first hop, and its message *)
Lemma first_hop_budget : forall env ok sidW sidR sdW sdR v,
  dec_params_ok = true -> env_ok env = true -> init_ok env = true ->
  lookup_sd env sidW = Some sdW -> lookup_sd env sidR = Some sdR -> sub_schema sdR sdW ->
  has_type env (TStruct sidW) v = true -> enums32 env (TStruct sidW) v = true -> Spec.holders_empty v = true ->
  req_complete env (TStruct sidW) v = true -> nil_ptrs_ok ok env (TStruct sidW) v = true ->
  exists fsw, denote env (TStruct sidW) v = WStruct fsw [] /\ wf (WStruct fsw []) = true
    /\ (need env (TStruct sidR) (WStruct fsw []) <= 2 * vdepth v + 2)%nat
    /\ (skipped_depth env (TStruct sidR) (WStruct fsw []) <= S (vdepth v))%nat.
Proof.
  intros env ok sidW sidR sdW sdR v HP HE HI HlW HlR Hsub Hty Hen Hh Hrq Hnp.
  destruct (typed_struct_inv env sidW v Hty Hh) as (fs & Ev & Hhe). subst v.
  destruct (fresh_VT env sidW) as [psW HfW].
  assert (Ed : denote env (TStruct sidW) (VT fs []) = WStruct (emitted env sdW fs) []).
  { rewrite denote_VT, HlW. destruct (sholder sdW); reflexivity. }
  exists (emitted env sdW fs). split; [exact Ed|]. split; [|split].
  - rewrite <- Ed. apply denote_wf_struct; try assumption; try exact (dec_enc HP). rewrite holders_empty_same. exact Hh.
  - exact (need_R env HP HE HI ok sidW sidR sdW sdR HlW HlR Hsub psW HfW fs Hty Hen Hhe Hrq Hnp).
  - exact (skipped_R env HP HE HI ok sidW sidR sdW sdR HlW HlR Hsub psW HfW fs Hty Hen Hhe Hrq Hnp).
Qed.

(* the final reader sees, after the hop through the older intermediary, exactly
   what it would have seen directly *)
Theorem two_hop : forall env ok sidW sidR sdW sdR v r,
  dec_params_ok = true -> env_ok env = true -> init_ok env = true ->
  (forall sid, ok sid = true -> fresh_stable env sid) -> zero_compat env ->
  lookup_sd env sidW = Some sdW -> lookup_sd env sidR = Some sdR -> sholder sdR = true ->
  sub_schema sdR sdW -> fresh_compat env sdR sdW (fresh env sidR) (fresh env sidW) ->
  has_type env (TStruct sidW) v = true -> enums32 env (TStruct sidW) v = true -> Spec.holders_empty v = true ->
  req_complete env (TStruct sidW) v = true -> nil_ptrs_ok ok env (TStruct sidW) v = true ->
  absorb_top env sidR (denote env (TStruct sidW) v) (fresh env sidR) = AOk r ->
  put (denote env (TStruct sidR) r) = put (hop_message env sdR (denote env (TStruct sidW) v) r)
  /\ absorb_top env sidW (hop_message env sdR (denote env (TStruct sidW) v) r) (fresh env sidW)
     = absorb_top env sidW (denote env (TStruct sidW) v) (fresh env sidW).
Proof.
  intros env ok sidW sidR sdW sdR v r HP HE HI HOK HZ HlW HlR HhR Hsub Hfc Hty Hen Hh Hrq Hnp Hr.
  destruct (two_hop_full env ok sidW sidR sdW sdR v r HP HE HI HOK HZ HlW HlR HhR Hsub Hfc Hty Hen Hh Hrq Hnp Hr)
    as (fsw & cur & _ & _ & _ & _ & Hput & Hab & _).
  split; [exact Hput|]. rewrite Hab. symmetry. exact (absorb_top_denote env sidW v (dec_enc HP) HE HI Hty Hrq).
Qed.

(* ================================================================== *)
(* 4. Two hops, byte level                                              *)
(* ================================================================== *)

(* a well-formed struct is determined by its encoding *)
Lemma put_struct_inj : forall a b, wf (WStruct a []) = true -> wf (WStruct b []) = true ->
  put (WStruct a []) = put (WStruct b []) -> a = b.
Proof.
  intros a b Ha Hb E.
  set (d := S (Nat.max (wdepth (WStruct a [])) (wdepth (WStruct b [])))).
  assert (Da : (wdepth (WStruct a []) < d)%nat) by (unfold d; lia).
  assert (Db : (wdepth (WStruct b []) < d)%nat) by (unfold d; lia).
  pose proof (get_put (WStruct a []) d [] Ha Da) as Ga.
  pose proof (get_put (WStruct b []) d [] Hb Db) as Gb.
  rewrite E in Ga. change (code_of (WStruct a [])) with (code_of (WStruct b [])) in Ga.
  rewrite Gb in Ga. injection Ga as Ga. symmetry. exact Ga.
Qed.

(* The first decode is a hypothesis (the intermediary accepted the message), so
   no budget is asked for it; the second needs the decoder's budget for the
   writer's value and for the intermediary's. *)
Theorem two_hop_impl : forall env ok pool pool' sidW sidR sdW sdR v r n,
  dec_params_ok = true -> tables_ok = true -> env_ok env = true -> init_ok env = true ->
  (forall sid, ok sid = true -> fresh_stable env sid) -> zero_compat env ->
  lookup_sd env sidW = Some sdW -> lookup_sd env sidR = Some sdR -> sholder sdR = true ->
  sub_schema sdR sdW -> fresh_compat env sdR sdW (fresh env sidR) (fresh env sidW) ->
  has_type env (TStruct sidW) v = true -> enums32 env (TStruct sidW) v = true -> Spec.holders_empty v = true ->
  req_complete env (TStruct sidW) v = true -> nil_ptrs_ok ok env (TStruct sidW) v = true ->
  (2 * vdepth v + 2 <= S (N.to_nat maxDepthLimit))%nat -> (2 * vdepth r + 2 <= S (N.to_nat maxDepthLimit))%nat ->
  decode_object env pool sidR (append_struct env sidW v) (fresh env sidR) = DOk (r, n) [] ->
  decode_object env pool' sidW (append_struct env sidR r) (fresh env sidW)
  = DOk (norm_top env sidW v, len (append_struct env sidR r)) []
  /\ encoded_size env sidR r = len (append_struct env sidR r).
Proof.
  intros env ok pool pool' sidW sidR sdW sdR v r n HP HT HE HI HOK HZ HlW HlR HhR Hsub Hfc Hty Hen Hh Hrq Hnp Hdv Hdr Hdec.
  destruct (first_hop_budget env ok sidW sidR sdW sdR v HP HE HI HlW HlR Hsub Hty Hen Hh Hrq Hnp)
    as (fsw & Ed & Hwf & _ & _).
  rewrite (encode_refines env sidW v (dec_enc HP) HT HE Hty), Ed in Hdec.
  destruct (decode_sound env pool sidR _ _ r n [] HP HE (put_bytes_ok _ Hwf) Hdec) as (fs' & Hwf' & Ebs & _ & Ha').
  rewrite app_nil_r in Ebs. rewrite <- (put_struct_inj fsw fs' Hwf Hwf' Ebs) in Ha'.
  assert (Ha : absorb_top env sidR (denote env (TStruct sidW) v) (fresh env sidR) = AOk r) by (rewrite Ed; exact Ha').
  destruct (two_hop_full env ok sidW sidR sdW sdR v r HP HE HI HOK HZ HlW HlR HhR Hsub Hfc Hty Hen Hh Hrq Hnp Ha)
    as (fsw' & cur & _ & _ & Htr & _ & Hput & Hab & Em & Hwf2 & Hn2 & Hs2).
  split; [|exact (size_exact env sidR r (dec_enc HP) HT HE Htr)].
  rewrite (encode_refines env sidR r (dec_enc HP) HT HE Htr), Hput.
  rewrite Em in *.
  rewrite <- (app_nil_r (put (WStruct _ []))) at 1.
  rewrite (decode_exact env pool' sidW _ [] (fresh env sidW) HP HE Hwf2);
    [|clear -Hn2 Hdv Hdr; lia|rewrite Hs2; clear; lia].
  rewrite Hab. reflexivity.
Qed.

(* EncodedSize of the intermediary's value is the length of what it writes *)
Theorem two_hop_size : forall env ok sidW sidR sdW sdR v r,
  dec_params_ok = true -> tables_ok = true -> env_ok env = true -> init_ok env = true ->
  (forall sid, ok sid = true -> fresh_stable env sid) -> zero_compat env ->
  lookup_sd env sidW = Some sdW -> lookup_sd env sidR = Some sdR -> sholder sdR = true ->
  sub_schema sdR sdW -> fresh_compat env sdR sdW (fresh env sidR) (fresh env sidW) ->
  has_type env (TStruct sidW) v = true -> enums32 env (TStruct sidW) v = true -> Spec.holders_empty v = true ->
  req_complete env (TStruct sidW) v = true -> nil_ptrs_ok ok env (TStruct sidW) v = true ->
  absorb_top env sidR (denote env (TStruct sidW) v) (fresh env sidR) = AOk r ->
  encoded_size env sidR r = len (append_struct env sidR r).
Proof.
  intros env ok sidW sidR sdW sdR v r HP HT HE HI HOK HZ HlW HlR HhR Hsub Hfc Hty Hen Hh Hrq Hnp Ha.
  destruct (two_hop_full env ok sidW sidR sdW sdR v r HP HE HI HOK HZ HlW HlR HhR Hsub Hfc Hty Hen Hh Hrq Hnp Ha)
    as (fsw' & cur & _ & _ & Htr & _).
  exact (size_exact env sidR r (dec_enc HP) HT HE Htr).
Qed.

(* the intermediary re-emits, for the fields it knows, exactly the wire values it received *)
Definition reemits_same (env : senv) (sdR : sdesc) (w : tv) (r : val) : Prop :=
  match w, r with
  | WStruct fsw _, VT cur _ => emitted env sdR cur = filter (fun fw => negb (skipped sdR fw)) fsw
  | _, _ => False
  end.

Lemma len_put_fields_split : forall (p : N * tv -> bool) l,
  len (put_fields (filter (fun x => negb (p x)) l)) + len (put_fields (filter p l)) = len (put_fields l).
Proof.
  intros p. induction l as [|x l IH]; [reflexivity|].
  cbn [filter]. rewrite put_fields_cons, BytesWire.len_app. destruct (p x); cbn [negb];
    rewrite put_fields_cons, BytesWire.len_app; lia.
Qed.

(* ... then its output has the length of its input (in general it need not:
   it writes the fields the writer omitted whose default-initialised value it
   does not omit, and normalised values) *)
Theorem two_hop_length : forall env ok sidW sidR sdW sdR v r,
  dec_params_ok = true -> tables_ok = true -> env_ok env = true -> init_ok env = true ->
  (forall sid, ok sid = true -> fresh_stable env sid) -> zero_compat env ->
  lookup_sd env sidW = Some sdW -> lookup_sd env sidR = Some sdR -> sholder sdR = true ->
  sub_schema sdR sdW -> fresh_compat env sdR sdW (fresh env sidR) (fresh env sidW) ->
  has_type env (TStruct sidW) v = true -> enums32 env (TStruct sidW) v = true -> Spec.holders_empty v = true ->
  req_complete env (TStruct sidW) v = true -> nil_ptrs_ok ok env (TStruct sidW) v = true ->
  absorb_top env sidR (denote env (TStruct sidW) v) (fresh env sidR) = AOk r ->
  reemits_same env sdR (denote env (TStruct sidW) v) r ->
  len (append_struct env sidR r) = len (append_struct env sidW v).
Proof.
  intros env ok sidW sidR sdW sdR v r HP HT HE HI HOK HZ HlW HlR HhR Hsub Hfc Hty Hen Hh Hrq Hnp Ha Hsame.
  destruct (two_hop_full env ok sidW sidR sdW sdR v r HP HE HI HOK HZ HlW HlR HhR Hsub Hfc Hty Hen Hh Hrq Hnp Ha)
    as (fsw & cur & Ed & Er & Htr & _ & Hput & _ & Em & _).
  rewrite (encode_refines env sidR r (dec_enc HP) HT HE Htr), (encode_refines env sidW v (dec_enc HP) HT HE Hty), Hput, Em, Ed.
  rewrite Ed, Er in Hsame. cbn [reemits_same] in Hsame.
  rewrite !put_struct_eq, !BytesWire.len_app, put_fields_app, BytesWire.len_app, Hsame.
  rewrite (len_put_fields_split (skipped sdR) fsw). reflexivity.
Qed.

(* ================================================================== *)
(* 5. Decidable forms of the hypotheses                                 *)
(* ================================================================== *)

Lemma list_eqb_eq : forall (A : Type) (eqb : A -> A -> bool) (l : list A),
  Forall (fun x => forall y, eqb x y = true -> x = y) l ->
  forall l', list_eqb eqb l l' = true -> l = l'.
Proof.
  intros A eqb l HF. induction HF as [|x l Hx _ IH]; intros l' H; destruct l' as [|y l']; try discriminate H; [reflexivity|].
  cbn [list_eqb] in H. apply andb_true_iff in H. destruct H as [H1 H2].
  rewrite (Hx y H1), (IH l' H2). reflexivity.
Qed.

Lemma val_eqb_eq : forall a b, val_eqb a b = true -> a = b.
Proof.
  induction a as [x|n s| |l IH| |m IH| |v IH|fs h IH] using val_ind'; intros b H;
    destruct b as [y|n' s'|[l'|]|[m'|]|[v'|]|fs' h']; try discriminate H.
  - cbn [val_eqb] in H. apply N.eqb_eq in H. subst. reflexivity.
  - cbn [val_eqb] in H. apply andb_true_iff in H. destruct H as [H1 H2].
    apply eqb_prop in H1. unfold bytes_eqb in H2. apply list_eqb_N_eq in H2. subst. reflexivity.
  - reflexivity.
  - cbn [val_eqb] in H. rewrite (list_eqb_eq val val_eqb l IH l' H). reflexivity.
  - reflexivity.
  - cbn [val_eqb] in H. f_equal. f_equal.
    apply (list_eqb_eq (val * val) (fun kv kv' : val * val => val_eqb (fst kv) (fst kv') && val_eqb (snd kv) (snd kv')) m); [|exact H].
    apply Forall_forall. intros [k v] Hin [k' v'] E. cbn [fst snd] in E. apply andb_true_iff in E. destruct E as [E1 E2].
    rewrite Forall_forall in IH. destruct (IH (k, v) Hin) as [Hk Hv]. cbn [fst snd] in Hk, Hv.
    rewrite (Hk k' E1), (Hv v' E2). reflexivity.
  - reflexivity.
  - cbn [val_eqb] in H. rewrite (IH v' H). reflexivity.
  - cbn [val_eqb] in H. apply andb_true_iff in H. destruct H as [H1 H2].
    unfold bytes_eqb in H2. apply list_eqb_N_eq in H2. rewrite (list_eqb_eq val val_eqb fs IH fs' H1), H2. reflexivity.
Qed.

Definition fresh_stableb (env : senv) (sid : N) : bool :=
  has_type env (TStruct sid) (fresh env sid) && enums32 env (TStruct sid) (fresh env sid)
  && Spec.holders_empty (fresh env sid) && req_complete env (TStruct sid) (fresh env sid)
  && val_eqb (norm_top env sid (fresh env sid)) (fresh env sid).

Lemma fresh_stableb_ok : forall env sid, fresh_stableb env sid = true -> fresh_stable env sid.
Proof.
  intros env sid H. unfold fresh_stableb in H.
  apply andb_true_iff in H. destruct H as [H H5]. apply andb_true_iff in H. destruct H as [H H4].
  apply andb_true_iff in H. destruct H as [H H3]. apply andb_true_iff in H. destruct H as [H1 H2].
  unfold fresh_stable. repeat split; try assumption. exact (val_eqb_eq _ _ H5).
Qed.

Definition cell_okb (env : senv) (f : field) (q1 q2 : val) : bool :=
  has_type env (fty f) q1 && enums32 env (fty f) q1 && Spec.holders_empty q1
  && (negb (emits f q1) || (req_complete env (fty f) q1 && val_eqb (norm env (fty f) q1 q2) q2)).

Lemma cell_okb_ok : forall env f q1 q2, cell_okb env f q1 q2 = true -> cell_ok env f q1 q2.
Proof.
  intros env f q1 q2 H. unfold cell_okb in H.
  apply andb_true_iff in H. destruct H as [H H4]. apply andb_true_iff in H. destruct H as [H H3].
  apply andb_true_iff in H. destruct H as [H1 H2].
  unfold cell_ok. split; [exact H1|]. split; [exact H2|]. split; [exact H3|].
  intros Hem. rewrite Hem in H4. cbn [negb orb] in H4. apply andb_true_iff in H4. destruct H4 as [H5 H6].
  split; [exact H5|exact (val_eqb_eq _ _ H6)].
Qed.

Section Checker.
  Variable env : senv.
  Variable rec : ty -> val -> val -> bool.

  Fixpoint cellsb (fds : list field) (l1 l2 : list val) : bool :=
    match fds, l1, l2 with
    | [], [], [] => true
    | f :: fr, q1 :: r1, q2 :: r2 =>
        rec (fty f) q1 q2 && (negb (skippable f) || cell_okb env f q1 q2) && cellsb fr r1 r2
    | _, _, _ => false
    end.
End Checker.

Fixpoint pcompatb (n : nat) (env : senv) (t : ty) (p1 p2 : val) : bool :=
  match t with
  | TStruct sid =>
      match n with
      | O => false
      | S n' =>
          match lookup_sd env sid with
          | Some sd =>
              prior_ok env t p1
              && match apply_init sd p1, apply_init sd p2 with
                 | VT ps1 [], VT ps2 _ => cellsb env (pcompatb n' env) (sfields sd) ps1 ps2
                 | _, _ => false
                 end
          | None => false
          end
      end
  | _ => true
  end.

Lemma pcompatb_ok : forall n env t p1 p2, pcompatb n env t p1 p2 = true -> pcompat env t p1 p2.
Proof.
  induction n as [|n IH]; intros env t p1 p2 H.
  - destruct t; try (apply pc_other; reflexivity). discriminate H.
  - destruct t as [| | | | | | | | | | |sid|]; try (apply pc_other; reflexivity).
    cbn [pcompatb] in H. destruct (lookup_sd env sid) as [sd|] eqn:Hl; [|discriminate H].
    apply andb_true_iff in H. destruct H as [Hp H].
    destruct (apply_init sd p1) as [| | | | |ps1 h1] eqn:E1; try discriminate H.
    destruct h1; [|discriminate H].
    destruct (apply_init sd p2) as [| | | | |ps2 h2] eqn:E2; try discriminate H.
    apply (pc_struct env sid sd p1 p2 ps1 ps2 h2 Hl Hp E1 E2).
    clear E1 E2 Hp Hl. revert ps1 ps2 H. induction (sfields sd) as [|f fr IHf]; intros ps1 ps2 H.
    + destruct ps1; destruct ps2; try discriminate H. constructor.
    + destruct ps1 as [|q1 r1]; [discriminate H|]. destruct ps2 as [|q2 r2]; [discriminate H|].
      cbn [cellsb] in H. apply andb_true_iff in H. destruct H as [H H3].
      apply andb_true_iff in H. destruct H as [H1 H2].
      constructor; [|exact (IHf r1 r2 H3)]. split; [exact (IH env (fty f) q1 q2 H1)|].
      intros Hs. rewrite Hs in H2. cbn [negb orb] in H2. exact (cell_okb_ok env f q1 q2 H2).
Qed.

(* the zero value of every declared struct type *)
Definition zero_compatb (n : nat) (env : senv) : bool :=
  forallb (fun i => let sid := N.of_nat i in
                    pcompatb n env (TStruct sid) (zero_of env (TStruct sid)) (zero_of env (TStruct sid)))
          (seq 0 (length env)).

Lemma zero_compatb_ok : forall n env, zero_compatb n env = true -> zero_compat env.
Proof.
  intros n env H sid sd Hl. unfold zero_compatb in H. rewrite forallb_forall in H.
  pose proof (lookup_sd_lt env sid sd Hl) as Hlt. apply N.ltb_lt in Hlt. unfold len in Hlt.
  assert (Hin : In (N.to_nat sid) (seq 0 (length env))) by (apply in_seq; lia).
  pose proof (H _ Hin) as Hc. cbv zeta in Hc. rewrite N2Nat.id in Hc. exact (pcompatb_ok n env _ _ _ Hc).
Qed.

(* the two top-level destinations on the shared fields *)
Definition fresh_compatb (n : nat) (env : senv) (sdR sdW : sdesc) (pR pW : val) : bool :=
  match pR, pW with
  | VT psR _, VT psW _ =>
      forallb (fun fq : field * val =>
                 match find_field (sfields sdW) (fid (fst fq)) O with
                 | Some (j, _) =>
                     match nth_error psW j with
                     | Some qW => pcompatb n env (fty (fst fq)) (snd fq) qW
                                  && (negb (skippable (fst fq)) || cell_okb env (fst fq) (snd fq) qW)
                     | None => true
                     end
                 | None => true
                 end) (combine (sfields sdR) psR)
  | _, _ => false
  end.

Lemma nth_error_combine : forall (A B : Type) (l : list A) (l' : list B) i a b,
  nth_error l i = Some a -> nth_error l' i = Some b -> In (a, b) (combine l l').
Proof.
  induction l as [|x l IH]; intros l' i a b Ha Hb; [destruct i; discriminate Ha|].
  destruct l' as [|y l']; [destruct i; discriminate Hb|].
  destruct i as [|i]; cbn [nth_error combine] in *.
  - injection Ha as Ha. injection Hb as Hb. subst. left. reflexivity.
  - right. exact (IH l' i a b Ha Hb).
Qed.

Lemma fresh_compatb_ok : forall n env sdR sdW pR pW, sorted_ids (sfields sdW) = true ->
  fresh_compatb n env sdR sdW pR pW = true -> fresh_compat env sdR sdW pR pW.
Proof.
  intros n env sdR sdW pR pW Hs H. unfold fresh_compatb in H. unfold fresh_compat.
  destruct pR as [| | | | |psR hR]; try discriminate H. destruct pW as [| | | | |psW hW]; try discriminate H.
  rewrite forallb_forall in H. intros i j f qR qW Hi Hj HqR HqW.
  pose proof (H (f, qR) (nth_error_combine _ _ _ _ i f qR Hi HqR)) as Hc. cbn [fst snd] in Hc.
  rewrite (find_field_sorted (sfields sdW) j f O Hs Hj) in Hc. cbn [Nat.add] in Hc. rewrite HqW in Hc.
  apply andb_true_iff in Hc. destruct Hc as [H1 H2]. split; [exact (pcompatb_ok n env _ _ _ H1)|].
  intros Hsk. rewrite Hsk in H2. cbn [negb orb] in H2. exact (cell_okb_ok env f qR qW H2).
Qed.

(* ---- the sub-schema relation, decidably ---- *)
Fixpoint ty_eqb (a b : ty) : bool :=
  match a, b with
  | TBool, TBool | TI8, TI8 | TI16, TI16 | TI32, TI32 | TI64, TI64 | TDouble, TDouble
  | TEnum, TEnum | TString, TString | TBinary, TBinary => true
  | TList s e, TList s' e' => Bool.eqb s s' && ty_eqb e e'
  | TMap k v, TMap k' v' => ty_eqb k k' && ty_eqb v v'
  | TStruct s, TStruct s' => s =? s'
  | TPtr t, TPtr t' => ty_eqb t t'
  | _, _ => false
  end.

Lemma ty_eqb_eq : forall a b, ty_eqb a b = true -> a = b.
Proof.
  induction a as [| | | | | | | | |s e IH|k IHk v IHv|s|t IH]; intros b H; destruct b; try discriminate H; try reflexivity;
    cbn [ty_eqb] in H.
  - apply andb_true_iff in H. destruct H as [H1 H2]. apply eqb_prop in H1. rewrite (IH _ H2), H1. reflexivity.
  - apply andb_true_iff in H. destruct H as [H1 H2]. rewrite (IHk _ H1), (IHv _ H2). reflexivity.
  - apply N.eqb_eq in H. subst. reflexivity.
  - rewrite (IH _ H). reflexivity.
Qed.

Definition field_eqb (f g : field) : bool :=
  (fid f =? fid g) && ty_eqb (fty f) (fty g) && req_eqb (freq f) (freq g) && Bool.eqb (fnocopy f) (fnocopy g)
  && match fdflt f, fdflt g with
     | Some a, Some b => val_eqb a b
     | None, None => true
     | _, _ => false
     end.

Lemma field_eqb_eq : forall f g, field_eqb f g = true -> f = g.
Proof.
  intros [i t r c d] [i' t' r' c' d'] H. unfold field_eqb in H. cbn [fid fty freq fnocopy fdflt] in H.
  apply andb_true_iff in H. destruct H as [H H5]. apply andb_true_iff in H. destruct H as [H H4].
  apply andb_true_iff in H. destruct H as [H H3]. apply andb_true_iff in H. destruct H as [H1 H2].
  apply N.eqb_eq in H1. apply ty_eqb_eq in H2. apply eqb_prop in H4. subst.
  assert (Er : r = r') by (destruct r; destruct r'; try discriminate H3; reflexivity). subst.
  destruct d as [a|]; destruct d' as [b|]; try discriminate H5; [|reflexivity].
  rewrite (val_eqb_eq a b H5). reflexivity.
Qed.

Definition sub_schemab (sdR sdW : sdesc) : bool :=
  forallb (fun f => existsb (field_eqb f) (sfields sdW)) (sfields sdR).

Lemma sub_schemab_ok : forall sdR sdW, sub_schemab sdR sdW = true -> sub_schema sdR sdW.
Proof.
  intros sdR sdW H f Hf. unfold sub_schemab in H. rewrite forallb_forall in H.
  pose proof (H f Hf) as He. apply existsb_exists in He. destruct He as (g & Hg & E).
  rewrite (field_eqb_eq f g E). exact Hg.
Qed.

(* everything that is asked of the two schemas and their initialisers, as one
   computable check (n bounds the by-value struct nesting that is explored; the
   check answers false when n is too small) *)
Definition hop_checks (n : nat) (env : senv) (sidW sidR : N) : bool :=
  match lookup_sd env sidW, lookup_sd env sidR with
  | Some sdW, Some sdR =>
      sholder sdR && sub_schemab sdR sdW && zero_compatb n env
      && fresh_compatb n env sdR sdW (fresh env sidR) (fresh env sidW)
  | _, _ => false
  end.

(* the value: typed, complete, enums within int32, empty holders, and every nil
   struct pointer that is written points to a type whose default value survives
   encode + decode unchanged *)
Definition hop_value_ok (env : senv) (sid : N) (v : val) : bool :=
  has_type env (TStruct sid) v && enums32 env (TStruct sid) v && Spec.holders_empty v
  && req_complete env (TStruct sid) v && nil_ptrs_ok (fresh_stableb env) env (TStruct sid) v.

Theorem two_hop_checked : forall n env sidW sidR v r,
  dec_params_ok = true -> env_ok env = true -> init_ok env = true ->
  hop_checks n env sidW sidR = true -> hop_value_ok env sidW v = true ->
  absorb_top env sidR (denote env (TStruct sidW) v) (fresh env sidR) = AOk r ->
  exists sdR, lookup_sd env sidR = Some sdR
    /\ put (denote env (TStruct sidR) r) = put (hop_message env sdR (denote env (TStruct sidW) v) r)
    /\ absorb_top env sidW (hop_message env sdR (denote env (TStruct sidW) v) r) (fresh env sidW)
       = absorb_top env sidW (denote env (TStruct sidW) v) (fresh env sidW).
Proof.
  intros n env sidW sidR v r HP HE HI Hc Hv Ha. unfold hop_checks in Hc.
  destruct (lookup_sd env sidW) as [sdW|] eqn:HlW; [|discriminate Hc].
  destruct (lookup_sd env sidR) as [sdR|] eqn:HlR; [|discriminate Hc].
  apply andb_true_iff in Hc. destruct Hc as [Hc C4]. apply andb_true_iff in Hc. destruct Hc as [Hc C3].
  apply andb_true_iff in Hc. destruct Hc as [C1 C2].
  unfold hop_value_ok in Hv.
  apply andb_true_iff in Hv. destruct Hv as [Hv V5]. apply andb_true_iff in Hv. destruct Hv as [Hv V4].
  apply andb_true_iff in Hv. destruct Hv as [Hv V3]. apply andb_true_iff in Hv. destruct Hv as [V1 V2].
  exists sdR. split; [reflexivity|].
  exact (two_hop env (fresh_stableb env) sidW sidR sdW sdR v r HP HE HI (fresh_stableb_ok env)
           (zero_compatb_ok n env C3) HlW HlR C1 (sub_schemab_ok sdR sdW C2)
           (fresh_compatb_ok n env sdR sdW _ _ (env_sorted_ids env sidW sdW HE HlW) C4) V1 V2 V3 V4 V5 Ha).
Qed.

Theorem two_hop_impl_checked : forall n env pool pool' sidW sidR v r k,
  dec_params_ok = true -> tables_ok = true -> env_ok env = true -> init_ok env = true ->
  hop_checks n env sidW sidR = true -> hop_value_ok env sidW v = true ->
  (2 * vdepth v + 2 <= S (N.to_nat maxDepthLimit))%nat -> (2 * vdepth r + 2 <= S (N.to_nat maxDepthLimit))%nat ->
  decode_object env pool sidR (append_struct env sidW v) (fresh env sidR) = DOk (r, k) [] ->
  decode_object env pool' sidW (append_struct env sidR r) (fresh env sidW)
  = DOk (norm_top env sidW v, len (append_struct env sidR r)) []
  /\ encoded_size env sidR r = len (append_struct env sidR r).
Proof.
  intros n env pool pool' sidW sidR v r k HP HT HE HI Hc Hv Hdv Hdr Hdec. unfold hop_checks in Hc.
  destruct (lookup_sd env sidW) as [sdW|] eqn:HlW; [|discriminate Hc].
  destruct (lookup_sd env sidR) as [sdR|] eqn:HlR; [|discriminate Hc].
  apply andb_true_iff in Hc. destruct Hc as [Hc C4]. apply andb_true_iff in Hc. destruct Hc as [Hc C3].
  apply andb_true_iff in Hc. destruct Hc as [C1 C2].
  unfold hop_value_ok in Hv.
  apply andb_true_iff in Hv. destruct Hv as [Hv V5]. apply andb_true_iff in Hv. destruct Hv as [Hv V4].
  apply andb_true_iff in Hv. destruct Hv as [Hv V3]. apply andb_true_iff in Hv. destruct Hv as [V1 V2].
  exact (two_hop_impl env (fresh_stableb env) pool pool' sidW sidR sdW sdR v r k HP HT HE HI (fresh_stableb_ok env)
           (zero_compatb_ok n env C3) HlW HlR C1 (sub_schemab_ok sdR sdW C2)
           (fresh_compatb_ok n env sdR sdW _ _ (env_sorted_ids env sidW sdW HE HlW) C4) V1 V2 V3 V4 V5 Hdv Hdr Hdec).
Qed.

(* ================================================================== *)
(* 6. No struct declares defaults: the initialiser hypotheses hold      *)
(* ================================================================== *)

Definition no_init (env : senv) : bool :=
  forallb (fun sd => match sinit sd with None => true | Some _ => false end) env.

Lemma no_init_lookup : forall env sid sd, no_init env = true -> lookup_sd env sid = Some sd -> sinit sd = None.
Proof.
  intros env sid sd H Hl. unfold no_init in H. rewrite forallb_forall in H.
  pose proof (H sd (lookup_sd_In env sid sd Hl)) as Hs. destruct (sinit sd); [discriminate Hs|reflexivity].
Qed.

Lemma apply_init_none : forall sd v, sinit sd = None -> apply_init sd v = v.
Proof. intros sd v H. unfold apply_init. rewrite H. reflexivity. Qed.

Lemma skippable_optional : forall f, skippable f = true -> req_eqb (freq f) ROptional = true.
Proof.
  intros f H. unfold skippable, can_skip_nil, can_skip_default in H.
  destruct (req_eqb (freq f) ROptional); [reflexivity|discriminate H].
Qed.

Lemma field_ok_ty_ok : forall env f, field_ok env f = true -> ty_ok env (fty f) = true.
Proof.
  intros env f H. unfold field_ok in H.
  apply andb_true_iff in H. destruct H as [H _]. apply andb_true_iff in H. destruct H as [H _].
  apply andb_true_iff in H. destruct H as [_ H]. exact H.
Qed.

Lemma Forall3_map_same : forall (A B : Type) (R : A -> B -> B -> Prop) (g : A -> B) l,
  (forall a, In a l -> R a (g a) (g a)) -> Forall3 R l (map g l) (map g l).
Proof.
  intros A B R g. induction l as [|a l IH]; intros H; [constructor|].
  cbn [map]. constructor; [exact (H a (or_introl eq_refl))|]. apply IH. intros b Hb. apply H. right. exact Hb.
Qed.

(* the zero value of a field some value of which may be omitted: flat, typed,
   and either omitted itself or unchanged by encode + decode *)
Lemma zero_cell_ok : forall env n f, skippable f = true ->
  cell_ok env f (zero n env (fty f)) (zero n env (fty f)).
Proof.
  intros env n f Hs. pose proof (skippable_optional f Hs) as Ho.
  unfold cell_ok, emits, can_skip_nil, can_skip_default. rewrite Ho.
  unfold skippable, can_skip_nil, can_skip_default in Hs. rewrite Ho in Hs. cbn [andb] in *.
  assert (Ecl : forall b e, is_container (TList b e) = true) by (intros [|] e; reflexivity).
  assert (Ecm : forall k v, is_container (TMap k v) = true) by (intros k v; reflexivity).
  assert (Ecs : forall sid, is_container (TStruct sid) = false) by (intros sid; reflexivity).
  destruct (fty f) as [| | | | | | | | |b e|kt vt|sid|t'] eqn:Et.
  1-8: destruct n; cbn [zero]; (split; [reflexivity|split; [reflexivity|split; [reflexivity|]]]);
       intros _; split; reflexivity.
  - destruct n; cbn [zero]; (split; [reflexivity|split; [reflexivity|split; [reflexivity|]]]);
      cbn [is_ptr is_binary is_nil orb andb negb]; intros H; discriminate H.
  - destruct n; cbn [zero]; (split; [reflexivity|split; [reflexivity|split; [reflexivity|]]]);
      rewrite Ecl; cbn [is_ptr is_binary is_nil orb andb negb]; intros H; discriminate H.
  - destruct n; cbn [zero]; (split; [reflexivity|split; [reflexivity|split; [reflexivity|]]]);
      rewrite Ecm; cbn [is_ptr is_binary is_nil orb andb negb]; intros H; discriminate H.
  - exfalso. rewrite Ecs in Hs. cbn [is_ptr is_binary orb dflt_ty is_scalar_ty] in Hs.
    rewrite andb_false_r in Hs. discriminate Hs.
  - destruct n; cbn [zero]; (split; [reflexivity|split; [reflexivity|split; [reflexivity|]]]);
      cbn [is_ptr is_binary is_nil orb andb negb]; intros H; discriminate H.
Qed.

Lemma zero_pcompat : forall env, no_init env = true -> env_ok env = true ->
  forall n t, ty_ok env t = true -> zero_fits n env t = true -> pcompat env t (zero n env t) (zero n env t).
Proof.
  intros env HN HE. induction n as [|n IH]; intros t Hok Hz;
    destruct t as [| | | | | | | | | | |sid|]; try (apply pc_other; reflexivity).
  - cbn [ty_ok] in Hok. destruct (lookup_sd_some env sid Hok) as [sd Hl].
    rewrite zero_fits_O_struct, Hl in Hz. discriminate Hz.
  - cbn [ty_ok] in Hok. destruct (lookup_sd_some env sid Hok) as [sd Hl].
    pose proof (zero_fits_prior_ok env (S n) (TStruct sid) Hz) as Hp.
    rewrite zero_fits_S_struct, Hl in Hz. rewrite forallb_forall in Hz.
    cbn [zero] in Hp |- *. rewrite Hl in Hp |- *.
    apply (pc_struct env sid sd _ _ (map (fun f => zero n env (fty f)) (sfields sd))
                     (map (fun f => zero n env (fty f)) (sfields sd)) [] Hl Hp).
    + apply apply_init_none. exact (no_init_lookup env sid sd HN Hl).
    + apply apply_init_none. exact (no_init_lookup env sid sd HN Hl).
    + apply (Forall3_map_same field val (fun f q1 q2 => pcompat env (fty f) q1 q2 /\ (skippable f = true -> cell_ok env f q1 q2))
                              (fun f => zero n env (fty f))).
      intros f Hf. split.
      * apply IH; [|exact (Hz f Hf)]. exact (field_ok_ty_ok env f (env_field_ok env sid sd f HE Hl Hf)).
      * intros Hs. exact (zero_cell_ok env n f Hs).
Qed.

Lemma acyclic_field_fits : forall env sid sd f, byvalue_acyclic env = true -> lookup_sd env sid = Some sd ->
  In f (sfields sd) -> zero_fits (length env) env (fty f) = true.
Proof.
  intros env sid sd f H Hl Hf. unfold byvalue_acyclic in H. rewrite forallb_forall in H.
  pose proof (H sd (lookup_sd_In env sid sd Hl)) as H1. rewrite forallb_forall in H1. exact (H1 f Hf).
Qed.

Lemma noinit_zero_compat : forall env, no_init env = true -> env_ok env = true -> byvalue_acyclic env = true ->
  zero_compat env.
Proof.
  intros env HN HE HA sid sd Hl. unfold zero_of. apply (zero_pcompat env HN HE).
  - cbn [ty_ok]. exact (lookup_sd_lt env sid sd Hl).
  - rewrite zero_fits_S_struct, Hl. apply forallb_forall. intros f Hf.
    exact (acyclic_field_fits env sid sd f HA Hl Hf).
Qed.

Lemma noinit_fresh : forall env sid sd, no_init env = true -> lookup_sd env sid = Some sd ->
  fresh env sid = VT (map (fun f => zero (length env) env (fty f)) (sfields sd)) [].
Proof.
  intros env sid sd HN Hl. unfold fresh. rewrite Hl, (apply_init_none sd _ (no_init_lookup env sid sd HN Hl)).
  unfold zero_of. cbn [zero]. rewrite Hl. reflexivity.
Qed.

Lemma noinit_fresh_compat : forall env sidW sidR sdW sdR,
  no_init env = true -> env_ok env = true -> byvalue_acyclic env = true ->
  lookup_sd env sidW = Some sdW -> lookup_sd env sidR = Some sdR ->
  fresh_compat env sdR sdW (fresh env sidR) (fresh env sidW).
Proof.
  intros env sidW sidR sdW sdR HN HE HA HlW HlR.
  rewrite (noinit_fresh env sidR sdR HN HlR), (noinit_fresh env sidW sdW HN HlW). cbn [fresh_compat].
  intros i j f qR qW Hi Hj HqR HqW.
  rewrite (map_nth_error _ i (sfields sdR) Hi) in HqR. injection HqR as HqR. subst qR.
  rewrite (map_nth_error _ j (sfields sdW) Hj) in HqW. injection HqW as HqW. subst qW.
  pose proof (nth_error_In _ _ Hj) as Hf. split.
  - apply (zero_pcompat env HN HE).
    + exact (field_ok_ty_ok env f (env_field_ok env sidW sdW f HE HlW Hf)).
    + exact (acyclic_field_fits env sidW sdW f HA HlW Hf).
  - intros Hs. exact (zero_cell_ok env (length env) f Hs).
Qed.

(* without declared defaults: the sub-schema, the holder and the conditions on the value suffice *)
Theorem two_hop_noinit : forall env sidW sidR sdW sdR v r,
  dec_params_ok = true -> env_ok env = true -> no_init env = true -> byvalue_acyclic env = true ->
  lookup_sd env sidW = Some sdW -> lookup_sd env sidR = Some sdR -> sholder sdR = true -> sub_schema sdR sdW ->
  hop_value_ok env sidW v = true ->
  absorb_top env sidR (denote env (TStruct sidW) v) (fresh env sidR) = AOk r ->
  put (denote env (TStruct sidR) r) = put (hop_message env sdR (denote env (TStruct sidW) v) r)
  /\ absorb_top env sidW (hop_message env sdR (denote env (TStruct sidW) v) r) (fresh env sidW)
     = absorb_top env sidW (denote env (TStruct sidW) v) (fresh env sidW).
Proof.
  intros env sidW sidR sdW sdR v r HP HE HN HA HlW HlR HhR Hsub Hv Ha.
  assert (HI : init_ok env = true).
  { unfold init_ok. apply forallb_forall. intros sd Hsd. unfold no_init in HN. rewrite forallb_forall in HN.
    pose proof (HN sd Hsd) as H. destruct (sinit sd); [discriminate H|reflexivity]. }
  unfold hop_value_ok in Hv.
  apply andb_true_iff in Hv. destruct Hv as [Hv V5]. apply andb_true_iff in Hv. destruct Hv as [Hv V4].
  apply andb_true_iff in Hv. destruct Hv as [Hv V3]. apply andb_true_iff in Hv. destruct Hv as [V1 V2].
  exact (two_hop env (fresh_stableb env) sidW sidR sdW sdR v r HP HE HI (fresh_stableb_ok env)
           (noinit_zero_compat env HN HE HA) HlW HlR HhR Hsub
           (noinit_fresh_compat env sidW sidR sdW sdR HN HE HA HlW HlR) V1 V2 V3 V4 V5 Ha).
Qed.

Theorem two_hop_impl_noinit : forall env pool pool' sidW sidR sdW sdR v r k,
  dec_params_ok = true -> tables_ok = true -> env_ok env = true -> no_init env = true -> byvalue_acyclic env = true ->
  lookup_sd env sidW = Some sdW -> lookup_sd env sidR = Some sdR -> sholder sdR = true -> sub_schema sdR sdW ->
  hop_value_ok env sidW v = true ->
  (2 * vdepth v + 2 <= S (N.to_nat maxDepthLimit))%nat -> (2 * vdepth r + 2 <= S (N.to_nat maxDepthLimit))%nat ->
  decode_object env pool sidR (append_struct env sidW v) (fresh env sidR) = DOk (r, k) [] ->
  decode_object env pool' sidW (append_struct env sidR r) (fresh env sidW)
  = DOk (norm_top env sidW v, len (append_struct env sidR r)) []
  /\ encoded_size env sidR r = len (append_struct env sidR r).
Proof.
  intros env pool pool' sidW sidR sdW sdR v r k HP HT HE HN HA HlW HlR HhR Hsub Hv Hdv Hdr Hdec.
  assert (HI : init_ok env = true).
  { unfold init_ok. apply forallb_forall. intros sd Hsd. unfold no_init in HN. rewrite forallb_forall in HN.
    pose proof (HN sd Hsd) as H. destruct (sinit sd); [discriminate H|reflexivity]. }
  unfold hop_value_ok in Hv.
  apply andb_true_iff in Hv. destruct Hv as [Hv V5]. apply andb_true_iff in Hv. destruct Hv as [Hv V4].
  apply andb_true_iff in Hv. destruct Hv as [Hv V3]. apply andb_true_iff in Hv. destruct Hv as [V1 V2].
  exact (two_hop_impl env (fresh_stableb env) pool pool' sidW sidR sdW sdR v r k HP HT HE HI (fresh_stableb_ok env)
           (noinit_zero_compat env HN HE HA) HlW HlR HhR Hsub
           (noinit_fresh_compat env sidW sidR sdW sdR HN HE HA HlW HlR) V1 V2 V3 V4 V5 Hdv Hdr Hdec).
Qed.

(* ================================================================== *)
(* 7. Non-vacuity; the side conditions are needed                       *)
(* ================================================================== *)

(* struct 0: nested type with a declared default; struct 1: the writer's schema,
   nine fields of every kind, two declared defaults; struct 2: the older schema,
   ids 1, 5, 7, 9 of the writer's, with the holder *)
Definition h_inner : sdesc :=
  mkSdesc [ mkField 1 TI32 RDefault false None;
            mkField 2 TString ROptional false (Some (VB false [120])) ]
          false (Some [(1%nat, VB false [120])]).
Definition h_sdW : sdesc :=
  mkSdesc [ mkField 1 TI64 RRequired false None;
            mkField 2 TString ROptional false None;
            mkField 3 (TList false TI32) RDefault false None;
            mkField 4 (TMap TString TI64) ROptional false None;
            mkField 5 (TPtr (TStruct 0)) RDefault false None;
            mkField 6 (TPtr TI32) ROptional false None;
            mkField 7 TI16 ROptional false (Some (VS 9));
            mkField 8 (TStruct 0) RDefault false None;
            mkField 9 (TList false TString) ROptional false None ]
          false (Some [(6%nat, VS 9); (8%nat, VL (Some [VB false [97]]))]).
Definition h_sdR : sdesc :=
  mkSdesc [ mkField 1 TI64 RRequired false None;
            mkField 5 (TPtr (TStruct 0)) RDefault false None;
            mkField 7 TI16 ROptional false (Some (VS 9));
            mkField 9 (TList false TString) ROptional false None ]
          true (Some [(2%nat, VS 9); (3%nat, VL (Some [VB false [97]]))]).
Definition env_hop : senv := [h_inner; h_sdW; h_sdR].

(* field 5 is a nil struct pointer (written as an empty struct), field 7 has its
   default value and field 9 is nil (both omitted), field 6 is an optional scalar pointer *)
Definition v_hop : val :=
  VT [ VS 77; VB false [104; 105]; VL (Some [VS 1; VS 2; VS 3]); VM (Some [(VB false [107], VS 5)]);
       VP None; VP (Some (VS 4)); VS 9; VT [VS 3; VB false [120]] []; VL None ] [].

(* what the intermediary holds: its four fields, and the five others verbatim in the holder *)
Definition r_hop : val :=
  VT [ VS 77; VP (Some (VT [VS 0; VB false [120]] [])); VS 9; VL (Some [VB false [97]]) ]
     (put_fields [ (2, WStr [104; 105]); (3, WList false 8 [WI32 1; WI32 2; WI32 3]);
                   (4, WMap 11 10 [(WStr [107], WI64 5)]); (6, WI32 4);
                   (8, WStruct [(1, WI32 3)] []) ]).

Example hop_ex_hyps :
  dec_params_ok = true /\ tables_ok = true /\ env_ok env_hop = true /\ init_ok env_hop = true
  /\ hop_checks 4 env_hop 1 2 = true /\ hop_value_ok env_hop 1 v_hop = true
  /\ (2 * vdepth v_hop + 2 <= S (N.to_nat maxDepthLimit))%nat
  /\ (2 * vdepth r_hop + 2 <= S (N.to_nat maxDepthLimit))%nat.
Proof. repeat split; vm_compute; try reflexivity; repeat constructor. Qed.

Example hop_ex_first : decode_object env_hop [] 2 (append_struct env_hop 1 v_hop) (fresh env_hop 2) = DOk (r_hop, 85) [].
Proof. vm_compute. reflexivity. Qed.

Example hop_ex_second :
  decode_object env_hop [] 1 (append_struct env_hop 2 r_hop) (fresh env_hop 1)
  = DOk (norm_top env_hop 1 v_hop, 105) []
  /\ decode_object env_hop [] 1 (append_struct env_hop 1 v_hop) (fresh env_hop 1)
     = DOk (norm_top env_hop 1 v_hop, 85) []
  /\ encoded_size env_hop 2 r_hop = 105 /\ len (append_struct env_hop 2 r_hop) = 105.
Proof. repeat split; vm_compute; reflexivity. Qed.

(* the same, by the theorem *)
Example hop_ex_by_theorem :
  decode_object env_hop [] 1 (append_struct env_hop 2 r_hop) (fresh env_hop 1)
  = DOk (norm_top env_hop 1 v_hop, len (append_struct env_hop 2 r_hop)) [].
Proof.
  destruct hop_ex_hyps as (HP & HT & HE & HI & Hc & Hv & Hd1 & Hd2).
  exact (proj1 (two_hop_impl_checked 4 env_hop [] [] 1 2 v_hop r_hop 85 HP HT HE HI Hc Hv Hd1 Hd2 hop_ex_first)).
Qed.

Definition hop2 (env : senv) (sidW sidR : N) (v : val) : option (dres (val * N)) :=
  match decode_object env [] sidR (append_struct env sidW v) (fresh env sidR) with
  | DOk (r, _) [] => Some (decode_object env [] sidW (append_struct env sidR r) (fresh env sidW))
  | _ => None
  end.
Definition direct (env : senv) (sidW : N) (v : val) : dres (val * N) :=
  decode_object env [] sidW (append_struct env sidW v) (fresh env sidW).

(* The statement with [denote] of the intermediary's value in place of
   [hop_message] is false: the reference decoder works on parsed wire values
   and [denote] leaves the holder as uninterpreted bytes, which it ignores. *)
Example two_hop_needs_reparse :
  match absorb_top env_hop 2 (denote env_hop (TStruct 1) v_hop) (fresh env_hop 2) with
  | AOk r => absorb_top env_hop 1 (denote env_hop (TStruct 2) r) (fresh env_hop 1)
             <> absorb_top env_hop 1 (denote env_hop (TStruct 1) v_hop) (fresh env_hop 1)
  | _ => False
  end.
Proof. vm_compute. discriminate. Qed.

(* A written nil struct pointer whose target's default value is changed by
   encode + decode (here: a non-optional list, nil -> empty): the final reader
   sees an empty list where it would have seen a nil one. *)
Definition ce_nil_env : senv :=
  [ mkSdesc [mkField 1 (TList false TI32) RDefault false None] false None;
    mkSdesc [mkField 1 TI32 RDefault false None; mkField 2 (TPtr (TStruct 0)) RDefault false None] false None;
    mkSdesc [mkField 2 (TPtr (TStruct 0)) RDefault false None] true None ].
Example two_hop_needs_nil_ptrs_ok :
  let v := VT [VS 1; VP None] [] in
  env_ok ce_nil_env = true /\ no_init ce_nil_env = true /\ hop_checks 4 ce_nil_env 1 2 = true
  /\ has_type ce_nil_env (TStruct 1) v = true /\ req_complete ce_nil_env (TStruct 1) v = true
  /\ nil_ptrs_ok (fresh_stableb ce_nil_env) ce_nil_env (TStruct 1) v = false
  /\ hop2 ce_nil_env 1 2 v = Some (DOk (VT [VS 1; VP (Some (VT [VL (Some [])] []))] [], 20) [])
  /\ direct ce_nil_env 1 v = DOk (VT [VS 1; VP (Some (VT [VL None] []))] [], 12) [].
Proof. repeat split; vm_compute; reflexivity. Qed.

(* The initialisers disagree on a shared field (the writer's type sets the
   declared default 9, the intermediary's does not): the writer omits the
   default value, the intermediary re-emits its own cell. *)
Definition ce_init_env : senv :=
  [ mkSdesc [mkField 1 TI32 RDefault false None; mkField 7 TI16 ROptional false (Some (VS 9))] false (Some [(1%nat, VS 9)]);
    mkSdesc [mkField 7 TI16 ROptional false (Some (VS 9))] true None ].
Example two_hop_needs_fresh_compat :
  let v := VT [VS 1; VS 9] [] in
  env_ok ce_init_env = true /\ init_ok ce_init_env = true /\ hop_value_ok ce_init_env 0 v = true
  /\ hop_checks 4 ce_init_env 0 1 = false
  /\ hop2 ce_init_env 0 1 v = Some (DOk (VT [VS 1; VS 0] [], 13) [])
  /\ direct ce_init_env 0 v = DOk (VT [VS 1; VS 9] [], 8) [].
Proof. repeat split; vm_compute; reflexivity. Qed.

(* An enum outside int32 that truncates to the declared default: the
   intermediary reads the default and omits it. *)
Definition ce_enum_env : senv :=
  [ mkSdesc [mkField 1 TI32 RDefault false None; mkField 2 TEnum ROptional false (Some (VS 1))] false None;
    mkSdesc [mkField 2 TEnum ROptional false (Some (VS 1))] true None ].
Example two_hop_needs_enums32 :
  let v := VT [VS 1; VS 4294967297] [] in
  env_ok ce_enum_env = true /\ hop_checks 4 ce_enum_env 0 1 = true
  /\ has_type ce_enum_env (TStruct 0) v = true /\ enums32 ce_enum_env (TStruct 0) v = false
  /\ hop2 ce_enum_env 0 1 v = Some (DOk (VT [VS 1; VS 0] [], 8) [])
  /\ direct ce_enum_env 0 v = DOk (VT [VS 1; VS 1] [], 15) [].
Proof. repeat split; vm_compute; reflexivity. Qed.

(* Without the holder the unknown field is lost. *)
Definition ce_holder_env : senv :=
  [ mkSdesc [mkField 1 TI32 RDefault false None; mkField 2 TI32 RDefault false None] false None;
    mkSdesc [mkField 2 TI32 RDefault false None] false None ].
Example two_hop_needs_holder :
  let v := VT [VS 1; VS 2] [] in
  hop_checks 4 ce_holder_env 0 1 = false
  /\ hop2 ce_holder_env 0 1 v = Some (DOk (VT [VS 0; VS 2] [], 8) [])
  /\ direct ce_holder_env 0 v = DOk (VT [VS 1; VS 2] [], 15) [].
Proof. repeat split; vm_compute; reflexivity. Qed.

Print Assumptions hop_all.
Print Assumptions two_hop_full.
Print Assumptions two_hop.
Print Assumptions two_hop_impl.
Print Assumptions two_hop_size.
Print Assumptions two_hop_length.
Print Assumptions two_hop_checked.
Print Assumptions two_hop_impl_checked.
Print Assumptions two_hop_noinit.
Print Assumptions two_hop_impl_noinit.
Print Assumptions hop_ex_by_theorem.
