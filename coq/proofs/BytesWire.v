(* BytesWire.v -- facts about Bytes.v and Wire.v: the big-endian codec, [take],
   and the round trip [get (put w ++ rest) = POk w rest] of the reference
   reader over the reference writer. *)
From Coq Require Import List NArith Bool Lia ZifyN ZifyNat ZifyBool Arith.
From Frugal Require Import Bytes Wire.
Import ListNotations.
Open Scope N_scope.

(* ------------------------------------------------------------------ *)
(* len                                                                 *)

Lemma len_nil : forall A, len (@nil A) = 0.
Proof. reflexivity. Qed.

Lemma len_cons : forall A (x : A) l, len (x :: l) = len l + 1.
Proof. intros A x l. unfold len. cbn [length]. lia. Qed.

Lemma len_app : forall A (a b : list A), len (a ++ b) = len a + len b.
Proof. intros A a b. unfold len. rewrite app_length. lia. Qed.

Lemma len_length : forall A (l : list A), N.to_nat (len l) = length l.
Proof. intros A l. unfold len. apply Nat2N.id. Qed.

(* ------------------------------------------------------------------ *)
(* short                                                               *)

Lemma short_spec : forall bs n, short bs n = (len bs <? n)%N.
Proof.
  induction bs as [|b r IH]; intros n.
  - reflexivity.
  - cbn [short]. rewrite len_cons.
    destruct (n =? 0) eqn:E.
    + apply N.eqb_eq in E. subst n. symmetry. apply N.ltb_ge. lia.
    + apply N.eqb_neq in E. rewrite IH.
      destruct (len r <? N.pred n) eqn:E1; symmetry.
      * apply N.ltb_lt in E1. apply N.ltb_lt. lia.
      * apply N.ltb_ge in E1. apply N.ltb_ge. lia.
Qed.

(* ------------------------------------------------------------------ *)
(* be_put / be_get                                                     *)

Lemma be_put_S : forall w x, be_put (S w) x = be_put w (x / 256) ++ [x mod 256].
Proof. reflexivity. Qed.

Lemma be_put_length : forall w x, length (be_put w x) = w.
Proof.
  induction w as [|w IH]; intros x.
  - reflexivity.
  - rewrite be_put_S, app_length, IH. cbn [length]. lia.
Qed.

Lemma be_put_len : forall w x, len (be_put w x) = N.of_nat w.
Proof. intros w x. unfold len. rewrite be_put_length. reflexivity. Qed.

Lemma be_put_bytes_ok : forall w x, bytes_ok (be_put w x) = true.
Proof.
  unfold bytes_ok.
  induction w as [|w IH]; intros x.
  - reflexivity.
  - rewrite be_put_S, forallb_app, IH. cbn [forallb andb].
    unfold is_byte. rewrite andb_true_r. apply N.ltb_lt.
    apply N.mod_lt. discriminate.
Qed.

Lemma pow8_S : forall w, 2 ^ (8 * N.of_nat (S w)) = 2 ^ (8 * N.of_nat w) * 256.
Proof.
  intros w. rewrite Nat2N.inj_succ, N.mul_succ_r, N.pow_add_r. reflexivity.
Qed.

Lemma pow8_nz : forall w, 2 ^ (8 * N.of_nat w) <> 0.
Proof. intros w. apply N.pow_nonzero. discriminate. Qed.

Lemma be_fold_put : forall w x a,
  fold_left be_step (be_put w x) a
  = a * 2 ^ (8 * N.of_nat w) + x mod 2 ^ (8 * N.of_nat w).
Proof.
  induction w as [|w IH]; intros x a.
  - cbn [be_put fold_left]. change (2 ^ (8 * N.of_nat 0)) with 1.
    rewrite N.mod_1_r. lia.
  - rewrite be_put_S, fold_left_app, IH. cbn [fold_left]. unfold be_step.
    rewrite pow8_S.
    set (P := 2 ^ (8 * N.of_nat w)).
    assert (HP : P <> 0) by apply pow8_nz.
    rewrite (N.mul_comm P 256).
    rewrite (N.mod_mul_r x 256 P) by (try discriminate; exact HP).
    set (u := (x / 256) mod P). set (v := x mod 256).
    rewrite N.mul_add_distr_r.
    rewrite (N.mul_comm u 256).
    rewrite (N.mul_comm 256 P), N.mul_assoc. lia.
Qed.

Lemma be_get_put : forall w x, be_get (be_put w x) = (x mod 2 ^ (8 * N.of_nat w))%N.
Proof.
  intros w x. unfold be_get. rewrite be_fold_put. apply N.add_0_l.
Qed.

Lemma be_get_put_small : forall w x, x < 2 ^ (8 * N.of_nat w) -> be_get (be_put w x) = x.
Proof. intros w x H. rewrite be_get_put. apply N.mod_small. exact H. Qed.

(* ------------------------------------------------------------------ *)
(* take                                                                *)

Lemma firstn_length_app : forall A (a b : list A), firstn (length a) (a ++ b) = a.
Proof.
  induction a as [|x a IH]; intros b.
  - reflexivity.
  - cbn [length app firstn]. rewrite IH. reflexivity.
Qed.

Lemma skipn_length_app : forall A (a b : list A), skipn (length a) (a ++ b) = b.
Proof.
  induction a as [|x a IH]; intros b.
  - reflexivity.
  - cbn [length app skipn]. apply IH.
Qed.

Lemma take_app : forall a b, take (len a) (a ++ b) = Some (a, b).
Proof.
  intros a b. unfold take. rewrite short_spec, len_app.
  assert (E : (len a + len b <? len a) = false) by (apply N.ltb_ge; lia).
  rewrite E, len_length, firstn_length_app, skipn_length_app. reflexivity.
Qed.

Lemma take_app_eq : forall n a b, len a = n -> take n (a ++ b) = Some (a, b).
Proof. intros n a b H. subst n. apply take_app. Qed.

Lemma take_some : forall n bs h r, take n bs = Some (h, r) -> bs = h ++ r /\ len h = n.
Proof.
  intros n bs h r H. unfold take in H. rewrite short_spec in H.
  destruct (len bs <? n) eqn:E; [discriminate|].
  apply N.ltb_ge in E. injection H as Hh Hr. subst h r. split.
  - symmetry. apply firstn_skipn.
  - unfold len in *. rewrite firstn_length_le by lia. lia.
Qed.

Lemma take_none : forall n bs, take n bs = None <-> (len bs < n)%N.
Proof.
  intros n bs. unfold take. rewrite short_spec.
  destruct (len bs <? n) eqn:E.
  - apply N.ltb_lt in E. split; intros _; [exact E|reflexivity].
  - apply N.ltb_ge in E. split; intros H; [discriminate|lia].
Qed.

(* ------------------------------------------------------------------ *)
(* Wire: induction principle                                           *)

Section TvInd.
  Variable P : tv -> Prop.
  Hypothesis HBool : forall x, P (WBool x).
  Hypothesis HI8 : forall x, P (WI8 x).
  Hypothesis HI16 : forall x, P (WI16 x).
  Hypothesis HI32 : forall x, P (WI32 x).
  Hypothesis HI64 : forall x, P (WI64 x).
  Hypothesis HDbl : forall x, P (WDbl x).
  Hypothesis HStr : forall s, P (WStr s).
  Hypothesis HStruct : forall fs raw,
    Forall (fun fv : N * tv => P (snd fv)) fs -> P (WStruct fs raw).
  Hypothesis HMap : forall kc vc es,
    Forall (fun kv : tv * tv => P (fst kv) /\ P (snd kv)) es -> P (WMap kc vc es).
  Hypothesis HList : forall isset ec es, Forall P es -> P (WList isset ec es).

  Fixpoint tv_ind' (w : tv) : P w :=
    match w with
    | WBool x => HBool x
    | WI8 x => HI8 x
    | WI16 x => HI16 x
    | WI32 x => HI32 x
    | WI64 x => HI64 x
    | WDbl x => HDbl x
    | WStr s => HStr s
    | WStruct fs raw =>
        HStruct fs raw
          ((fix go (l : list (N * tv)) : Forall (fun fv : N * tv => P (snd fv)) l :=
              match l with
              | [] => Forall_nil _
              | fv :: r => Forall_cons fv (tv_ind' (snd fv)) (go r)
              end) fs)
    | WMap kc vc es =>
        HMap kc vc es
          ((fix go (l : list (tv * tv)) : Forall (fun kv : tv * tv => P (fst kv) /\ P (snd kv)) l :=
              match l with
              | [] => Forall_nil _
              | kv :: r => Forall_cons kv (conj (tv_ind' (fst kv)) (tv_ind' (snd kv))) (go r)
              end) es)
    | WList b ec es =>
        HList b ec es
          ((fix go (l : list tv) : Forall P l :=
              match l with
              | [] => Forall_nil _
              | x :: r => Forall_cons x (tv_ind' x) (go r)
              end) es)
    end.
End TvInd.

(* ------------------------------------------------------------------ *)
(* Wire: unfolding lemmas for put                                      *)

Lemma cat_map_nil : forall A (f : A -> list N), cat_map f [] = [].
Proof. reflexivity. Qed.

Lemma cat_map_cons : forall A (f : A -> list N) x l, cat_map f (x :: l) = f x ++ cat_map f l.
Proof. reflexivity. Qed.

Lemma cat_map_app : forall A (f : A -> list N) a b,
  cat_map f (a ++ b) = cat_map f a ++ cat_map f b.
Proof.
  intros A f a b. induction a as [|x a IH].
  - reflexivity.
  - cbn [app cat_map]. rewrite IH. apply app_assoc.
Qed.

Lemma put_bool_eq : forall x, put (WBool x) = [x].
Proof. reflexivity. Qed.
Lemma put_i8_eq : forall x, put (WI8 x) = [x].
Proof. reflexivity. Qed.
Lemma put_i16_eq : forall x, put (WI16 x) = be_put 2 x.
Proof. reflexivity. Qed.
Lemma put_i32_eq : forall x, put (WI32 x) = be_put 4 x.
Proof. reflexivity. Qed.
Lemma put_i64_eq : forall x, put (WI64 x) = be_put 8 x.
Proof. reflexivity. Qed.
Lemma put_dbl_eq : forall x, put (WDbl x) = be_put 8 x.
Proof. reflexivity. Qed.
Lemma put_str_eq : forall s, put (WStr s) = be_put 4 (len s) ++ s.
Proof. reflexivity. Qed.

Lemma put_struct_eq : forall fs raw, put (WStruct fs raw) = put_fields fs ++ raw ++ [cSTOP].
Proof. reflexivity. Qed.

Lemma put_map_eq : forall kc vc es,
  put (WMap kc vc es) = kc :: vc :: be_put 4 (len es) ++ cat_map put_entry es.
Proof. reflexivity. Qed.

Lemma put_list_eq : forall b ec es,
  put (WList b ec es) = ec :: be_put 4 (len es) ++ cat_map put es.
Proof. reflexivity. Qed.

Lemma put_field_eq : forall i v, put_field (i, v) = code_of v :: be_put 2 i ++ put v.
Proof. reflexivity. Qed.

Lemma put_fields_cons : forall fv fs, put_fields (fv :: fs) = put_field fv ++ put_fields fs.
Proof. reflexivity. Qed.

Lemma put_fields_app : forall a b, put_fields (a ++ b) = put_fields a ++ put_fields b.
Proof. intros a b. apply cat_map_app. Qed.

Lemma put_struct_raw : forall fs fs',
  put (WStruct fs (put_fields fs')) = put (WStruct (fs ++ fs') []).
Proof.
  intros fs fs'. rewrite !put_struct_eq, put_fields_app.
  cbn [app]. rewrite <- !app_assoc. reflexivity.
Qed.

(* ------------------------------------------------------------------ *)
(* Wire: well-formedness unfolding                                     *)

Lemma wf_struct : forall fs raw,
  wf (WStruct fs raw) = true ->
  raw = [] /\ forall fv, In fv fs -> fst fv < 2 ^ 16 /\ wf (snd fv) = true.
Proof.
  intros fs raw H. cbn [wf] in H. apply andb_true_iff in H. destruct H as [Hf Hr].
  split.
  - destruct raw; [reflexivity|discriminate].
  - intros fv Hin. rewrite forallb_forall in Hf. specialize (Hf fv Hin).
    apply andb_true_iff in Hf. destruct Hf as [H1 H2]. apply N.ltb_lt in H1. tauto.
Qed.

Lemma wf_map : forall kc vc es,
  wf (WMap kc vc es) = true ->
  len es < 2 ^ 31 /\ kc < 128 /\ vc < 128 /\
  forall kv, In kv es ->
    code_of (fst kv) = kc /\ code_of (snd kv) = vc /\
    wf (fst kv) = true /\ wf (snd kv) = true.
Proof.
  intros kc vc es H. cbn [wf] in H. apply andb_true_iff in H. destruct H as [Hl Hf].
  apply andb_true_iff in Hl. destruct Hl as [Hl Hvc].
  apply andb_true_iff in Hl. destruct Hl as [Hl Hkc].
  unfold lt31 in Hl. apply N.ltb_lt in Hl. apply N.ltb_lt in Hkc. apply N.ltb_lt in Hvc.
  split; [exact Hl|]. split; [exact Hkc|]. split; [exact Hvc|].
  intros kv Hin. rewrite forallb_forall in Hf. specialize (Hf kv Hin).
  apply andb_true_iff in Hf. destruct Hf as [Hf H4].
  apply andb_true_iff in Hf. destruct Hf as [Hf H3].
  apply andb_true_iff in Hf. destruct Hf as [H1 H2].
  apply N.eqb_eq in H1. apply N.eqb_eq in H2. tauto.
Qed.

Lemma wf_list : forall b ec es,
  wf (WList b ec es) = true ->
  len es < 2 ^ 31 /\ ec < 128 /\
  forall e, In e es -> code_of e = ec /\ wf e = true.
Proof.
  intros b ec es H. cbn [wf] in H. apply andb_true_iff in H. destruct H as [Hl Hf].
  apply andb_true_iff in Hl. destruct Hl as [Hl Hec].
  unfold lt31 in Hl. apply N.ltb_lt in Hl. apply N.ltb_lt in Hec.
  split; [exact Hl|]. split; [exact Hec|].
  intros e Hin. rewrite forallb_forall in Hf. specialize (Hf e Hin).
  apply andb_true_iff in Hf. destruct Hf as [H1 H2].
  apply N.eqb_eq in H1. tauto.
Qed.

(* ------------------------------------------------------------------ *)
(* Wire: depth                                                         *)

Lemma fold_max_in : forall A (f : A -> nat) l x,
  In x l -> (f x <= fold_right (fun y m => Nat.max (f y) m) O l)%nat.
Proof.
  intros A f l x. induction l as [|y l IH]; intros Hin.
  - destruct Hin.
  - cbn [fold_right]. destruct Hin as [E|Hin].
    + subst y. apply Nat.le_max_l.
    + specialize (IH Hin). lia.
Qed.

Lemma wdepth_struct_in : forall fs raw d fv,
  (wdepth (WStruct fs raw) < S d)%nat -> In fv fs -> (wdepth (snd fv) < d)%nat.
Proof.
  intros fs raw d fv H Hin. cbn [wdepth] in H.
  pose proof (fold_max_in _ (fun fv : N * tv => wdepth (snd fv)) fs fv Hin) as H1.
  cbv beta in H1. lia.
Qed.

Lemma wdepth_map_in : forall kc vc es d kv,
  (wdepth (WMap kc vc es) < S d)%nat -> In kv es ->
  (wdepth (fst kv) < d)%nat /\ (wdepth (snd kv) < d)%nat.
Proof.
  intros kc vc es d kv H Hin. cbn [wdepth] in H.
  pose proof (fold_max_in _ (fun kv : tv * tv => Nat.max (wdepth (fst kv)) (wdepth (snd kv))) es kv Hin) as H1.
  cbv beta in H1. lia.
Qed.

Lemma wdepth_list_in : forall b ec es d e,
  (wdepth (WList b ec es) < S d)%nat -> In e es -> (wdepth e < d)%nat.
Proof.
  intros b ec es d e H Hin. cbn [wdepth] in H.
  pose proof (fold_max_in _ wdepth es e Hin) as H1.
  cbv beta in H1. lia.
Qed.

(* ------------------------------------------------------------------ *)
(* Wire: codes and sizes                                               *)

Lemma known_code_of : forall w, known_code (code_of w) = true.
Proof. intros w. destruct w as [x|x|x|x|x|x|s|fs raw|kc vc es|[|] ec es]; reflexivity. Qed.

Lemma code_of_not_stop : forall w, (code_of w =? cSTOP) = false.
Proof. intros w. destruct w as [x|x|x|x|x|x|s|fs raw|kc vc es|[|] ec es]; reflexivity. Qed.

(* no well-formedness needed *)
Lemma min_size_put' : forall w, (min_size (code_of w) <= len (put w))%N.
Proof.
  intros w. destruct w as [x|x|x|x|x|x|s|fs raw|kc vc es|b ec es].
  - cbn [code_of]. rewrite put_bool_eq. change (1 <= 1). lia.
  - cbn [code_of]. rewrite put_i8_eq. change (1 <= 1). lia.
  - cbn [code_of]. rewrite put_i16_eq, be_put_len. change (2 <= 2). lia.
  - cbn [code_of]. rewrite put_i32_eq, be_put_len. change (4 <= 4). lia.
  - cbn [code_of]. rewrite put_i64_eq, be_put_len. change (8 <= 8). lia.
  - cbn [code_of]. rewrite put_dbl_eq, be_put_len. change (8 <= 8). lia.
  - cbn [code_of]. rewrite put_str_eq, len_app, be_put_len.
    change (min_size cSTRING) with 4. change (N.of_nat 4) with 4. lia.
  - cbn [code_of]. rewrite put_struct_eq, !len_app.
    change (min_size cSTRUCT) with 1. change (len [cSTOP]) with 1. lia.
  - cbn [code_of]. rewrite put_map_eq, !len_cons, len_app, be_put_len.
    change (min_size cMAP) with 6. change (N.of_nat 4) with 4. lia.
  - rewrite put_list_eq, !len_cons, len_app, be_put_len.
    change (N.of_nat 4) with 4.
    destruct b; cbn [code_of];
      [change (min_size cSET) with 5 | change (min_size cLIST) with 5]; lia.
Qed.

Lemma min_size_put : forall w, wf w = true -> (min_size (code_of w) <= len (put w))%N.
Proof. intros w _. apply min_size_put'. Qed.

Lemma cat_map_min : forall A (f : A -> list N) m l,
  (forall x, In x l -> m <= len (f x)) -> len l * m <= len (cat_map f l).
Proof.
  intros A f m l. induction l as [|x l IH]; intros H.
  - rewrite len_nil. lia.
  - rewrite cat_map_cons, len_app, len_cons, N.mul_add_distr_r, N.mul_1_l.
    assert (H1 : m <= len (f x)) by (apply H; left; reflexivity).
    assert (H2 : len l * m <= len (cat_map f l)) by (apply IH; intros y Hy; apply H; right; exact Hy).
    lia.
Qed.

Lemma length_put_fields : forall fs, (length fs <= length (put_fields fs))%nat.
Proof.
  induction fs as [|[i v] fs IH].
  - apply Nat.le_refl.
  - rewrite put_fields_cons, put_field_eq. cbn [app length]. rewrite app_length. lia.
Qed.

(* ------------------------------------------------------------------ *)
(* Wire: get, one equation per code                                    *)

Lemma get_bool : forall d bs, get (S d) cBOOL bs = rd_fixed 1 WBool bs.
Proof. reflexivity. Qed.
Lemma get_byte : forall d bs, get (S d) cBYTE bs = rd_fixed 1 WI8 bs.
Proof. reflexivity. Qed.
Lemma get_i16 : forall d bs, get (S d) cI16 bs = rd_fixed 2 WI16 bs.
Proof. reflexivity. Qed.
Lemma get_i32 : forall d bs, get (S d) cI32 bs = rd_fixed 4 WI32 bs.
Proof. reflexivity. Qed.
Lemma get_i64 : forall d bs, get (S d) cI64 bs = rd_fixed 8 WI64 bs.
Proof. reflexivity. Qed.
Lemma get_double : forall d bs, get (S d) cDOUBLE bs = rd_fixed 8 WDbl bs.
Proof. reflexivity. Qed.

Lemma get_string : forall d bs,
  get (S d) cSTRING bs =
  match take 4 bs with
  | None => PErr
  | Some (h, r) =>
      let n := be_get h in
      if neg32 n then PErr
      else match take n r with
           | Some (s, r') => POk (WStr s) r'
           | None => PErr
           end
  end.
Proof. reflexivity. Qed.

Lemma get_struct : forall d bs,
  get (S d) cSTRUCT bs =
  match get_fields (get d) (S (length bs)) bs with
  | POk fs r => POk (WStruct fs []) r
  | PErr => PErr
  end.
Proof. reflexivity. Qed.

Lemma get_map : forall d bs,
  get (S d) cMAP bs =
  match bs with
  | kc :: vc :: r =>
      match take 4 r with
      | None => PErr
      | Some (h, r1) =>
          let n := be_get h in
          if neg32 n then PErr
          else if negb ((kc <? 128) && (vc <? 128)) then PErr
          else if n =? 0 then POk (WMap kc vc []) r1
          else if negb (known_code kc && known_code vc) then PErr
          else if short r1 (n * (min_size kc + min_size vc)) then PErr
          else
            match get_entries (get d) (N.to_nat n) kc vc r1 with
            | POk es r' => POk (WMap kc vc es) r'
            | PErr => PErr
            end
      end
  | _ => PErr
  end.
Proof. reflexivity. Qed.

Lemma get_list : forall d (b : bool) bs,
  get (S d) (if b then cSET else cLIST) bs =
  match bs with
  | ec :: r =>
      match take 4 r with
      | None => PErr
      | Some (h, r1) =>
          let n := be_get h in
          if neg32 n then PErr
          else if negb (ec <? 128) then PErr
          else if n =? 0 then POk (WList b ec []) r1
          else if negb (known_code ec) then PErr
          else if short r1 (n * min_size ec) then PErr
          else
            match get_elems (get d) (N.to_nat n) ec r1 with
            | POk es r' => POk (WList b ec es) r'
            | PErr => PErr
            end
      end
  | _ => PErr
  end.
Proof. intros d b bs. destruct b; reflexivity. Qed.

Lemma code_of_list : forall b ec es, code_of (WList b ec es) = if b then cSET else cLIST.
Proof. intros b ec es. destruct b; reflexivity. Qed.

(* ------------------------------------------------------------------ *)
(* Wire: readers of fixed-width pieces                                 *)

Lemma rd_fixed_put : forall w mk x rest,
  x < 2 ^ (8 * N.of_nat w) ->
  rd_fixed w mk (be_put w x ++ rest) = POk (mk x) rest.
Proof.
  intros w mk x rest H. unfold rd_fixed.
  rewrite (take_app_eq (N.of_nat w) (be_put w x) rest) by apply be_put_len.
  rewrite be_get_put_small by exact H. reflexivity.
Qed.

Lemma rd_fixed_one : forall mk x rest, rd_fixed 1 mk ([x] ++ rest) = POk (mk x) rest.
Proof.
  intros mk x rest. unfold rd_fixed.
  rewrite (take_app_eq (N.of_nat 1) [x] rest) by reflexivity.
  unfold be_get. cbn [fold_left]. unfold be_step.
  rewrite N.mul_0_l, N.add_0_l. reflexivity.
Qed.

Lemma neg32_small : forall n, n < 2 ^ 31 -> neg32 n = false.
Proof. intros n H. unfold neg32. apply N.leb_gt. exact H. Qed.

Lemma take4_count : forall n rest,
  n < 2 ^ 31 -> take 4 (be_put 4 n ++ rest) = Some (be_put 4 n, rest).
Proof. intros n rest _. apply take_app_eq. apply be_put_len. Qed.

Lemma be_get_count : forall n, n < 2 ^ 31 -> be_get (be_put 4 n) = n.
Proof.
  intros n H. apply be_get_put_small.
  change (2 ^ (8 * N.of_nat 4)) with (2 ^ 32).
  assert (2 ^ 31 < 2 ^ 32) by (apply N.pow_lt_mono_r; lia). lia.
Qed.

(* ------------------------------------------------------------------ *)
(* Wire: the three loops                                               *)

Lemma get_elems_put : forall g ec es rest,
  (forall e, In e es -> forall r, g ec (put e ++ r) = POk e r) ->
  get_elems g (length es) ec (cat_map put es ++ rest) = POk es rest.
Proof.
  intros g ec es rest. induction es as [|e es IH]; intros H.
  - reflexivity.
  - cbn [length get_elems]. rewrite cat_map_cons, <- app_assoc.
    rewrite (H e (or_introl eq_refl)).
    rewrite IH by (intros e' He'; apply H; right; exact He').
    reflexivity.
Qed.

Lemma get_entries_put : forall g kc vc es rest,
  (forall kv, In kv es ->
     (forall r, g kc (put (fst kv) ++ r) = POk (fst kv) r) /\
     (forall r, g vc (put (snd kv) ++ r) = POk (snd kv) r)) ->
  get_entries g (length es) kc vc (cat_map put_entry es ++ rest) = POk es rest.
Proof.
  intros g kc vc es rest. induction es as [|[k v] es IH]; intros H.
  - reflexivity.
  - cbn [length get_entries]. rewrite cat_map_cons. unfold put_entry at 1.
    cbn [fst snd]. rewrite <- !app_assoc.
    destruct (H (k, v) (or_introl eq_refl)) as [Hk Hv]. cbn [fst snd] in Hk, Hv.
    rewrite Hk, Hv.
    rewrite IH by (intros kv' He'; apply H; right; exact He').
    reflexivity.
Qed.

Lemma get_fields_put : forall g fs fuel rest,
  (forall fv, In fv fs ->
     fst fv < 2 ^ 16 /\
     forall r, g (code_of (snd fv)) (put (snd fv) ++ r) = POk (snd fv) r) ->
  (length fs < fuel)%nat ->
  get_fields g fuel (put_fields fs ++ cSTOP :: rest) = POk fs rest.
Proof.
  intros g fs. induction fs as [|[i v] fs IH]; intros fuel rest H Hfuel.
  - destruct fuel as [|fuel]; [inversion Hfuel|]. reflexivity.
  - destruct fuel as [|fuel]; [inversion Hfuel|].
    cbn [length] in Hfuel.
    rewrite put_fields_cons, put_field_eq.
    cbn [app get_fields]. rewrite code_of_not_stop.
    rewrite <- !app_assoc.
    rewrite (take_app_eq 2 (be_put 2 i)) by apply be_put_len.
    destruct (H (i, v) (or_introl eq_refl)) as [Hi Hv]. cbn [fst snd] in Hi, Hv.
    rewrite Hv.
    rewrite IH; [| intros fv' He'; apply H; right; exact He' | lia].
    rewrite be_get_put_small by exact Hi. reflexivity.
Qed.

(* ------------------------------------------------------------------ *)
(* Wire: the round trip                                                *)

Theorem get_put : forall w d rest,
  wf w = true -> (wdepth w < d)%nat ->
  get d (code_of w) (put w ++ rest) = POk w rest.
Proof.
  induction w as [x|x|x|x|x|x|s|fs raw IHfs|kc vc es IHes|b ec es IHes] using tv_ind';
    intros d rest Hwf Hd; (destruct d as [|d]; [inversion Hd|]).
  - (* WBool *)
    cbn [code_of]. rewrite get_bool, put_bool_eq. apply rd_fixed_one.
  - cbn [code_of]. rewrite get_byte, put_i8_eq. apply rd_fixed_one.
  - cbn [code_of wf] in *. apply N.ltb_lt in Hwf.
    rewrite get_i16, put_i16_eq. apply rd_fixed_put. exact Hwf.
  - cbn [code_of wf] in *. apply N.ltb_lt in Hwf.
    rewrite get_i32, put_i32_eq. apply rd_fixed_put. exact Hwf.
  - cbn [code_of wf] in *. apply N.ltb_lt in Hwf.
    rewrite get_i64, put_i64_eq. apply rd_fixed_put. exact Hwf.
  - cbn [code_of wf] in *. apply N.ltb_lt in Hwf.
    rewrite get_double, put_dbl_eq. apply rd_fixed_put. exact Hwf.
  - (* WStr *)
    cbn [code_of wf] in *. apply andb_true_iff in Hwf. destruct Hwf as [Hl _].
    unfold lt31 in Hl. apply N.ltb_lt in Hl.
    rewrite get_string, put_str_eq, <- app_assoc.
    rewrite take4_count by exact Hl. cbv zeta.
    rewrite be_get_count by exact Hl.
    rewrite neg32_small by exact Hl.
    rewrite take_app. reflexivity.
  - (* WStruct *)
    apply wf_struct in Hwf. destruct Hwf as [Hraw Hwf]. subst raw.
    cbn [code_of]. rewrite get_struct, put_struct_eq.
    assert (E : (put_fields fs ++ [] ++ [cSTOP]) ++ rest = put_fields fs ++ cSTOP :: rest)
      by (rewrite <- app_assoc; reflexivity).
    rewrite E. clear E.
    rewrite get_fields_put; [reflexivity | |].
    + intros fv Hin. destruct (Hwf fv Hin) as [Hi Hw]. split; [exact Hi|].
      intros r. rewrite Forall_forall in IHfs. apply (IHfs fv Hin); [exact Hw|].
      apply (wdepth_struct_in fs [] d fv Hd Hin).
    + rewrite app_length. pose proof (length_put_fields fs). lia.
  - (* WMap *)
    apply wf_map in Hwf. destruct Hwf as [Hl [Hkc [Hvc Hwf]]].
    apply N.ltb_lt in Hkc. apply N.ltb_lt in Hvc.
    cbn [code_of]. rewrite get_map, put_map_eq.
    cbn [app]. rewrite <- app_assoc.
    rewrite take4_count by exact Hl. cbv zeta.
    rewrite be_get_count by exact Hl.
    rewrite neg32_small by exact Hl.
    rewrite Hkc, Hvc. cbn [andb negb].
    destruct (len es =? 0) eqn:E0.
    + apply N.eqb_eq in E0. destruct es as [|kv es]; [reflexivity|].
      rewrite len_cons in E0. lia.
    + apply N.eqb_neq in E0.
      assert (Hk : known_code kc && known_code vc = true).
      { destruct es as [|kv es]; [exfalso; apply E0; reflexivity|].
        destruct (Hwf kv (or_introl eq_refl)) as [H1 [H2 _]].
        rewrite <- H1, <- H2, !known_code_of. reflexivity. }
      rewrite Hk. cbn [negb].
      assert (Hs : short (cat_map put_entry es ++ rest)
                     (len es * (min_size kc + min_size vc)) = false).
      { rewrite short_spec. apply N.ltb_ge. rewrite len_app.
        assert (Hm : len es * (min_size kc + min_size vc) <= len (cat_map put_entry es)).
        { apply cat_map_min. intros kv Hin.
          destruct (Hwf kv Hin) as [H1 [H2 _]].
          unfold put_entry. rewrite len_app, <- H1, <- H2.
          pose proof (min_size_put' (fst kv)). pose proof (min_size_put' (snd kv)). lia. }
        lia. }
      rewrite Hs. rewrite len_length.
      rewrite get_entries_put; [reflexivity|].
      intros kv Hin. rewrite Forall_forall in IHes.
      destruct (IHes kv Hin) as [IHk IHv].
      destruct (Hwf kv Hin) as [H1 [H2 [H3 H4]]].
      destruct (wdepth_map_in kc vc es d kv Hd Hin) as [D1 D2].
      split; intros r.
      * rewrite <- H1. apply IHk; assumption.
      * rewrite <- H2. apply IHv; assumption.
  - (* WList *)
    apply wf_list in Hwf. destruct Hwf as [Hl [Hec Hwf]].
    apply N.ltb_lt in Hec.
    rewrite code_of_list, get_list, put_list_eq.
    cbn [app]. rewrite <- app_assoc.
    rewrite take4_count by exact Hl. cbv zeta.
    rewrite be_get_count by exact Hl.
    rewrite neg32_small by exact Hl.
    rewrite Hec. cbn [negb].
    destruct (len es =? 0) eqn:E0.
    + apply N.eqb_eq in E0. destruct es as [|e es]; [reflexivity|].
      rewrite len_cons in E0. lia.
    + apply N.eqb_neq in E0.
      assert (Hk : known_code ec = true).
      { destruct es as [|e es]; [exfalso; apply E0; reflexivity|].
        destruct (Hwf e (or_introl eq_refl)) as [H1 _].
        rewrite <- H1. apply known_code_of. }
      rewrite Hk. cbn [negb].
      assert (Hs : short (cat_map put es ++ rest) (len es * min_size ec) = false).
      { rewrite short_spec. apply N.ltb_ge. rewrite len_app.
        assert (Hm : len es * min_size ec <= len (cat_map put es)).
        { apply cat_map_min. intros e Hin.
          destruct (Hwf e Hin) as [H1 _]. rewrite <- H1. apply min_size_put'. }
        lia. }
      rewrite Hs. rewrite len_length.
      rewrite get_elems_put; [reflexivity|].
      intros e Hin r. rewrite Forall_forall in IHes.
      destruct (Hwf e Hin) as [H1 H2].
      rewrite <- H1. apply (IHes e Hin); [exact H2|].
      apply (wdepth_list_in b ec es d e Hd Hin).
Qed.

(* ------------------------------------------------------------------ *)
(* Wire: the writer emits bytes                                        *)

Lemma bytes_ok_app : forall a b, bytes_ok (a ++ b) = bytes_ok a && bytes_ok b.
Proof. intros a b. unfold bytes_ok. apply forallb_app. Qed.

Lemma bytes_ok_cons : forall x l, bytes_ok (x :: l) = is_byte x && bytes_ok l.
Proof. reflexivity. Qed.

Lemma bytes_ok_nil : bytes_ok [] = true.
Proof. reflexivity. Qed.

Lemma is_byte_lt : forall x, x < 256 -> is_byte x = true.
Proof. intros x H. unfold is_byte. apply N.ltb_lt. exact H. Qed.

Lemma is_byte_code_of : forall w, is_byte (code_of w) = true.
Proof. intros w. destruct w as [x|x|x|x|x|x|s|fs raw|kc vc es|[|] ec es]; reflexivity. Qed.

Lemma bytes_ok_cat_map : forall A (f : A -> list N) l,
  (forall x, In x l -> bytes_ok (f x) = true) -> bytes_ok (cat_map f l) = true.
Proof.
  intros A f l. induction l as [|x l IH]; intros H.
  - reflexivity.
  - rewrite cat_map_cons, bytes_ok_app.
    rewrite (H x (or_introl eq_refl)).
    rewrite IH by (intros y Hy; apply H; right; exact Hy). reflexivity.
Qed.

Lemma put_bytes_ok : forall w, wf w = true -> bytes_ok (put w) = true.
Proof.
  induction w as [x|x|x|x|x|x|s|fs raw IHfs|kc vc es IHes|b ec es IHes] using tv_ind';
    intros Hwf.
  - cbn [wf] in Hwf. rewrite put_bool_eq, bytes_ok_cons, bytes_ok_nil.
    unfold is_byte. rewrite Hwf. reflexivity.
  - cbn [wf] in Hwf. rewrite put_i8_eq, bytes_ok_cons, bytes_ok_nil.
    unfold is_byte. rewrite Hwf. reflexivity.
  - rewrite put_i16_eq. apply be_put_bytes_ok.
  - rewrite put_i32_eq. apply be_put_bytes_ok.
  - rewrite put_i64_eq. apply be_put_bytes_ok.
  - rewrite put_dbl_eq. apply be_put_bytes_ok.
  - cbn [wf] in Hwf. apply andb_true_iff in Hwf. destruct Hwf as [_ Hs].
    rewrite put_str_eq, bytes_ok_app, be_put_bytes_ok, Hs. reflexivity.
  - apply wf_struct in Hwf. destruct Hwf as [Hraw Hwf]. subst raw.
    rewrite put_struct_eq, bytes_ok_app. cbn [app].
    rewrite andb_true_iff. split; [|reflexivity].
    unfold put_fields. apply bytes_ok_cat_map. intros [i v] Hin.
    rewrite put_field_eq, bytes_ok_cons, bytes_ok_app, is_byte_code_of, be_put_bytes_ok.
    cbn [andb]. rewrite Forall_forall in IHfs.
    apply (IHfs (i, v) Hin). apply (Hwf (i, v) Hin).
  - apply wf_map in Hwf. destruct Hwf as [Hl [Hkc [Hvc Hwf]]].
    rewrite put_map_eq, !bytes_ok_cons, bytes_ok_app, be_put_bytes_ok.
    rewrite (is_byte_lt kc) by lia. rewrite (is_byte_lt vc) by lia. cbn [andb].
    apply bytes_ok_cat_map. intros kv Hin.
    rewrite Forall_forall in IHes. destruct (IHes kv Hin) as [IHk IHv].
    destruct (Hwf kv Hin) as [_ [_ [H3 H4]]].
    unfold put_entry. rewrite bytes_ok_app, (IHk H3), (IHv H4). reflexivity.
  - apply wf_list in Hwf. destruct Hwf as [Hl [Hec Hwf]].
    rewrite put_list_eq, bytes_ok_cons, bytes_ok_app, be_put_bytes_ok.
    rewrite (is_byte_lt ec) by lia. cbn [andb].
    apply bytes_ok_cat_map. intros e Hin.
    rewrite Forall_forall in IHes. apply (IHes e Hin). apply (Hwf e Hin).
Qed.

Print Assumptions get_put.
Print Assumptions put_bytes_ok.
