(* GenDecParams.v -- the decoder's and skipper's side condition on gen/Params.v, re-proved on every
   run against what the translator read from the Go sources. *)
From Frugal Require Import Checks.

Lemma dec_params_ok_holds : dec_params_ok = true.
Proof. vm_compute. reflexivity. Qed.
