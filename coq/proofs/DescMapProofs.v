(* DescMapProofs.v -- the copy-on-write bucket map of DescMap.v behaves as an
   association list, and published arrays are never modified. *)
From Coq Require Import List NArith ZArith Bool Lia ZifyN ZifyNat ZifyBool.
From Frugal.gen Require Import Params.
From Frugal Require Import DescMap.
Import ListNotations.
Open Scope N_scope.

(* ---------- assoc / set_slot / replace_item ---------- *)

Lemma assoc_set_slot_same : forall b a l, assoc b (set_slot b a l) = Some a.
Proof.
  intros b a l. induction l as [|[b' a'] r IH]; cbn [set_slot assoc].
  - rewrite N.eqb_refl. reflexivity.
  - destruct (b =? b') eqn:E; cbn [assoc].
    + rewrite N.eqb_refl. reflexivity.
    + rewrite E. exact IH.
Qed.

Lemma assoc_set_slot_other : forall b b' a l, b' <> b -> assoc b' (set_slot b a l) = assoc b' l.
Proof.
  intros b b' a l Hne. induction l as [|[b0 a0] r IH]; cbn [set_slot assoc].
  - destruct (N.eqb_spec b' b); [contradiction | reflexivity].
  - destruct (N.eqb_spec b b0) as [E|E]; cbn [assoc].
    + subst b0. destruct (N.eqb_spec b' b); [contradiction | reflexivity].
    + destruct (b' =? b0); [reflexivity | exact IH].
Qed.

Lemma set_slot_Forall : forall (P : N * N -> Prop) b a l,
  P (b, a) -> Forall P l -> Forall P (set_slot b a l).
Proof.
  intros P b a l Hba HF. induction HF as [|[b' a'] r Hx Hr IH]; cbn [set_slot].
  - constructor; [exact Hba | constructor].
  - destruct (b =? b'); constructor; auto.
Qed.

Lemma assoc_In : forall k v (l : list (N * N)), assoc k l = Some v -> In (k, v) l.
Proof.
  intros k v l. induction l as [|[k' v'] r IH]; cbn [assoc]; intros H; [discriminate|].
  destruct (N.eqb_spec k k') as [E|E].
  - inversion H; subst. left. reflexivity.
  - right. apply IH. exact H.
Qed.

Lemma assoc_None_notin : forall k (l : list (N * N)), assoc k l = None -> ~ In k (map fst l).
Proof.
  intros k l. induction l as [|[k' v'] r IH]; cbn [assoc map fst]; intros H HI; [destruct HI|].
  destruct (N.eqb_spec k k') as [E|E]; [discriminate|].
  destruct HI as [HI|HI]; [congruence | exact (IH H HI)].
Qed.

(* replace_item succeeds exactly when the key is present *)
Lemma replace_item_None : forall k v l, replace_item k v l = None -> assoc k l = None.
Proof.
  intros k v l. induction l as [|[k' v'] r IH]; cbn [replace_item assoc]; intros H; [reflexivity|].
  destruct (k =? k'); [discriminate|].
  destruct (replace_item k v r); [discriminate|]. apply IH. reflexivity.
Qed.

Lemma replace_item_assoc : forall k v l l' k',
  replace_item k v l = Some l' ->
  assoc k' l' = if k' =? k then Some v else assoc k' l.
Proof.
  intros k v l. induction l as [|[k0 v0] r IH]; cbn [replace_item]; intros l' k' H; [discriminate|].
  destruct (N.eqb_spec k k0) as [E|E].
  - inversion H; subst. cbn [assoc]. destruct (k' =? k0); reflexivity.
  - destruct (replace_item k v r) as [r'|] eqn:R; [|discriminate].
    inversion H; subst. cbn [assoc]. rewrite (IH r' k' eq_refl).
    destruct (N.eqb_spec k' k0) as [E0|E0]; [|reflexivity].
    subst k0. destruct (N.eqb_spec k' k); [congruence | reflexivity].
Qed.

Lemma replace_item_keys : forall k v l l',
  replace_item k v l = Some l' -> map fst l' = map fst l.
Proof.
  intros k v l. induction l as [|[k0 v0] r IH]; cbn [replace_item]; intros l' H; [discriminate|].
  destruct (N.eqb_spec k k0) as [E|E].
  - inversion H; subst. reflexivity.
  - destruct (replace_item k v r) as [r'|] eqn:R; [|discriminate].
    inversion H; subst. cbn [map fst]. rewrite (IH r' eq_refl). reflexivity.
Qed.

Lemma assoc_app_new : forall k v l k',
  assoc k' (l ++ [(k, v)]) =
  match assoc k' l with Some x => Some x | None => if k' =? k then Some v else None end.
Proof.
  intros k v l k'. induction l as [|[k0 v0] r IH]; cbn [app assoc]; [reflexivity|].
  destruct (k' =? k0); [reflexivity | exact IH].
Qed.

(* the array Set builds for key k from the old one *)
Definition new_items (k v : N) (old : list item) : list item :=
  match replace_item k v old with Some l => l | None => old ++ [(k, v)] end.

Lemma new_items_assoc : forall k v old k',
  assoc k' (new_items k v old) = if k' =? k then Some v else assoc k' old.
Proof.
  intros k v old k'. unfold new_items.
  destruct (replace_item k v old) as [l|] eqn:R.
  - apply (replace_item_assoc k v old l k' R).
  - rewrite assoc_app_new. apply replace_item_None in R.
    destruct (N.eqb_spec k' k) as [E|E].
    + subst k'. rewrite R. reflexivity.
    + destruct (assoc k' old); reflexivity.
Qed.

Lemma new_items_keys : forall k v old,
  map fst (new_items k v old) = map fst old \/
  (~ In k (map fst old) /\ map fst (new_items k v old) = map fst old ++ [k]).
Proof.
  intros k v old. unfold new_items.
  destruct (replace_item k v old) as [l|] eqn:R.
  - left. apply (replace_item_keys k v old l R).
  - right. split.
    + apply assoc_None_notin. apply (replace_item_None k v old R).
    + rewrite map_app. reflexivity.
Qed.

Lemma NoDup_snoc : forall (l : list N) k, NoDup l -> ~ In k l -> NoDup (l ++ [k]).
Proof.
  intros l k HN. induction HN as [|x r Hx Hr IH]; intros Hk; cbn [app].
  - constructor; [intros []|constructor].
  - constructor.
    + intros HI. apply in_app_or in HI. destruct HI as [HI|[HI|[]]].
      * exact (Hx HI).
      * apply Hk. left. symmetry. exact HI.
    + apply IH. intros HI. apply Hk. right. exact HI.
Qed.

(* ---------- well-formedness ---------- *)

Record dm_wf (m : dmap) : Prop := mkWf {
  (* every slot address is a valid index into the heap *)
  wf_addr : Forall (fun ba => (N.to_nat (snd ba) < length (heap m))%nat) (slots m);
  (* the array stored for bucket b only holds keys hashing to b *)
  wf_bucket : forall b, Forall (fun it => bucket (fst it) = b) (slot_items m b);
  (* keys within one array are distinct *)
  wf_nodup : forall b, NoDup (map fst (slot_items m b))
}.

Lemma dm_empty_wf : dm_wf dm_empty.
Proof.
  constructor; cbn.
  - constructor.
  - intros b. constructor.
  - intros b. constructor.
Qed.

Lemma wf_addr_assoc : forall m b a,
  dm_wf m -> assoc b (slots m) = Some a -> (N.to_nat a < length (heap m))%nat.
Proof.
  intros m b a Hwf H. apply assoc_In in H.
  pose proof (wf_addr m Hwf) as HF. rewrite Forall_forall in HF. apply (HF (b, a) H).
Qed.

(* what the slots look like after a (non-trivial) Set *)
Definition dm_set' (m : dmap) (k v : N) : dmap :=
  mkDmap (heap m ++ [new_items k v (slot_items m (bucket k))])
         (set_slot (bucket k) (N.of_nat (length (heap m))) (slots m)).

Lemma dm_set_unfold : forall m k v,
  dm_set m k v = if dm_get m k =? v then m else dm_set' m k v.
Proof. reflexivity. Qed.

Lemma slot_items_set'_same : forall m k v,
  slot_items (dm_set' m k v) (bucket k) = new_items k v (slot_items m (bucket k)).
Proof.
  intros m k v. unfold slot_items at 1. unfold dm_set'. cbn [slots heap].
  rewrite assoc_set_slot_same, Nat2N.id, app_nth2 by lia.
  rewrite Nat.sub_diag. reflexivity.
Qed.

Lemma slot_items_set'_other : forall m k v b,
  dm_wf m -> b <> bucket k -> slot_items (dm_set' m k v) b = slot_items m b.
Proof.
  intros m k v b Hwf Hne. unfold slot_items, dm_set'. cbn [slots heap].
  rewrite assoc_set_slot_other by exact Hne.
  destruct (assoc b (slots m)) as [a|] eqn:A; [|reflexivity].
  apply app_nth1. apply (wf_addr_assoc m b a Hwf A).
Qed.

Lemma dm_set'_wf : forall m k v, dm_wf m -> dm_wf (dm_set' m k v).
Proof.
  intros m k v Hwf. constructor.
  - unfold dm_set'. cbn [slots heap]. rewrite app_length. cbn [length].
    apply set_slot_Forall.
    + cbn [snd]. rewrite Nat2N.id. lia.
    + eapply Forall_impl; [|exact (wf_addr m Hwf)]. intros ba H. cbn beta in *. lia.
  - intros b. destruct (N.eq_dec b (bucket k)) as [E|E].
    + subst b. rewrite slot_items_set'_same. unfold new_items.
      pose proof (wf_bucket m Hwf (bucket k)) as HB.
      destruct (replace_item k v (slot_items m (bucket k))) as [l|] eqn:R.
      * apply Forall_forall. intros [k0 v0] HI. cbn [fst].
        assert (HK : In k0 (map fst l)) by (apply (in_map fst l (k0, v0) HI)).
        rewrite (replace_item_keys _ _ _ _ R) in HK.
        apply in_map_iff in HK. destruct HK as [[k1 v1] [E1 HI1]]. cbn [fst] in E1. subst k1.
        rewrite Forall_forall in HB. apply (HB (k0, v1) HI1).
      * apply Forall_app. split; [exact HB|]. constructor; [reflexivity | constructor].
    + rewrite slot_items_set'_other by assumption. apply (wf_bucket m Hwf).
  - intros b. destruct (N.eq_dec b (bucket k)) as [E|E].
    + subst b. rewrite slot_items_set'_same.
      pose proof (wf_nodup m Hwf (bucket k)) as HN.
      destruct (new_items_keys k v (slot_items m (bucket k))) as [HK|[Hnot HK]]; rewrite HK.
      * exact HN.
      * apply NoDup_snoc; assumption.
    + rewrite slot_items_set'_other by assumption. apply (wf_nodup m Hwf).
Qed.

Lemma dm_set_wf : forall m k v, dm_wf m -> dm_wf (dm_set m k v).
Proof.
  intros m k v Hwf. rewrite dm_set_unfold.
  destruct (dm_get m k =? v); [exact Hwf | apply dm_set'_wf; exact Hwf].
Qed.

(* ---------- get after set ---------- *)

Lemma dm_get_set' : forall m k v k',
  dm_wf m -> dm_get (dm_set' m k v) k' = if k' =? k then v else dm_get m k'.
Proof.
  intros m k v k' Hwf. unfold dm_get.
  destruct (N.eq_dec (bucket k') (bucket k)) as [E|E].
  - rewrite E, slot_items_set'_same, new_items_assoc.
    destruct (k' =? k); reflexivity.
  - rewrite slot_items_set'_other by assumption.
    destruct (N.eqb_spec k' k) as [E'|E']; [subst; congruence | reflexivity].
Qed.

(* v <> 0 is not needed in this model: the early return fires only when the
   map already answers v for k, and then the right-hand side is unchanged *)
Theorem dm_get_set_gen : forall m k v k',
  dm_wf m -> dm_get (dm_set m k v) k' = if k' =? k then v else dm_get m k'.
Proof.
  intros m k v k' Hwf. rewrite dm_set_unfold.
  destruct (N.eqb_spec (dm_get m k) v) as [E|E].
  - destruct (N.eqb_spec k' k) as [E'|E']; [subst; reflexivity | reflexivity].
  - apply dm_get_set'. exact Hwf.
Qed.

Theorem dm_get_set : forall m k v k',
  v <> 0 -> dm_wf m -> dm_get (dm_set m k v) k' = if k' =? k then v else dm_get m k'.
Proof. intros m k v k' _ Hwf. apply dm_get_set_gen. exact Hwf. Qed.

(* ---------- refinement of the association list ---------- *)

Theorem dm_refines_gen : forall ops m l,
  dm_wf m -> (forall k, dm_get m k = abs_get k l) -> dm_run m ops = abs_run l ops.
Proof.
  induction ops as [|[[o k] v] r IH]; intros m l Hwf Hrel; cbn [dm_run abs_run]; [reflexivity|].
  destruct (o =? 0).
  - apply IH; [apply dm_set_wf; exact Hwf|].
    intros k'. rewrite dm_get_set_gen by exact Hwf. cbn [abs_get].
    destruct (k' =? k); [reflexivity | apply Hrel].
  - f_equal; [apply Hrel | apply IH; assumption].
Qed.

Definition sets_nonzero (ops : list (N * N * N)) : Prop :=
  Forall (fun op => fst (fst op) = 0 -> snd op <> 0) ops.

Theorem dm_refines : forall ops m l,
  dm_wf m -> (forall k, dm_get m k = abs_get k l) -> sets_nonzero ops ->
  dm_run m ops = abs_run l ops.
Proof. intros ops m l Hwf Hrel _. apply dm_refines_gen; assumption. Qed.

Corollary dm_refines_empty : forall ops, dm_run dm_empty ops = abs_run [] ops.
Proof. intros ops. apply dm_refines_gen; [apply dm_empty_wf | reflexivity]. Qed.

(* ---------- copy-on-write ---------- *)

Theorem dm_set_heap_prefix : forall m k v, exists ext, heap (dm_set m k v) = heap m ++ ext.
Proof.
  intros m k v. unfold dm_set. destruct (dm_get m k =? v).
  - exists []. symmetry. apply app_nil_r.
  - cbn [heap]. eexists. reflexivity.
Qed.

Theorem dm_set_heap_stable : forall m k v a,
  (a < length (heap m))%nat -> nth a (heap (dm_set m k v)) [] = nth a (heap m) [].
Proof.
  intros m k v a Ha. destruct (dm_set_heap_prefix m k v) as [ext E]. rewrite E.
  apply app_nth1. exact Ha.
Qed.

Definition dm_sets (m : dmap) (kvs : list (N * N)) : dmap :=
  fold_left (fun m kv => dm_set m (fst kv) (snd kv)) kvs m.

Theorem dm_sets_heap_prefix : forall kvs m, exists ext, heap (dm_sets m kvs) = heap m ++ ext.
Proof.
  unfold dm_sets. induction kvs as [|[k v] r IH]; intros m; cbn [fold_left fst snd].
  - exists []. symmetry. apply app_nil_r.
  - destruct (IH (dm_set m k v)) as [e2 E2]. destruct (dm_set_heap_prefix m k v) as [e1 E1].
    exists (e1 ++ e2). rewrite E2, E1, app_assoc. reflexivity.
Qed.

Theorem dm_sets_heap_stable : forall kvs m a,
  (a < length (heap m))%nat -> nth a (heap (dm_sets m kvs)) [] = nth a (heap m) [].
Proof.
  intros kvs m a Ha. destruct (dm_sets_heap_prefix kvs m) as [ext E]. rewrite E.
  apply app_nth1. exact Ha.
Qed.

Lemma dm_sets_wf : forall kvs m, dm_wf m -> dm_wf (dm_sets m kvs).
Proof.
  unfold dm_sets. induction kvs as [|[k v] r IH]; intros m Hwf; cbn [fold_left fst snd]; [exact Hwf|].
  apply IH. apply dm_set_wf. exact Hwf.
Qed.

(* a reader that loaded a slot address before any number of later Sets still
   sees the same array behind it *)
Corollary dm_sets_reader_stable : forall kvs m b a,
  dm_wf m -> assoc b (slots m) = Some a ->
  nth (N.to_nat a) (heap (dm_sets m kvs)) [] = slot_items m b.
Proof.
  intros kvs m b a Hwf A. rewrite dm_sets_heap_stable by (apply (wf_addr_assoc m b a Hwf A)).
  unfold slot_items. rewrite A. reflexivity.
Qed.

Print Assumptions dm_empty_wf.
Print Assumptions dm_set_wf.
Print Assumptions dm_get_set.
Print Assumptions dm_get_set_gen.
Print Assumptions dm_refines.
Print Assumptions dm_refines_gen.
Print Assumptions dm_set_heap_prefix.
Print Assumptions dm_set_heap_stable.
Print Assumptions dm_sets_heap_prefix.
Print Assumptions dm_sets_heap_stable.
Print Assumptions dm_sets_reader_stable.
