(* Encode.v -- implementation-shaped model of the encoder (append*.go) and of
   the independent size walk (ttype.go EncodedSize / encodedMapSize /
   encodedListSize, desc.go tField.EncodedSize). *)
From Coq Require Import List NArith Bool.
From Frugal Require Import Bytes Wire Values Desc Spec Routines.
From Frugal.gen Require Import Params Tables.
Import ListNotations.
Open Scope N_scope.

(* ---- routine lookup (append_list.go updateListAppendFunc, append_map.go updateMapAppendFunc) ---- *)
Fixpoint assocN {A} (k : N) (l : list (N * A)) : option A :=
  match l with
  | [] => None
  | (k', a) :: r => if k =? k' then Some a else assocN k r
  end.

Fixpoint lookup_kv (k v : N) (tab : list (N * N * N)) : option N :=
  match tab with
  | [] => None
  | (k', v', r) :: rest => if (k =? k') && (v =? v') then Some r else lookup_kv k v rest
  end.

Definition bad_mr : mroutine := mkMR ItBad WrBad WrBad false.
Definition bad_lr : lroutine := mkLR WrBad false.

(* updateMapAppendFunc: table lookup by (K.T, V.T); []byte values take the
   default routine when the guard is present (map_binary_generic) *)
Definition map_routine (kt vt : ty) : mroutine :=
  let id := if map_binary_generic && is_binary vt then map_default
            else match lookup_kv (kind kt) (kind vt) map_dispatch_tab with
                 | Some r => r
                 | None => map_default
                 end in
  match assocN id map_routines with Some r => r | None => bad_mr end.

Definition list_routine (ek : N) : lroutine :=
  let id := match assocN ek list_dispatch_tab with Some r => r | None => list_default end in
  match assocN id list_routines with Some r => r | None => bad_lr end.

(* ---- writers ---- *)
(* appendAny / appendStruct: switch t.T for SimpleType (table read from append.go) *)
Definition simple_wr (k : N) : wr :=
  match assocN k simple_wr_tab with Some w => w | None => WrBad end.

Definition wr_apply (w : wr) (v : val) : list N :=
  match w, v with
  | WrBool, VS x => [if x =? 0 then 0 else 1]
  | WrByte, VS x => [x mod 256]
  | WrU16, VS x => be_put 2 x
  | WrU32, VS x => be_put 4 x
  | WrU64, VS x => be_put 8 x
  | WrEnum, VS x => be_put 4 (low32 x)
  | WrStr, VB _ s => be_put 4 (len s) ++ s
  | _, _ => []
  end.

Definition opt_list {A} (o : option (list A)) : list A :=
  match o with Some l => l | None => [] end.

Fixpoint append_any (env : senv) (t : ty) (v : val) {struct v} : list N :=
  match v with
  | VS _ | VB _ _ => wr_apply (simple_wr (kind t)) v
  | VP None => [tSTOP]                                       (* appendStruct with base == nil *)
  | VP (Some v') => match t with TPtr t' => append_any env t' v' | _ => [] end
  | VL ol =>
      match t with
      | TList _ e =>
          let r := list_routine (kind e) in
          if l_shape r then
            match ol with
            | None => wt e :: be_put 4 0
            | Some l =>
                wt e :: be_put 4 (len l)
                ++ cat_map (fun x => match l_elem r with
                                     | WrFunc | WrAny => append_any env e x
                                     | w => wr_apply w x
                                     end) l
            end
          else []
      | _ => []
      end
  | VM om =>
      match t with
      | TMap kt vt =>
          let r := map_routine kt vt in
          if m_shape r then
            match om with
            | None => wt kt :: wt vt :: be_put 4 0
            | Some m =>
                wt kt :: wt vt :: be_put 4 (len m)
                ++ cat_map (fun kv : val * val =>
                              match m_key r with
                              | WrFunc | WrAny => append_any env kt (fst kv)
                              | w => wr_apply w (fst kv)
                              end
                              ++ match m_val r with
                                 | WrFunc | WrAny => append_any env vt (snd kv)
                                 | w => wr_apply w (snd kv)
                                 end) m
            end
          else []
      | _ => []
      end
  | VT fs h =>
      match t with
      | TStruct sid =>
          match lookup_sd env sid with
          | Some sd =>
              fields_cat (fun f v' =>
                            if can_skip_nil f && is_nil v' then []
                            else if can_skip_default f
                                    && match fdflt f with Some d => go_equal (fty f) d v' | None => false end
                                 then []
                                 else wt (fty f) :: be_put 2 (fid f) ++ append_any env (fty f) v')
                         (sfields sd) fs
              ++ (if sholder sd then h else []) ++ [tSTOP]
          | None => []
          end
      | _ => []
      end
  end.

(* reflect.Append on a struct of type sid *)
Definition append_struct (env : senv) (sid : N) (v : val) : list N := append_any env (TStruct sid) v.

(* ---- the size walk ---- *)
Section ZipSum.
  Variable g : field -> val -> N.
  Fixpoint fields_sum (fds : list field) (vs : list val) {struct vs} : N :=
    match vs, fds with
    | v :: vr, fd :: fr => g fd v + fields_sum fr vr
    | _, _ => 0
    end.
End ZipSum.

Section SumMap.
  Variable A : Type.
  Variable g : A -> N.
  Fixpoint sum_map (l : list A) : N :=
    match l with [] => 0 | x :: r => g x + sum_map r end.
End SumMap.
Arguments sum_map {A} g l.

Definition str_size (v : val) : N :=
  match v with VB _ s => strHeaderLen + len s | _ => 0 end.

(* tType.EncodedSizeFunc for tLIST/tSET/tMAP/tSTRUCT, plus the string special
   cases of the callers; [v] is the value stored at p *)
Fixpoint enc_size (env : senv) (t : ty) (v : val) {struct v} : N :=
  match v with
  | VS _ => fixed_size t
  | VB _ _ => str_size v
  | VP None => 1                                   (* nil struct pointer: tSTOP *)
  | VP (Some v') => match t with TPtr t' => enc_size env t' v' | _ => 0 end
  | VL None => listHeaderLen
  | VL (Some l) =>
      match t with
      | TList _ e =>
          if 0 <? fixed_size e then listHeaderLen + len l * fixed_size e
          else listHeaderLen + sum_map (fun x => if kind e =? tSTRING then str_size x else enc_size env e x) l
      | _ => 0
      end
  | VM None => mapHeaderLen
  | VM (Some m) =>
      match t with
      | TMap kt vt =>
          let l := len m in
          if l =? 0 then mapHeaderLen
          else
            let doneK := 0 <? fixed_size kt in
            let doneV := 0 <? fixed_size vt in
            let ret := mapHeaderLen + (if doneK then l * fixed_size kt else 0)
                       + (if doneV then l * fixed_size vt else 0) in
            if doneK && doneV then ret
            else
              ret + sum_map (fun kv : val * val =>
                               (if doneK then 0
                                else if kind kt =? tSTRING then str_size (fst kv)
                                     else enc_size env kt (fst kv))
                               + (if doneV then 0
                                  else if kind vt =? tSTRING then str_size (snd kv)
                                       else enc_size env vt (snd kv))) m
      | _ => 0
      end
  | VT fs h =>
      match t with
      | TStruct sid =>
          match lookup_sd env sid with
          | Some sd =>
              fixed_len_field_size sd
              + fields_sum (fun f v' =>
                              if negb (field_fixed_size f =? 0) then 0    (* not in varLenFields *)
                              else if can_skip_nil f && is_nil v' then 0
                              else if can_skip_default f
                                      && match fdflt f with Some d => go_equal (fty f) d v' | None => false end
                                   then 0
                              else if 0 <? fixed_size (fty f) then fieldHeaderLen + fixed_size (fty f)
                              else if kind (fty f) =? tSTRING then
                                     fieldHeaderLen + str_size (match v' with VP (Some x) => x | _ => v' end)
                              else fieldHeaderLen + enc_size env (fty f) v')
                           (sfields sd) fs
              + (if sholder sd then len h else 0) + 1
          | None => 0
          end
      | _ => 0
      end
  end.

Definition encoded_size (env : senv) (sid : N) (v : val) : N := enc_size env (TStruct sid) v.

(* ---- frugal.EncodeObject: the caller's buffer ---- *)
(* The caller's backing array is [arr]; buf = arr[0:blen] (capacity = length
   arr).  After the F7 repair the encoder appends into buf[:0:len(buf)]: bytes
   beyond blen are never written; when the message does not fit, Go's append
   moves to a fresh array and the first blen bytes of the old one keep what
   had been written before the move -- modelled as "some prefix of the
   message", the bytes at index >= blen untouched. *)
Inductive enc_res :=
| EncOk (n : N) (arr' : list N)
| EncErr (arr' : list N).

Definition encode_object (env : senv) (sid : N) (arr : list N) (blen : N) (v : val) : enc_res :=
  let out := append_struct env sid v in
  if len out <=? blen then EncOk (len out) (out ++ skipn (length out) arr)
  else EncErr arr.
