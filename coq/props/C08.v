(* C08 -- safe for concurrent use, including first use of a type.
   PARTIAL: the theorem is about the interleaving model of Conc.v (atomic steps: lock-free lookup,
   lock, recheck, build, publish, unlock); that sync.Mutex, atomic.Pointer and sync.Pool provide
   what those steps assume, and preemption inside a modelled step, are outside the model.  The shape
   of Get / Set / createStructDesc and the lock discipline of the plain maps are re-read from the
   source on every run (access_ok). *)
From Coq Require Import List NArith Bool.
From Frugal Require Import Bytes Wire Skip Values Desc Spec Encode Decode Checks Tags State Bitset Alloc DescMap Conc LegacyDefs.
From Frugal.gen Require Import Params.
From Frugal.proofs Require Import GenAccess LockReach DescMapProofs ConcProofs.
From Frugal.props Require Import Examples.
From Frugal Require Import DisciplineChecks.
From Frugal.proofs Require Import GenPools.
Import ListNotations.

(* for any number of goroutines, any keys (several may first-use the same type) and ANY schedule: *)
(* every call gets the descriptor a sequential execution gives *)
Theorem C08_sequential_results : forall keys sched, Forall (fun k => k <> 0%N) keys ->
  let s := run (init keys) sched in
  forall i t d, nth_error (c_threads s) i = Some t -> th_pc t = PDone d -> d = build (th_key t).
Proof. exact sequential_results. Qed.
Print Assumptions C08_sequential_results.

(* the unsynchronised maps are only touched by the holder of the mutex *)
Theorem C08_plain_maps_locked : forall keys sched i h, In (i, h) (c_log (run (init keys) sched)) -> h = Some i.
Proof. exact plain_maps_locked. Qed.

(* an item array reachable from a slot is never written after publication *)
Theorem C08_published_immutable : forall keys sched1 sched2,
  let s1 := run (init keys) sched1 in let s2 := run s1 sched2 in
  forall a, (a < length (heap (c_map s1)))%nat -> nth a (heap (c_map s2)) [] = nth a (heap (c_map s1)) [].
Proof. exact published_immutable. Qed.

(* no deadlock, and at most 7 steps per call under any schedule *)
Theorem C08_no_deadlock : forall keys sched, Forall (fun k => k <> 0%N) keys ->
  let s := run (init keys) sched in finished s = false -> exists i s', step s i = Some s'.
Proof. exact no_deadlock. Qed.
Theorem C08_steps_bounded : forall keys sched, (steps_taken (init keys) sched <= 7 * length keys)%nat.
Proof. exact steps_bounded. Qed.
Print Assumptions C08_no_deadlock.

(* the descriptor map is a correct map for every operation sequence *)
Theorem C08_descmap_refines : forall ops m l, dm_wf m -> (forall k, dm_get m k = abs_get k l) ->
  sets_nonzero ops -> dm_run m ops = abs_run l ops.
Proof. exact dm_refines. Qed.

Theorem C08_access_discipline : access_ok = true.
Proof. exact access_ok_holds. Qed.

(* what "locked" means in access_ok: on the call graph the translator read from the source, no call
   path from an exported entry point reaches a function of locked_fns without passing through
   createStructDesc (which takes the registration lock).  The plain maps, the pending lists and
   tType.Sd are touched by functions of locked_fns only (access_ok). *)
Theorem C08_locked_only_below_create : forall q, In q locked_fns -> ~ reach entry_points all_fns edge q.
Proof. exact (locked_not_reached entry_points all_fns edge unlocked_fns locked_fns unlocked_closed_holds locked_disjoint_holds). Qed.
Print Assumptions C08_locked_only_below_create.

Example C08_instance : finished (run (init [5; 5; 65541]%N) (concat (repeat [2; 0; 1; 0]%nat 12))) = true.
Proof. vm_compute. reflexivity. Qed.

(* the side conditions on the generated constants and tables that the theorems above assume hold
   for what the translator read from the sources of this run *)
Theorem C08_side_conditions : access_ok = true.
Proof. exact access_ok_holds. Qed.

(* structural facts about the Go source which the hand-written model builds in (DisciplineChecks.v),
   read from the source by the translator and re-proved on every run *)
Theorem C08_model_assumptions : pools_ok = true.
Proof. exact pools_ok_holds. Qed.
