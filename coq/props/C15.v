(* C15 -- nesting depth is bounded: deep input is an error, not a stack overflow.
   PARTIAL: the theorem bounds the recursion DEPTH (number of nested calls); the stack bytes per Go
   frame are not modelled.  The harness runs the deep cases (up to 10^6 levels) in a child process. *)
From Coq Require Import List NArith Bool.
From Frugal Require Import Bytes Wire Skip Values Desc Spec Encode Decode Checks Tags State Bitset Alloc DescMap Conc LegacyDefs.
From Frugal.gen Require Import Params.
From Frugal.proofs Require Import GenDecParams GenDepth Corollaries.
From Frugal.props Require Import Examples.
From Frugal Require Import DisciplineChecks.
From Frugal.proofs Require Import GenDepthArgs.
Import ListNotations.

(* the decoder recurses on its depth budget: at budget 0 it stops *)
Theorem C15_budget_zero : forall env fuel pool,
  (forall sd bs prior, decode_struct env fuel pool 0 sd bs prior = DErr EDepth) /\
  (forall t bs prior, decode_type env fuel pool 0 t bs prior = DErr EDepth).
Proof. exact budget_zero. Qed.

(* a well-formed message whose only defect is depth beyond the budget is rejected with the depth error
   (types without nocopy fields, for which the accounting is exact) *)
Theorem C15_deep_rejected : forall env pool sid fs rest dst v,
  dec_params_ok = true -> env_ok env = true ->
  (forall sd f, In sd env -> In f (sfields sd) -> fnocopy f = false) ->
  wf (WStruct fs []) = true -> absorb_top env sid (WStruct fs []) dst = AOk v ->
  (skipped_depth env (TStruct sid) (WStruct fs []) <= 63)%nat ->
  (S (N.to_nat maxDepthLimit) < need env (TStruct sid) (WStruct fs []))%nat ->
  decode_object env pool sid (put (WStruct fs []) ++ rest) dst = DErr EDepth.
Proof. exact deep_rejected_top. Qed.
Print Assumptions C15_deep_rejected.

(* messages nested no deeper than 48 levels are never rejected for depth, neither by the decoder
   nor by the skipper of unknown fields *)
Theorem C15_shallow_accepted : forall env pool sid fs rest dst,
  dec_params_ok = true -> depth_ok = true -> env_ok env = true -> wf (WStruct fs []) = true -> (wdepth (WStruct fs []) <= 48)%nat ->
  decode_object env pool sid (put (WStruct fs []) ++ rest) dst <> DErr EDepth /\
  (forall e, decode_object env pool sid (put (WStruct fs []) ++ rest) dst <> DErr (ESkip e)).
Proof. exact shallow_never_depth. Qed.
Print Assumptions C15_shallow_accepted.

(* the constants read from the source leave room for 48 levels *)
Theorem C15_limits : depth_ok = true.
Proof. exact depth_ok_holds. Qed.

Fixpoint chain (n : nat) : tv := match n with O => WStruct [(5, WI32 0)] [] | S k => WStruct [(5, WI32 0); (7, chain k)] [] end.
Example C15_instance :
  (exists v n, decode_object env_ex [] 0 (put (chain 40)) (fresh env_ex 0) = DOk (v, n) [])
  /\ decode_object env_ex [] 0 (put (chain 600)) (fresh env_ex 0) = DErr EDepth.
Proof. split; [eexists; eexists|]; vm_compute; reflexivity. Qed.

(* the side conditions on the generated constants and tables that the theorems above assume hold
   for what the translator read from the sources of this run *)
Theorem C15_side_conditions : dec_params_ok = true /\ depth_ok = true.
Proof. split; [exact dec_params_ok_holds | exact depth_ok_holds]. Qed.

(* structural facts about the Go source which the hand-written model builds in (DisciplineChecks.v),
   read from the source by the translator and re-proved on every run *)
Theorem C15_model_assumptions : depth_args_ok = true.
Proof. exact depth_args_ok_holds. Qed.
