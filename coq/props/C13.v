(* C13 -- unsupported definitions and arguments are rejected cleanly and consistently.
   PARTIAL: "every definition of the enumerated invalid classes is rejected by the resolver" is
   checked per definition (the model's resolver is evaluated on every invalid definition of the
   universe, 140 of them at field / element / key / value / nested position, on every run, and the
   implementation must reject the same ones); it is not proved for the whole inductive family. *)
From Coq Require Import List NArith Bool.
From Frugal Require Import Bytes Wire Skip Values Desc Spec Encode Decode Checks Tags State Bitset Alloc DescMap Conc LegacyDefs Args.
From Frugal.gen Require Import Params.
From Frugal.proofs Require Import GenOk BytesWire EncodeSpec SizeExact SkipPut DecodeSafe DecodeRefines RoundTrip Corollaries StateProofs BitsetProofs AllocProofs DescMapProofs ConcProofs BufferContract.
From Frugal.props Require Import Examples.
Import ListNotations.

(* consistency: in ANY history a type whose definition (or a definition it reaches) does not resolve
   is rejected by all three entry points, identically on every call, leaving no trace *)
Theorem C13_rejected_stable : forall gu h sid,
  accepted_with (resolve_universe gu) sid = false ->
  let st := run_history gu p_init h in
  (forall v junk, snd (api_step gu st (CSize sid v) junk) = OSizePanic) /\
  (forall v arr blen junk, snd (api_step gu st (CEncode sid v arr blen) junk) = ORejected) /\
  (forall bs dst junk, snd (api_step gu st (CDecode sid bs dst) junk) = ORejected) /\
  (forall c junk, match c with CSize s _ | CEncode s _ _ _ | CDecode s _ _ => s = sid | _ => False end ->
                  p_reg (fst (api_step gu st c junk)) = p_reg st).
Proof. exact rejected_stable. Qed.
Print Assumptions C13_rejected_stable.

(* and it does not affect other types: every other call returns what it returns in a fresh process *)
Theorem C13_others_unaffected : forall gu h c junk,
  snd (api_step gu (run_history gu p_init h) c junk) = fresh_outcome gu c.
Proof. exact history_independent. Qed.

(* instances of the invalid classes on the resolver model: unsupported kind, slice without list/set,
   contradicting annotation, broken syntax, pointer to pointer / container, non-numeric and
   out-of-range id, unknown requiredness, unknown option *)
Definition one (t : gotype) (tag : list N) : gostruct := mkGoStruct [83] [mkGoField [70] t tag true false] None.
Definition fr (s : list N) : list N := [102;114;117;103;97;108;58;34] ++ s ++ [34].
Example C13_rejections :
  resolve_fields (one (GUnsup 5) (fr [49])) = RErr
  /\ resolve_fields (one (GSlice GInt32) (fr [49])) = RErr
  /\ resolve_fields (one GInt32 (fr [49;44;100;101;102;97;117;108;116;44;105;54;52])) = RErr
  /\ resolve_fields (one (GSlice GInt32) (fr [49;44;100;101;102;97;117;108;116;44;108;105;115;116;60;105;51;50;62;62])) = RErr
  /\ resolve_fields (one (GPtr (GPtr GInt32)) (fr [49;44;111;112;116;105;111;110;97;108])) = RErr
  /\ resolve_fields (one (GPtr (GSlice GInt32)) (fr [49;44;111;112;116;105;111;110;97;108;44;108;105;115;116;60;105;51;50;62])) = RErr
  /\ resolve_fields (one GInt32 (fr [120;49])) = RErr
  /\ resolve_fields (one GInt32 (fr [54;53;53;51;54])) = RErr
  /\ resolve_fields (one GInt32 (fr [49;44;109;97;110;100;97;116;111;114;121])) = RErr
  /\ resolve_fields (one GString (fr [49;44;100;101;102;97;117;108;116;44;115;116;114;105;110;103;44;122;101;114;111])) = RErr
  /\ resolve_fields (one GInt16 (fr [49;44;100;101;102;97;117;108;116;44;105])) = RErr.
Proof. repeat split; vm_compute; reflexivity. Qed.

(* arguments: anything but a struct or a pointer to a struct is refused by all three entry points
   (EncodedSize by panicking), and DecodeObject moreover insists on a non-nil pointer *)
Theorem C13_bad_argument : forall a,
  (forall nil, a <> APtr nil AStruct) -> a <> AStruct ->
  size_arg a = ArgPanic /\ encode_arg a = ArgError /\ decode_arg a = ArgError.
Proof.
  intros a Hp Hs. destruct a as [| |nil e|]; try (repeat split; reflexivity).
  - contradiction.
  - destruct e; try (destruct nil; repeat split; reflexivity). exfalso. exact (Hp nil eq_refl).
Qed.

Theorem C13_decode_argument : forall a, decode_arg a = ArgProceed <-> a = APtr false AStruct.
Proof.
  intros a. split.
  - destruct a as [| |nil e|]; try discriminate. destruct nil; destruct e; try discriminate. reflexivity.
  - intros ->. reflexivity.
Qed.

Theorem C13_encode_argument : forall a,
  (size_arg a = ArgProceed <-> encode_arg a = ArgProceed)
  /\ (encode_arg a = ArgProceed <-> a = AStruct \/ exists nil, a = APtr nil AStruct).
Proof.
  intros a. split.
  - unfold size_arg, encode_arg. destruct (create_arg_ok a); split; intros H; try reflexivity; discriminate.
  - split.
    + destruct a as [| |nil e|]; try discriminate; [left; reflexivity|].
      destruct e; try (destruct nil; discriminate). intros _. right. exists nil. reflexivity.
    + intros [-> | [nil ->]]; reflexivity.
Qed.
Print Assumptions C13_bad_argument.
