(* C13 -- unsupported definitions and arguments are rejected cleanly and consistently.
   PARTIAL: "every definition of the enumerated invalid classes is rejected by the resolver" is
   checked per definition (the model's resolver is evaluated on every invalid definition of the
   universe, 140 of them at field / element / key / value / nested position, on every run, and the
   implementation must reject the same ones); it is not proved for the whole inductive family. *)
From Coq Require Import List NArith Bool.
From Frugal Require Import Bytes Wire Skip Values Desc Spec Encode Decode Checks Tags State Bitset Alloc DescMap Conc LegacyDefs Args.
From Frugal.gen Require Import Params.
From Frugal.proofs Require Import StateProofs.
From Frugal.proofs Require Import TagsStruct.
From Frugal.props Require Import Examples.
From Frugal.proofs Require Import GenAccess.
Import ListNotations.

(* consistency: in ANY history a type whose definition (or a definition it reaches) does not resolve
   is rejected by all three entry points, identically on every call, leaving no trace *)
Theorem C13_rejected_stable : forall gu h sid,
  accepted_with (resolve_universe gu) sid = false ->
  let st := run_history gu p_init h in
  (forall v junk, snd (api_step gu st (CSize sid v) junk) = OSizePanic) /\
  (forall v arr blen junk, snd (api_step gu st (CEncode sid v arr blen) junk) = ORejected) /\
  (forall bs dst junk, snd (api_step gu st (CDecode sid bs dst) junk) = ORejected) /\
  (forall c junk, match c with CSize s _ | CEncode s _ _ _ | CDecode s _ _ => s = sid | _ => False end ->
                  p_reg (fst (api_step gu st c junk)) = p_reg st).
Proof. exact rejected_stable. Qed.
Print Assumptions C13_rejected_stable.

(* and it does not affect other types: every other call returns what it returns in a fresh process *)
Theorem C13_others_unaffected : forall gu h c junk,
  snd (api_step gu (run_history gu p_init h) c junk) = fresh_outcome gu c.
Proof. exact history_independent. Qed.

(* instances of the invalid classes on the resolver model: unsupported kind, slice without list/set,
   contradicting annotation, broken syntax, pointer to pointer / container, non-numeric and
   out-of-range id, unknown requiredness, unknown option *)
Definition one (t : gotype) (tag : list N) : gostruct := mkGoStruct [83] [mkGoField [70] t tag true false] None.
Definition fr (s : list N) : list N := [102;114;117;103;97;108;58;34] ++ s ++ [34].
Example C13_rejections :
  resolve_fields (one (GUnsup 5) (fr [49])) = RErr
  /\ resolve_fields (one (GSlice GInt32) (fr [49])) = RErr
  /\ resolve_fields (one GInt32 (fr [49;44;100;101;102;97;117;108;116;44;105;54;52])) = RErr
  /\ resolve_fields (one (GSlice GInt32) (fr [49;44;100;101;102;97;117;108;116;44;108;105;115;116;60;105;51;50;62;62])) = RErr
  /\ resolve_fields (one (GPtr (GPtr GInt32)) (fr [49;44;111;112;116;105;111;110;97;108])) = RErr
  /\ resolve_fields (one (GPtr (GSlice GInt32)) (fr [49;44;111;112;116;105;111;110;97;108;44;108;105;115;116;60;105;51;50;62])) = RErr
  /\ resolve_fields (one GInt32 (fr [120;49])) = RErr
  /\ resolve_fields (one GInt32 (fr [54;53;53;51;54])) = RErr
  /\ resolve_fields (one GInt32 (fr [49;44;109;97;110;100;97;116;111;114;121])) = RErr
  /\ resolve_fields (one GString (fr [49;44;100;101;102;97;117;108;116;44;115;116;114;105;110;103;44;122;101;114;111])) = RErr
  /\ resolve_fields (one GInt16 (fr [49;44;100;101;102;97;117;108;116;44;105])) = RErr.
Proof. repeat split; vm_compute; reflexivity. Qed.

(* arguments: anything but a struct or a pointer to a struct is refused by all three entry points
   (EncodedSize by panicking), and DecodeObject moreover insists on a non-nil pointer *)
Theorem C13_bad_argument : forall a,
  (forall nil, a <> APtr nil AStruct) -> a <> AStruct ->
  size_arg a = ArgPanic /\ encode_arg a = ArgError /\ decode_arg a = ArgError.
Proof.
  intros a Hp Hs. destruct a as [| |nil e|]; try (repeat split; reflexivity).
  - contradiction.
  - destruct e; try (destruct nil; repeat split; reflexivity). exfalso. exact (Hp nil eq_refl).
Qed.

Theorem C13_decode_argument : forall a, decode_arg a = ArgProceed <-> a = APtr false AStruct.
Proof.
  intros a. split.
  - destruct a as [| |nil e|]; try discriminate. destruct nil; destruct e; try discriminate. reflexivity.
  - intros ->. reflexivity.
Qed.

Theorem C13_encode_argument : forall a,
  (size_arg a = ArgProceed <-> encode_arg a = ArgProceed)
  /\ (encode_arg a = ArgProceed <-> a = AStruct \/ exists nil, a = APtr nil AStruct).
Proof.
  intros a. split.
  - unfold size_arg, encode_arg. destruct (create_arg_ok a); split; intros H; try reflexivity; discriminate.
  - split.
    + destruct a as [| |nil e|]; try discriminate; [left; reflexivity|].
      destruct e; try (destruct nil; discriminate). intros _. right. exists nil. reflexivity.
    + intros [-> | [nil ->]]; reflexivity.
Qed.
Print Assumptions C13_bad_argument.

(* ---- the invalid classes as theorems on the resolver model (proofs/TagsStruct.v) ---- *)

(* a struct is rejected exactly when one of its fields is, or two fields carry the same id *)
Theorem C13_rejection_characterised : forall gs,
  resolve_fields gs = RErr <->
  (exists gf, In gf (gs_fields gs) /\ resolve_one gf O [] = RErr) \/ dup_id (gs_fields gs).
Proof. exact resolve_fields_err_iff. Qed.
Print Assumptions C13_rejection_characterised.

Theorem C13_duplicate_id : forall gs, dup_id (gs_fields gs) -> resolve_fields gs = RErr.
Proof. exact duplicate_id_rejected. Qed.

(* Go kinds Thrift cannot express, at any depth of the field's type, whatever the annotation *)
Theorem C13_unsupported_kind : forall vt annot def allow,
  has_unsup vt = true -> parse_type vt annot def allow = RErr.
Proof. exact unsupported_kind_rejected. Qed.

(* a slice, at any depth, without a list/set annotation *)
Theorem C13_bare_slice : forall vt def allow, has_list vt = true -> parse_type vt false def allow = RErr.
Proof. exact bare_slice_rejected. Qed.

(* an annotation whose head contradicts the Go type *)
Theorem C13_contradicting_annotation : forall vt def allow tok r,
  read_token def = (tok, r) -> head_ok vt tok (fst (read_token r)) = false ->
  parse_type vt true def allow = RErr.
Proof. exact head_mismatch_rejected. Qed.

Theorem C13_bad_map_key : forall k v annot def allow,
  go_key_ok k = false -> parse_type (GMap k v) annot def allow = RErr.
Proof. exact bad_map_key_rejected. Qed.

Theorem C13_ptr_ptr : forall e annot def allow, parse_type (GPtr (GPtr e)) annot def allow = RErr.
Proof. exact ptr_ptr_rejected. Qed.

(* non-numeric, empty and out-of-range ids; unknown requiredness; unknown or misplaced options *)
Theorem C13_bad_id : forall gf ids ft1 idx seen,
  tagged gf (ids :: ft1) -> parse_uint16 ids = None -> resolve_one gf idx seen = RErr.
Proof. exact bad_id_rejected. Qed.

Theorem C13_id_out_of_range : forall s, 65535 < dvalue s 0 -> parse_uint16 s = None.
Proof. exact parse_uint16_range. Qed.

Theorem C13_unknown_option : forall gf ft idx seen o,
  tagged gf ft -> In o (options ft) -> o <> s_nocopy -> resolve_one gf idx seen = RErr.
Proof. exact unknown_option_rejected. Qed.

Theorem C13_nocopy_nonstring : forall gf ft idx seen,
  tagged gf ft -> options ft <> [] -> go_stringlike (gf_type gf) = false -> resolve_one gf idx seen = RErr.
Proof. exact nocopy_nonstring_rejected. Qed.

(* every type-level rejection rejects the field, hence the struct, hence (C13_rejected_stable) every
   struct that reaches it, on every call *)
Theorem C13_type_error_rejects_field : forall gf ft idx seen,
  tagged gf ft -> parse_type_top (gf_type gf) (annotation ft) = RErr -> resolve_one gf idx seen = RErr.
Proof. exact type_err_rejected. Qed.

Theorem C13_field_error_rejects_struct : forall gs gf i,
  In gf (gs_fields gs) -> resolve_one gf i [] = RErr -> resolve_fields gs = RErr.
Proof. exact resolve_fields_err. Qed.

Theorem C13_rejected_everywhere : forall gu s u gs,
  reach gu s u -> nth_error gu (N.to_nat u) = Some gs -> resolve_fields gs = RErr -> accepted gu s = false.
Proof. exact rejected_everywhere. Qed.
Print Assumptions C13_rejected_everywhere.

(* the registration path of desc.go reads as State.v assumes: one lock around build, rollback on
   failure / commit on success, and publication; nothing deferred outside the lock (Checks.access_ok) *)
Theorem C13_registration_shape : access_ok = true.
Proof. exact access_ok_holds. Qed.
