(* C11 -- unknown fields are preserved byte-for-byte through decode and re-encode. *)
From Coq Require Import List NArith Bool.
From Frugal Require Import Bytes Wire Skip Values Desc Spec Encode Decode Checks Tags State Bitset Alloc DescMap Conc LegacyDefs.
From Frugal.gen Require Import Params.
From Frugal.proofs Require Import GenDecParams GenTables Corollaries.
From Frugal.props Require Import Examples.
From Frugal.proofs Require Import TwoHop UnknownProofs.
From Frugal Require Import Unknown.
From Frugal Require Import DisciplineChecks.
From Frugal.proofs Require Import GenPools.
Import ListNotations.

(* after decoding a well-formed message, the holder is the concatenation, in message order, of
   exactly the fields the schema does not recognise; untouched when there are none or no holder *)
Theorem C11_holder_exact : forall env pool sid sd fs rest fs0 h0 cur h n rest',
  dec_params_ok = true -> env_ok env = true -> wf (WStruct fs []) = true -> lookup_sd env sid = Some sd ->
  (need env (TStruct sid) (WStruct fs []) <= S (N.to_nat maxDepthLimit))%nat ->
  (skipped_depth env (TStruct sid) (WStruct fs []) <= 63)%nat ->
  decode_object env pool sid (put (WStruct fs []) ++ rest) (VT fs0 h0) = DOk (VT cur h, n) rest' ->
  h = (if sholder sd then match put_fields (filter (skipped sd) fs) with [] => h0 | x :: l => x :: l end else h0).
Proof. exact holder_exact_decode. Qed.
Print Assumptions C11_holder_exact.

(* the encoder re-emits the holder verbatim before STOP and EncodedSize counts it *)
Theorem C11_reencoded : forall env sid sd fs h,
  enc_params_ok = true -> tables_ok = true -> env_ok env = true -> lookup_sd env sid = Some sd -> sholder sd = true ->
  has_type env (TStruct sid) (VT fs h) = true ->
  append_struct env sid (VT fs h) = put_fields (emitted env sd fs) ++ h ++ [cSTOP]
  /\ encoded_size env sid (VT fs h) = len (put_fields (emitted env sd fs) ++ h ++ [cSTOP]).
Proof. exact holder_reencoded. Qed.

(* one hop through an intermediary: what it re-emits is the well-formed message made of its known
   fields followed by the unknown ones, byte for byte *)
Theorem C11_one_hop : forall env sid sd fs fs0 cur h,
  enc_params_ok = true -> tables_ok = true -> env_ok env = true -> lookup_sd env sid = Some sd -> sholder sd = true ->
  absorb_top env sid (WStruct fs []) (VT fs0 []) = AOk (VT cur h) ->
  has_type env (TStruct sid) (VT cur h) = true ->
  h = put_fields (filter (skipped sd) fs)
  /\ append_struct env sid (VT cur h) = put (WStruct (emitted env sd cur ++ filter (skipped sd) fs) []).
Proof. exact one_hop. Qed.
Print Assumptions C11_one_hop.

Example C11_instance :
  decode_object env_ex [] 1 (put (WStruct [(40, WStr [1; 2]); (1, WDbl 5); (2, WI32 9); (41, WList false 8 [WI32 3])] [])) (fresh env_ex 1)
  = DOk (VT [VS 5; VB true []; VS 7]
            (put_fields [(40, WStr [1; 2]); (2, WI32 9); (41, WList false 8 [WI32 3])]), 40%N) [].
Proof. vm_compute. reflexivity. Qed.

(* ---- "an intermediary with an older schema loses nothing": the second hop (proofs/TwoHop.v) ----
   sidW is the writer's (newer) struct type, sidR the intermediary's: it has the holder and its
   fields are a subset of the writer's (hop_checks: holder, sub-schema, and the two types'
   default initialisers agree on the shared fields).  The writer's value v is typed, complete,
   has enums within int32 and writes nil struct pointers only to types whose default value
   survives a round trip (hop_value_ok; each of these conditions is necessary, see the
   counterexamples below).  If the intermediary decodes the writer's message to r, then decoding
   the intermediary's re-encoding of r with the writer's schema gives exactly what decoding the
   original message gives: norm_top v.  EncodedSize of r is exact. *)
Theorem C11_two_hops : forall n env pool pool' sidW sidR v r k,
  dec_params_ok = true -> tables_ok = true -> env_ok env = true -> init_ok env = true ->
  hop_checks n env sidW sidR = true -> hop_value_ok env sidW v = true ->
  (2 * vdepth v + 2 <= S (N.to_nat maxDepthLimit))%nat -> (2 * vdepth r + 2 <= S (N.to_nat maxDepthLimit))%nat ->
  decode_object env pool sidR (append_struct env sidW v) (fresh env sidR) = DOk (r, k) [] ->
  decode_object env pool' sidW (append_struct env sidR r) (fresh env sidW)
  = DOk (norm_top env sidW v, len (append_struct env sidR r)) []
  /\ encoded_size env sidR r = len (append_struct env sidR r).
Proof. exact two_hop_impl_checked. Qed.
Print Assumptions C11_two_hops.

(* the same on the reference level: what the intermediary writes is the well-formed message of its
   known fields followed by the unknown ones, and the writer-schema reader cannot tell the difference *)
Theorem C11_two_hops_reference : forall n env sidW sidR v r,
  dec_params_ok = true -> env_ok env = true -> init_ok env = true ->
  hop_checks n env sidW sidR = true -> hop_value_ok env sidW v = true ->
  absorb_top env sidR (denote env (TStruct sidW) v) (fresh env sidR) = AOk r ->
  exists sdR, lookup_sd env sidR = Some sdR
    /\ put (denote env (TStruct sidR) r) = put (hop_message env sdR (denote env (TStruct sidW) v) r)
    /\ absorb_top env sidW (hop_message env sdR (denote env (TStruct sidW) v) r) (fresh env sidW)
       = absorb_top env sidW (denote env (TStruct sidW) v) (fresh env sidW).
Proof. exact two_hop_checked. Qed.

(* non-vacuity: a 9-field writer (required i64, optional string, list, optional map, nil pointer,
   optional pointer, optional i16 at its default, by-value struct, optional list with a default), a
   reader that knows ids 1, 5, 7, 9 and has the holder; both have initialisers *)
Example C11_two_hops_instance :
  hop_checks 4 env_hop 1 2 = true /\ hop_value_ok env_hop 1 v_hop = true
  /\ decode_object env_hop [] 2 (append_struct env_hop 1 v_hop) (fresh env_hop 2) = DOk (r_hop, 85) []
  /\ decode_object env_hop [] 1 (append_struct env_hop 2 r_hop) (fresh env_hop 1)
     = DOk (norm_top env_hop 1 v_hop, 105) [].
Proof. repeat split; vm_compute; reflexivity. Qed.

(* without the holder the unknown field is lost; with initialisers that disagree on a shared field
   the value changes silently (the hypotheses are not decoration) *)
Example C11_needs_holder :
  let v := VT [VS 1; VS 2] [] in
  hop_checks 4 ce_holder_env 0 1 = false
  /\ hop2 ce_holder_env 0 1 v = Some (DOk (VT [VS 0; VS 2] [], 8) [])
  /\ direct ce_holder_env 0 v = DOk (VT [VS 1; VS 2] [], 15) [].
Proof. exact two_hop_needs_holder. Qed.

(* ---- the pooled recorder of skipped extents (internal/reflect/unknownfields.go; Unknown.v) ----
   one decode's use of it -- Reset on acquire, one Add per skipped field, Copy when Size() > 0 --
   returns exactly the extents that decode recorded, in order: nothing of an earlier decode,
   whatever state the pooled object was left in (p), and nothing of the uninitialised allocation
   (junk) *)
Theorem C11_recorder_exact : forall p b adds junk g,
  gather b adds = Some g -> uf_session p b adds junk = Some g.
Proof. exact session_exact. Qed.
Print Assumptions C11_recorder_exact.

Theorem C11_recorder_size : forall p adds,
  uf_size (fold_left (fun q a => uf_add q (fst a) (snd a)) adds (uf_reset p)) = sum_sz adds.
Proof. exact session_size. Qed.

(* the side conditions on the generated constants and tables that the theorems above assume hold
   for what the translator read from the sources of this run *)
(* [enc_params_ok], which C11_reencoded and C11_one_hop assume, is part of [dec_params_ok] (ParamsSplit.dec_enc) *)
Theorem C11_side_conditions : dec_params_ok = true /\ tables_ok = true.
Proof. split; [exact dec_params_ok_holds | exact tables_ok_holds]. Qed.

(* structural facts about the Go source which the hand-written model builds in (DisciplineChecks.v),
   read from the source by the translator and re-proved on every run *)
Theorem C11_model_assumptions : pools_ok = true.
Proof. exact pools_ok_holds. Qed.

