(* C11 -- unknown fields are preserved byte-for-byte through decode and re-encode. *)
From Coq Require Import List NArith Bool.
From Frugal Require Import Bytes Wire Skip Values Desc Spec Encode Decode Checks Tags State Bitset Alloc DescMap Conc LegacyDefs.
From Frugal.gen Require Import Params.
From Frugal.proofs Require Import GenOk BytesWire EncodeSpec SizeExact SkipPut DecodeSafe DecodeRefines RoundTrip Corollaries StateProofs BitsetProofs AllocProofs DescMapProofs ConcProofs BufferContract.
From Frugal.props Require Import Examples.
Import ListNotations.

(* after decoding a well-formed message, the holder is the concatenation, in message order, of
   exactly the fields the schema does not recognise; untouched when there are none or no holder *)
Theorem C11_holder_exact : forall env pool sid sd fs rest fs0 h0 cur h n rest',
  params_ok = true -> env_ok env = true -> wf (WStruct fs []) = true -> lookup_sd env sid = Some sd ->
  (need env (TStruct sid) (WStruct fs []) <= S (N.to_nat maxDepthLimit))%nat ->
  (skipped_depth env (TStruct sid) (WStruct fs []) <= 63)%nat ->
  decode_object env pool sid (put (WStruct fs []) ++ rest) (VT fs0 h0) = DOk (VT cur h, n) rest' ->
  h = (if sholder sd then match put_fields (filter (skipped sd) fs) with [] => h0 | x :: l => x :: l end else h0).
Proof. exact holder_exact_decode. Qed.
Print Assumptions C11_holder_exact.

(* the encoder re-emits the holder verbatim before STOP and EncodedSize counts it *)
Theorem C11_reencoded : forall env sid sd fs h,
  params_ok = true -> tables_ok = true -> env_ok env = true -> lookup_sd env sid = Some sd -> sholder sd = true ->
  has_type env (TStruct sid) (VT fs h) = true ->
  append_struct env sid (VT fs h) = put_fields (emitted env sd fs) ++ h ++ [cSTOP]
  /\ encoded_size env sid (VT fs h) = len (put_fields (emitted env sd fs) ++ h ++ [cSTOP]).
Proof. exact holder_reencoded. Qed.

(* one hop through an intermediary: what it re-emits is the well-formed message made of its known
   fields followed by the unknown ones, byte for byte *)
Theorem C11_one_hop : forall env sid sd fs fs0 cur h,
  params_ok = true -> tables_ok = true -> env_ok env = true -> lookup_sd env sid = Some sd -> sholder sd = true ->
  absorb_top env sid (WStruct fs []) (VT fs0 []) = AOk (VT cur h) ->
  has_type env (TStruct sid) (VT cur h) = true ->
  h = put_fields (filter (skipped sd) fs)
  /\ append_struct env sid (VT cur h) = put (WStruct (emitted env sd cur ++ filter (skipped sd) fs) []).
Proof. exact one_hop. Qed.
Print Assumptions C11_one_hop.

Example C11_instance :
  decode_object env_ex [] 1 (put (WStruct [(40, WStr [1; 2]); (1, WDbl 5); (2, WI32 9); (41, WList false 8 [WI32 3])] [])) (fresh env_ex 1)
  = DOk (VT [VS 5; VB true []; VS 7]
            (put_fields [(40, WStr [1; 2]); (2, WI32 9); (41, WList false 8 [WI32 3])]), 40%N) [].
Proof. vm_compute. reflexivity. Qed.
