(* Examples.v -- one concrete, non-trivial environment and value on which the
   hypotheses of the property theorems are checked to hold (non-vacuity). *)
From Coq Require Import List NArith Bool.
From Frugal Require Import Bytes Wire Values Desc Spec Encode Decode Checks.
From Frugal.gen Require Import Params.
Import ListNotations.
Open Scope N_scope.

(* struct 0: recursive, every field form; struct 1: required double, binary, holder *)
Definition env_ex : senv :=
  [ mkSdesc
      [ mkField 1 TI32 RDefault false None;
        mkField 2 TString ROptional true None;
        mkField 3 (TList false (TPtr (TStruct 1))) RDefault false None;
        mkField 4 (TMap TString TI64) ROptional false None;
        mkField 5 TEnum RRequired false None;
        mkField 7 (TPtr (TStruct 0)) ROptional false None;
        mkField 300 (TList true TDouble) RDefault false None ]
      false None;
    mkSdesc
      [ mkField 1 TDouble RRequired false (Some (VS 0));
        mkField 2 TBinary RDefault false (Some (VB true []));
        mkField 9 TI16 ROptional false (Some (VS 7)) ]
      true (Some [(2%nat, VS 7)]) ].

Definition v_inner : val := VT [VS 0; VB false []; VL None; VM None; VS 3; VP None; VL (Some [])] [].
Definition v_ex : val :=
  VT [ VS 7; VB false [104; 105];
       VL (Some [VP (Some (VT [VS 4614253070214989087; VB false [1; 2]; VS 7] []));
                 VP (Some (VT [VS 9221120237041090561; VB true []; VS 65535] []))]);
       VM (Some [(VB false [107], VS 5); (VB false [], VS 18446744073709551615)]);
       VS 18446744073709551615;
       VP (Some v_inner);
       VL (Some [VS 9223372036854775808; VS 0]) ] [].

Example ex_env : env_ok env_ex = true /\ init_ok env_ex = true. Proof. split; vm_compute; reflexivity. Qed.
Example ex_typed : has_type env_ex (TStruct 0) v_ex = true. Proof. vm_compute. reflexivity. Qed.
Example ex_hyps : Spec.holders_empty v_ex = true /\ enums32 env_ex (TStruct 0) v_ex = true
                  /\ req_complete env_ex (TStruct 0) v_ex = true /\ (2 * vdepth v_ex + 1 <= S (N.to_nat maxDepthLimit))%nat.
Proof. repeat split; vm_compute; try reflexivity. repeat constructor. Qed.
