(* C02 -- the encoder output is the Thrift Binary encoding of the value. *)
From Coq Require Import List NArith Bool.
From Frugal Require Import Bytes Wire Skip Values Desc Spec Encode Decode Checks Tags State Bitset Alloc DescMap Conc LegacyDefs.
From Frugal.gen Require Import Params.
From Frugal.proofs Require Import GenEncParams GenTables BytesWire EncodeSpec.
From Frugal.props Require Import Examples.
From Frugal Require Import DisciplineChecks.
From Frugal.proofs Require Import GenEqual.
Import ListNotations.

Theorem C02_encode_is_put_denote : forall env sid v,
  enc_params_ok = true -> tables_ok = true -> env_ok env = true -> has_type env (TStruct sid) v = true ->
  append_struct env sid v = put (denote env (TStruct sid) v).
Proof. exact encode_refines. Qed.
Print Assumptions C02_encode_is_put_denote.

(* the denotation is a well-formed wire struct ... *)
Theorem C02_denote_wf : forall env sid v,
  has_type env (TStruct sid) v = true -> EncodeSpec.holders_empty v = true -> enc_params_ok = true -> env_ok env = true ->
  wf (denote env (TStruct sid) v) = true.
Proof. exact denote_wf_struct. Qed.
Print Assumptions C02_denote_wf.

(* ... with the declared wire code at every level (enum as i32, binary as string, set / list) ... *)
Theorem C02_declared_codes : forall env, enc_params_ok = true -> forall v t,
  has_type env t v = true -> EncodeSpec.slot_ok env t v = true -> code_of (denote env t v) = wt t.
Proof. exact code_of_denote. Qed.

(* ... and every well-formed wire value is read back exactly by the independent reference reader *)
Theorem C02_parses_back : forall w d rest, wf w = true -> (wdepth w < d)%nat ->
  get d (code_of w) (put w ++ rest) = POk w rest.
Proof. exact get_put. Qed.
Print Assumptions C02_parses_back.

(* the specialised routines registered in the source write what the generic path writes *)
Theorem C02_dispatch_sound : tables_ok = true.
Proof. exact tables_ok_holds. Qed.

Example C02_instance : append_struct env_ex 0 v_ex = put (denote env_ex (TStruct 0) v_ex)
  /\ parse_struct 64 (append_struct env_ex 0 v_ex) = POk (denote env_ex (TStruct 0) v_ex) [].
Proof. split; vm_compute; reflexivity. Qed.

(* the side conditions on the generated constants and tables that the theorems above assume hold
   for what the translator read from the sources of this run *)
Theorem C02_side_conditions : enc_params_ok = true /\ tables_ok = true.
Proof. split; [exact enc_params_ok_holds | exact tables_ok_holds]. Qed.

(* structural facts about the Go source which the hand-written model builds in (DisciplineChecks.v),
   read from the source by the translator and re-proved on every run *)
Theorem C02_model_assumptions : equal_ok = true.
Proof. exact equal_ok_holds. Qed.

