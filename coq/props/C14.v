(* C14 -- nocopy fields view the input buffer exactly; nothing else does.
   PARTIAL: addresses are not part of the executable model (the decoder model is value-level); the
   model only establishes that a nocopy field decodes to the same VALUE as an ordinary one.  The
   property itself (same address, len = cap, no other field references the buffer) is decided by the
   correspondence: the harness walks every pointer / slice / string of the decoded object, and flips
   the bytes of the input inside and outside the nocopy values. *)
From Coq Require Import List NArith Bool.
From Frugal Require Import Bytes Wire Skip Values Desc Spec Encode Decode Checks Tags State Bitset Alloc DescMap Conc LegacyDefs.
From Frugal.gen Require Import Params.
From Frugal.proofs Require Import GenDecParams Corollaries.
From Frugal.props Require Import Examples.
Import ListNotations.

(* value level: the reference decoder does not distinguish nocopy fields, and the byte-level decoder
   equals it (the nocopy branch of the field loop is covered by the proof of C03_decode_is_absorb) *)
Theorem C14_same_value : forall env pool sid fs rest dst,
  dec_params_ok = true -> env_ok env = true -> wf (WStruct fs []) = true ->
  (need env (TStruct sid) (WStruct fs []) <= S (N.to_nat maxDepthLimit))%nat ->
  (skipped_depth env (TStruct sid) (WStruct fs []) <= 63)%nat ->
  decode_object env pool sid (put (WStruct fs []) ++ rest) dst
  = top_dres (absorb_top env sid (WStruct fs []) dst) (len (put (WStruct fs []))) rest.
Proof. exact decode_exact. Qed.
Print Assumptions C14_same_value.

(* field 2 of struct 0 is a nocopy string *)
Example C14_instance :
  decode_object env_ex [] 0 (put (WStruct [(2, WStr [120; 121]); (5, WI32 0)] [])) (fresh env_ex 0)
  = DOk (VT [VS 0; VB false [120; 121]; VL None; VM None; VS 0; VP None; VL None] [], 17%N) [].
Proof. vm_compute. reflexivity. Qed.

(* the side conditions on the generated constants and tables that the theorems above assume hold
   for what the translator read from the sources of this run *)
Theorem C14_side_conditions : dec_params_ok = true.
Proof. exact dec_params_ok_holds. Qed.

