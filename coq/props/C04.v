(* C04 -- EncodedSize is exact and EncodeObject honours the buffer contract. *)
From Coq Require Import List NArith Bool.
From Frugal Require Import Bytes Wire Skip Values Desc Spec Encode Decode Checks Tags State Bitset Alloc DescMap Conc LegacyDefs.
From Frugal.gen Require Import Params.
From Frugal.proofs Require Import GenEncParams GenTables SizeExact BufferContract.
From Frugal.props Require Import Examples.
Import ListNotations.

Theorem C04_size_exact : forall env sid v,
  enc_params_ok = true -> tables_ok = true -> env_ok env = true -> has_type env (TStruct sid) v = true ->
  encoded_size env sid v = len (append_struct env sid v).
Proof. exact size_exact. Qed.
Print Assumptions C04_size_exact.

(* buffer contract: success with n = size exactly when the message fits in len(buf); bytes of the
   caller's array at index >= n (success) resp. every byte (failure) are untouched *)
Theorem C04_buffer_contract : forall env sid arr blen v,
  (blen <= len arr) ->
  match encode_object env sid arr blen v with
  | EncOk n arr' => n = len (append_struct env sid v) /\ n <= blen
                    /\ firstn (N.to_nat n) arr' = append_struct env sid v
                    /\ skipn (N.to_nat n) arr' = skipn (N.to_nat n) arr
  | EncErr arr' => blen < len (append_struct env sid v) /\ arr' = arr
  end.
Proof. exact buffer_contract. Qed.
Print Assumptions C04_buffer_contract.

Example C04_instance : encoded_size env_ex 0 v_ex = len (append_struct env_ex 0 v_ex)
  /\ (exists arr', encode_object env_ex 0 (repeat 165 10) 10 v_ex = EncErr arr').
Proof. split; [vm_compute; reflexivity | eexists; vm_compute; reflexivity]. Qed.

(* the side conditions on the generated constants and tables that the theorems above assume hold
   for what the translator read from the sources of this run *)
Theorem C04_side_conditions : enc_params_ok = true /\ tables_ok = true.
Proof. split; [exact enc_params_ok_holds | exact tables_ok_holds]. Qed.
