(* C10 -- optional fields and declared defaults follow Thrift semantics. *)
From Coq Require Import List NArith Bool.
From Frugal Require Import Bytes Wire Skip Values Desc Spec Encode Decode Checks Tags State Bitset Alloc DescMap Conc LegacyDefs.
From Frugal.gen Require Import Params.
From Frugal.proofs Require Import GenEncParams EncodeSpec RoundTrip.
From Frugal.props Require Import Examples.
From Frugal Require Import DisciplineChecks.
From Frugal.proofs Require Import GenEqual.
Import ListNotations.

(* a field occurs in the encoding exactly when it is not (optional and nil) and not (optional,
   non-pointer, with a declared default, and equal to it under Go's == : -0.0 equals 0.0, NaN nothing) *)
Theorem C10_omit_iff : forall env sid sd fs h i f v fields raw,
  env_ok env = true -> lookup_sd env sid = Some sd -> has_type env (TStruct sid) (VT fs h) = true ->
  nth_error (sfields sd) i = Some f -> nth_error fs i = Some v ->
  denote env (TStruct sid) (VT fs h) = WStruct fields raw ->
  (In (fid f) (map fst fields) <-> emits f v = true).
Proof. exact denote_field_iff. Qed.
Print Assumptions C10_omit_iff.

Theorem C10_emits_spec : forall f v,
  emits f v = negb (can_skip_nil f && is_nil v)
              && negb (can_skip_default f && match fdflt f with Some d => go_equal (fty f) d v | None => false end).
Proof. exact emits_spec. Qed.

(* the size walk uses the same rule: C04_size_exact.  Decode side: every struct the decoder creates
   (absorb applies apply_init to the slot first; the top-level destination is used as given) starts
   from its declared defaults -- this is the definition of the reference decoder, to which the
   byte-level decoder is proved equal (C03_decode_is_absorb) -- and the round trip returns
   norm (C01), in which an omitted optional field keeps the destination's default. *)
Theorem C10_roundtrip_defaults : forall env sid v,
  enc_params_ok = true -> env_ok env = true -> init_ok env = true ->
  has_type env (TStruct sid) v = true -> req_complete env (TStruct sid) v = true ->
  absorb_top env sid (denote env (TStruct sid) v) (fresh env sid) = AOk (norm_top env sid v).
Proof. exact absorb_top_denote. Qed.

(* struct 1 declares default 7 for its optional i16 field 9: a value equal to it is omitted and read
   back as 7; an optional pointer is nil after decoding exactly when the message omitted it *)
Example C10_instance :
  append_struct env_ex 1 (VT [VS 0; VB false []; VS 7] []) = [4; 0; 1; 0; 0; 0; 0; 0; 0; 0; 0; 11; 0; 2; 0; 0; 0; 0; 0]%N
  /\ decode_object env_ex [] 1 [4; 0; 1; 0; 0; 0; 0; 0; 0; 0; 0; 0]%N (fresh env_ex 1) = DOk (VT [VS 0; VB true []; VS 7] [], 12%N) [].
Proof. split; vm_compute; reflexivity. Qed.

(* the side conditions on the generated constants and tables that the theorems above assume hold
   for what the translator read from the sources of this run *)
Theorem C10_side_conditions : enc_params_ok = true.
Proof. exact enc_params_ok_holds. Qed.

(* structural facts about the Go source which the hand-written model builds in (DisciplineChecks.v),
   read from the source by the translator and re-proved on every run *)
Theorem C10_model_assumptions : equal_ok = true.
Proof. exact equal_ok_holds. Qed.

