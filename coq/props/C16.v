(* C16 -- encoding has no side effects beyond buf[:n] and is repeatable.
   HALF-PROPERTY: that EncodedSize / EncodeObject never modify the value, and DecodeObject never the
   input, holds of the model by construction (its functions are pure); for those two clauses the
   assurance is that of the correspondence (deep snapshots before and after every call). *)
From Coq Require Import List NArith Bool.
From Frugal Require Import Bytes Wire Skip Values Desc Spec Encode Decode Checks Tags State Bitset Alloc DescMap Conc LegacyDefs.
From Frugal.gen Require Import Params.
From Frugal.proofs Require Import GenEncParams GenTables EncodeSpec BufferContract.
From Frugal.props Require Import Examples.
From Frugal.proofs Require Import MapOrder.
Import ListNotations.

(* bytes of the caller's array beyond the message (success) resp. all of them (failure) are untouched *)
Theorem C16_buffer_frame : forall env sid arr blen v, (blen <= len arr)%N ->
  match encode_object env sid arr blen v with
  | EncOk n arr' => n = len (append_struct env sid v) /\ (n <= blen)%N
                    /\ firstn (N.to_nat n) arr' = append_struct env sid v
                    /\ skipn (N.to_nat n) arr' = skipn (N.to_nat n) arr
  | EncErr arr' => (blen < len (append_struct env sid v))%N /\ arr' = arr
  end.
Proof. exact buffer_contract. Qed.
Print Assumptions C16_buffer_frame.

(* repeatable: the bytes are a function of the value and of the iteration order of its maps only:
   whatever that order, the output is put of the denotation in that order *)
Theorem C16_function_of_value : forall env sid v,
  enc_params_ok = true -> tables_ok = true -> env_ok env = true -> has_type env (TStruct sid) v = true ->
  append_struct env sid v = put (denote env (TStruct sid) v).
Proof. exact encode_refines. Qed.

Example C16_instance : exists arr', encode_object env_ex 1 (repeat 165%N 30) 20 (VT [VS 1; VB false [9]; VS 7] [])
  = EncOk 20 arr' /\ skipn 20 arr' = repeat 165%N 10.
Proof. eexists. split; vm_compute; reflexivity. Qed.

(* "the same bytes up to map-entry order": encoding the same value under another iteration order
   of its maps (vperm, at any depth) gives a message of the same length and the same EncodedSize,
   which parses to the same wire value up to the order of map entries (tvperm) *)
Theorem C16_repeatable_up_to_order : forall env sid v v',
  enc_params_ok = true -> tables_ok = true -> env_ok env = true ->
  has_type env (TStruct sid) v = true -> vperm v v' ->
  exists w w', append_struct env sid v = put w /\ append_struct env sid v' = put w'
               /\ tvperm w w' /\ encoded_size env sid v = encoded_size env sid v'.
Proof. exact encode_order_immaterial. Qed.
Print Assumptions C16_repeatable_up_to_order.

Theorem C16_same_length : forall w w', tvperm w w' -> len (put w) = len (put w').
Proof. exact tvperm_put_len. Qed.

(* two orders of one value: different bytes, same length *)
Example C16_two_orders :
  vperm v_ex v_ex_swapped /\ append_struct env_ex 0 v_ex <> append_struct env_ex 0 v_ex_swapped
  /\ len (append_struct env_ex 0 v_ex) = len (append_struct env_ex 0 v_ex_swapped).
Proof. pose proof ex_two_orders as H. tauto. Qed.

(* the side conditions on the generated constants and tables that the theorems above assume hold
   for what the translator read from the sources of this run *)
Theorem C16_side_conditions : enc_params_ok = true /\ tables_ok = true.
Proof. split; [exact enc_params_ok_holds | exact tables_ok_holds]. Qed.
