(* C12 -- the wire schema is exactly what the struct tags say.
   Proved for the model of internal/defs (Tags.v): the parser inverts a printer of schemas that may
   put arbitrary white space before every token, use either keyword of a kind (i8 / byte), qualify
   struct and enum names with a package, and carry the field in a frugal or a thrift tag.  Not
   covered by the theorems: the id sort of resolve_fields, tags with omitted requiredness or
   annotation at the field level (type level: C12_no_annotation), escapes inside tags.  The tie to
   the implementation is the correspondence: on every run the implementation's resolver (hook) must
   agree with the model's on every struct definition of the universe. *)
From Coq Require Import List NArith Bool.
From Frugal Require Import Bytes Wire Skip Values Desc Spec Encode Decode Checks Tags State Bitset Alloc DescMap Conc LegacyDefs.
From Frugal.gen Require Import Params.

From Frugal.proofs Require Import TagsProofs TagsStruct.
From Coq Require Import Sorted Permutation.
From Frugal.props Require Import Examples.
From Frugal Require Import TypeCache CacheChecks.
From Frugal.gen Require Import CacheKey.
From Frugal.proofs Require Import GenCacheKey TypeCacheProofs.
Import ListNotations.

(* every spelling of a schema type parses to that schema type, whatever follows *)
Theorem C12_parse_print : forall t s rest allow,
  sty_ok allow t = true -> prints t s -> rest_ok rest ->
  parse_type (go_of t) true (s ++ rest) allow = ROk (dt_of t, rest).
Proof. exact parse_print. Qed.
Print Assumptions C12_parse_print.

Theorem C12_spellings_equivalent : forall t s1 s2,
  sty_ok true t = true -> prints t s1 -> prints t s2 ->
  parse_type_top (go_of t) s1 = parse_type_top (go_of t) s2.
Proof. exact spellings_equivalent. Qed.

(* no annotation where the Go type determines the schema (a named int64 is then a plain i64) *)
Theorem C12_no_annotation : forall t, sty_ok true t = true -> no_slice t = true ->
  parse_type_top (go_of t) [] = ROk (dt_of' t).
Proof. exact parse_noannot_top. Qed.

(* field level: id, requiredness, type and option come from the tag; the frugal tag wins over a
   thrift tag; the thrift carrier (any field-name text) gives the same field *)
Theorem C12_frugal_wins : forall t s n rq nc p ps gf idx seen sp sp' v1 r,
  sty_ok true t = true -> prints t s -> (n < 65536)%N -> field_parts n rq s nc p ps ->
  field_ptr_ok t rq = true -> (nc = true -> is_stringlike t = true) ->
  gf_anonymous gf = false -> gf_exported gf = true -> gf_type gf = go_of t -> memN n seen = false ->
  blanks sp -> blanks sp' -> no_quote v1 ->
  gf_tag gf = sp ++ tag_entry s_thrift v1 ++ sp' ++ tag_entry s_frugal (join_comma p ps) ++ r ->
  resolve_one gf idx seen = ROk (Some (mkDField n (dt_of t) rq nc idx)).
Proof. exact resolve_thrift_frugal. Qed.

Theorem C12_carriers_agree : forall t s1 s2 n rq nc gf1 gf2 idx seen name,
  sty_ok true t = true -> prints t s1 -> prints t s2 -> (n < 65536)%N ->
  field_ptr_ok t rq = true -> (nc = true -> is_stringlike t = true) ->
  gf_anonymous gf1 = false -> gf_exported gf1 = true -> gf_type gf1 = go_of t ->
  gf_anonymous gf2 = false -> gf_exported gf2 = true -> gf_type gf2 = go_of t ->
  memN n seen = false -> Forall plain name ->
  gf_tag gf1 = mk_frugal_tag n rq s1 nc -> gf_tag gf2 = mk_thrift_tag name n rq s2 nc ->
  resolve_one gf1 idx seen = resolve_one gf2 idx seen.
Proof. exact carriers_agree. Qed.
Print Assumptions C12_carriers_agree.

Definition tag (s : list N) : list N := s.
(* frugal:"7,required,map<i32:list<Leaf>>" on a map[int32][]*Leaf; Leaf is struct 0 *)
Definition t_frugal : list N :=
  [102;114;117;103;97;108;58;34;55;44;114;101;113;117;105;114;101;100;44;109;97;112;60;105;51;50;58;108;105;115;116;60;76;101;97;102;62;62;34].
(* thrift:"name,7,required,map < i32 : list < main.Leaf > >" *)
Definition t_thrift : list N :=
  [116;104;114;105;102;116;58;34;110;97;109;101;44;55;44;114;101;113;117;105;114;101;100;44;109;97;112;32;60;32;105;51;50;32;58;32;108;105;115;116;32;60;32;109;97;105;110;46;76;101;97;102;32;62;32;62;34].
Definition leaf : gotype := GStruct 0 [76;101;97;102].
Definition gt : gotype := GMap GInt32 (GSlice (GPtr leaf)).
Definition mk (t : list N) : gostruct := mkGoStruct [83] [mkGoField [70] gt t true false] None.

Example C12_spellings_agree :
  resolve_fields (mk t_frugal) = resolve_fields (mk t_thrift)
  /\ resolve_fields (mk t_frugal)
     = ROk [mkDField 7 (DT DMap (Some (DT DI32 None None 0))
                              (Some (DT DList None (Some (DT DPointer None (Some (DT DStruct None None 0)) 0)) 0)) 0)
                     RRequired false 0].
Proof. split; vm_compute; reflexivity. Qed.

(* untagged, unexported and embedded fields are ignored; frugal wins over thrift *)
Example C12_ignored :
  resolve_fields (mkGoStruct [83]
    [ mkGoField [65] GInt32 [] true false;
      mkGoField [98] GInt32 [102;114;117;103;97;108;58;34;49;34] false false;
      mkGoField [67] leaf [102;114;117;103;97;108;58;34;50;34] true true;
      mkGoField [68] GInt16 ([116;104;114;105;102;116;58;34;120;44;57;34;32] ++ [102;114;117;103;97;108;58;34;51;34]) true false ] None)
  = ROk [mkDField 3 (DT DI16 None None 0) RDefault false 3].
Proof. vm_compute. reflexivity. Qed.

(* ---- whole structs (proofs/TagsStruct.v) ---- *)

(* the schema of a struct is exactly what its field tags say: each field that is not ignored
   carries, in any of the three carriers and any spelling of its type, a field schema; the struct
   resolves to exactly these, sorted by id, whatever the ignored fields look like *)
Theorem C12_struct_of_schema : forall gs os,
  Forall2 field_matches (gs_fields gs) os -> NoDup (map sp_id (somes os)) ->
  resolve_fields gs = ROk (sort_by_id (fields_of O os)).
Proof. exact struct_of_schema. Qed.
Print Assumptions C12_struct_of_schema.

(* equivalent spellings, field by field, behave identically *)
Theorem C12_spellings_struct : forall gs1 gs2 os,
  Forall2 field_matches (gs_fields gs1) os -> Forall2 field_matches (gs_fields gs2) os ->
  resolve_fields gs1 = resolve_fields gs2.
Proof. exact spellings_struct. Qed.

(* the result is sorted by field id, strictly (ids are distinct) *)
Theorem C12_sorted : forall gs fs,
  resolve_fields gs = ROk fs -> StronglySorted N.lt (map d_id fs).
Proof. exact resolve_fields_sorted. Qed.

(* untagged, unexported and embedded fields are ignored: exactly the other fields appear ... *)
Theorem C12_members : forall gs fs,
  resolve_fields gs = ROk fs ->
  forall d, In d fs <->
            exists gf, nth_error (gs_fields gs) (d_index d) = Some gf /\ ignored gf = false /\
                       resolve_one gf (d_index d) [] = ROk (Some d).
Proof. exact resolve_fields_members. Qed.

(* ... and deleting an ignored field changes nothing but the Go field positions *)
Theorem C12_ignored_deleted : forall gs gs' fs1 gf fs2,
  gs_fields gs = fs1 ++ gf :: fs2 -> gs_fields gs' = fs1 ++ fs2 -> ignored gf = true ->
  schema_of (resolve_fields gs) = schema_of (resolve_fields gs').
Proof. exact resolve_fields_ignored. Qed.

Theorem C12_ignored_iff : forall gf idx seen, ignored gf = true <-> resolve_one gf idx seen = ROk None.
Proof. exact ignored_iff. Qed.

(* an accepted annotation always has the kind structure of the Go type: it only chooses list
   versus set, i64 versus enum, and the element types *)
Theorem C12_annotation_follows_go_type : forall vt annot def allow d rest,
  parse_type vt annot def allow = ROk (d, rest) -> go_shape vt d.
Proof. exact parse_type_shape. Qed.
Print Assumptions C12_members.

(* ---- the process-wide type-node cache (internal/reflect/ttype.go newTType; TypeCache.v) ----
   keyed by (x.String(), x.S) -- read from the source on every run (cache_key_ok) -- it is
   transparent: over ANY history of requests the node handed out for a (Go type, parsed Thrift type)
   is the one a fresh process would build, with the schema type the tags say.  (Without the printed
   Thrift type in the key a named int64 registered first as enum stays an enum for the whole
   process: TypeCacheProofs.cache_opaque_without_T.) *)
Theorem C12_type_cache_transparent : forall reqs, cache_key_ok = true -> Forall shaped reqs ->
  snd (serve ttypes_key_has_T ttypes_key_has_S [] reqs) = map (fun r => node_of (fst r) (snd r)) reqs.
Proof. exact cache_transparent_src. Qed.

Theorem C12_type_cache_schema : forall reqs, Forall shaped reqs ->
  map node_ty (snd (serve true true [] reqs)) = map (fun r => ty_of (snd r)) reqs.
Proof. exact cache_transparent_ty. Qed.

Theorem C12_cache_key : cache_key_ok = true.
Proof. exact cache_key_ok_holds. Qed.
Print Assumptions C12_type_cache_transparent.
