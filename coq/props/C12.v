(* C12 -- the wire schema is exactly what the struct tags say.
   PARTIAL: the printer/parser theorem over all schemas and spellings is not proved; what is
   machine-checked here is the resolver model on concrete definitions.  The property is decided by
   the correspondence: on every run the model's resolver (Tags.v) is evaluated on every struct
   definition of the universe -- including every equivalent spelling -- and must reproduce the schema
   the tags were printed from, and the implementation's resolver (hook) must agree with the model's. *)
From Coq Require Import List NArith Bool.
From Frugal Require Import Bytes Wire Skip Values Desc Spec Encode Decode Checks Tags State Bitset Alloc DescMap Conc LegacyDefs.
From Frugal.gen Require Import Params.
From Frugal.proofs Require Import GenOk BytesWire EncodeSpec SizeExact SkipPut DecodeSafe DecodeRefines RoundTrip Corollaries StateProofs BitsetProofs AllocProofs DescMapProofs ConcProofs BufferContract.
From Frugal.props Require Import Examples.
Import ListNotations.

Definition tag (s : list N) : list N := s.
(* frugal:"7,required,map<i32:list<Leaf>>" on a map[int32][]*Leaf; Leaf is struct 0 *)
Definition t_frugal : list N :=
  [102;114;117;103;97;108;58;34;55;44;114;101;113;117;105;114;101;100;44;109;97;112;60;105;51;50;58;108;105;115;116;60;76;101;97;102;62;62;34].
(* thrift:"name,7,required,map < i32 : list < main.Leaf > >" *)
Definition t_thrift : list N :=
  [116;104;114;105;102;116;58;34;110;97;109;101;44;55;44;114;101;113;117;105;114;101;100;44;109;97;112;32;60;32;105;51;50;32;58;32;108;105;115;116;32;60;32;109;97;105;110;46;76;101;97;102;32;62;32;62;34].
Definition leaf : gotype := GStruct 0 [76;101;97;102].
Definition gt : gotype := GMap GInt32 (GSlice (GPtr leaf)).
Definition mk (t : list N) : gostruct := mkGoStruct [83] [mkGoField [70] gt t true false] None.

Example C12_spellings_agree :
  resolve_fields (mk t_frugal) = resolve_fields (mk t_thrift)
  /\ resolve_fields (mk t_frugal)
     = ROk [mkDField 7 (DT DMap (Some (DT DI32 None None 0))
                              (Some (DT DList None (Some (DT DPointer None (Some (DT DStruct None None 0)) 0)) 0)) 0)
                     RRequired false 0].
Proof. split; vm_compute; reflexivity. Qed.

(* untagged, unexported and embedded fields are ignored; frugal wins over thrift *)
Example C12_ignored :
  resolve_fields (mkGoStruct [83]
    [ mkGoField [65] GInt32 [] true false;
      mkGoField [98] GInt32 [102;114;117;103;97;108;58;34;49;34] false false;
      mkGoField [67] leaf [102;114;117;103;97;108;58;34;50;34] true true;
      mkGoField [68] GInt16 ([116;104;114;105;102;116;58;34;120;44;57;34;32] ++ [102;114;117;103;97;108;58;34;51;34]) true false ] None)
  = ROk [mkDField 3 (DT DI16 None None 0) RDefault false 3].
Proof. vm_compute. reflexivity. Qed.
