(* C01 -- encode then decode returns the original value (up to the documented normalisations). *)
From Coq Require Import List NArith Bool.
From Frugal Require Import Bytes Wire Skip Values Desc Spec Encode Decode Checks Tags State Bitset Alloc DescMap Conc LegacyDefs.
From Frugal.gen Require Import Params.
From Frugal.proofs Require Import GenDecParams GenDepthOdd GenTables RoundTrip.
From Frugal.props Require Import Examples.
From Frugal.proofs Require Import MapOrder.
From Frugal Require Import DisciplineChecks.
From Frugal.proofs Require Import GenEqual GenDepthArgs.
Import ListNotations.

Theorem C01_roundtrip : forall env pool sid v rest,
  dec_params_ok = true -> depth_odd_ok = true -> tables_ok = true -> env_ok env = true -> init_ok env = true ->
  has_type env (TStruct sid) v = true -> Spec.holders_empty v = true ->
  enums32 env (TStruct sid) v = true -> req_complete env (TStruct sid) v = true ->
  (2 * vdepth v + 1 <= S (N.to_nat maxDepthLimit))%nat ->
  decode_object env pool sid (append_struct env sid v ++ rest) (fresh env sid)
  = DOk (norm_top env sid v, len (append_struct env sid v)) rest.
Proof. exact roundtrip. Qed.
Print Assumptions C01_roundtrip.

(* the reference decoder inverts the reference encoder *)
Theorem C01_absorb_denote : forall env sid v,
  enc_params_ok = true -> env_ok env = true -> init_ok env = true ->
  has_type env (TStruct sid) v = true -> req_complete env (TStruct sid) v = true ->
  absorb_top env sid (denote env (TStruct sid) v) (fresh env sid) = AOk (norm_top env sid v).
Proof. exact absorb_top_denote. Qed.
Print Assumptions C01_absorb_denote.

(* non-vacuity: the hypotheses hold for a concrete recursive type with every field form, and the
   conclusion computes *)
Example C01_instance :
  decode_object env_ex [] 0 (append_struct env_ex 0 v_ex ++ [1; 2; 3]) (fresh env_ex 0)
  = DOk (norm_top env_ex 0 v_ex, len (append_struct env_ex 0 v_ex)) [1; 2; 3].
Proof. vm_compute. reflexivity. Qed.

(* ---- "up to map-entry order" (proofs/MapOrder.v) ----
   Go map iteration order is arbitrary; the model takes the order of the entry list as an input.
   vperm relates two values that differ only by the order of map entries, at any depth.  Whatever
   order the encoder iterates in (v' instead of v), the round trip succeeds and returns the
   normalised value up to map-entry order. *)
Theorem C01_roundtrip_up_to_order : forall env pool sid v v' rest,
  dec_params_ok = true -> depth_odd_ok = true -> tables_ok = true -> env_ok env = true -> init_ok env = true ->
  has_type env (TStruct sid) v = true -> Spec.holders_empty v = true ->
  enums32 env (TStruct sid) v = true -> req_complete env (TStruct sid) v = true ->
  (2 * vdepth v + 1 <= S (N.to_nat maxDepthLimit))%nat -> vperm v v' ->
  exists r', decode_object env pool sid (append_struct env sid v' ++ rest) (fresh env sid)
             = DOk (r', len (append_struct env sid v')) rest
             /\ vperm (norm_top env sid v) r'.
Proof. exact roundtrip_up_to_order. Qed.
Print Assumptions C01_roundtrip_up_to_order.

(* the enum-width hypothesis matters for maps: two distinct Go keys of an enum type that agree in
   their low 32 bits collapse on the wire, and which value survives depends on the order *)
Example C01_order_matters_for_wide_enum_keys :
  has_type env_enum (TStruct 0) v_enum = true /\ vperm v_enum v_enum'
  /\ enums32 env_enum (TStruct 0) v_enum = false
  /\ decode_object env_enum [] 0 (append_struct env_enum 0 v_enum) (fresh env_enum 0)
     = DOk (VT [VM (Some [(VS 1, VS 20)])] [], len (append_struct env_enum 0 v_enum)) []
  /\ decode_object env_enum [] 0 (append_struct env_enum 0 v_enum') (fresh env_enum 0)
     = DOk (VT [VM (Some [(VS 1, VS 10)])] [], len (append_struct env_enum 0 v_enum')) []
  /\ ~ vperm (VT [VM (Some [(VS 1, VS 20)])] []) (VT [VM (Some [(VS 1, VS 10)])] []).
Proof. pose proof order_matters_without_keys_distinct as H. tauto. Qed.

(* the side conditions on the generated constants and tables that the theorems above assume hold
   for what the translator read from the sources of this run *)
(* [enc_params_ok], which C01_absorb_denote assumes, is part of [dec_params_ok] (ParamsSplit.dec_enc) *)
Theorem C01_side_conditions : dec_params_ok = true /\ depth_odd_ok = true /\ tables_ok = true.
Proof. split; [exact dec_params_ok_holds | split; [exact depth_odd_ok_holds | exact tables_ok_holds]]. Qed.

(* structural facts about the Go source which the hand-written model builds in (DisciplineChecks.v),
   read from the source by the translator and re-proved on every run *)
Theorem C01_model_assumptions : equal_ok = true /\ depth_args_ok = true.
Proof. split; [exact equal_ok_holds | exact depth_args_ok_holds]. Qed.
