(* C09 -- required fields are enforced on decode and always written on encode. *)
From Coq Require Import List NArith Bool.
From Frugal Require Import Bytes Wire Skip Values Desc Spec Encode Decode Checks Tags State Bitset Alloc DescMap Conc LegacyDefs.
From Frugal.gen Require Import Params.
From Frugal.proofs Require Import GenDecParams Corollaries BitsetProofs.
From Frugal.props Require Import Examples.
From Frugal Require Import DisciplineChecks.
From Frugal.proofs Require Import GenPools.
Import ListNotations.

(* decoding a well-formed message fails with the required-field error naming field i exactly when
   the reference decoder finds i missing -- at any nesting level -- ... *)
Theorem C09_error_names_field : forall env pool sid fs rest dst i,
  dec_params_ok = true -> env_ok env = true -> wf (WStruct fs []) = true ->
  (need env (TStruct sid) (WStruct fs []) <= S (N.to_nat maxDepthLimit))%nat ->
  (skipped_depth env (TStruct sid) (WStruct fs []) <= 63)%nat ->
  absorb_top env sid (WStruct fs []) dst = AMissing i <->
  decode_object env pool sid (put (WStruct fs []) ++ rest) dst = DErr (ERequired i).
Proof. exact required_error_names_field. Qed.
Print Assumptions C09_error_names_field.

(* ... and at the level where it happens, i is the lowest required id that does not occur with its
   declared wire type; when none is missing decoding is not rejected on that account *)
Theorem C09_required_enforced : forall env pool sid sd fs rest fs0 h0 cur seen unk,
  dec_params_ok = true -> env_ok env = true -> wf (WStruct fs []) = true -> lookup_sd env sid = Some sd ->
  (need env (TStruct sid) (WStruct fs []) <= S (N.to_nat maxDepthLimit))%nat ->
  (skipped_depth env (TStruct sid) (WStruct fs []) <= 63)%nat ->
  ab_fields (absorb env) sd fs fs0 [] [] = AOk (cur, seen, unk) ->
  decode_object env pool sid (put (WStruct fs []) ++ rest) (VT fs0 h0) =
  match find (fun i => negb (stored sd fs i)) (required_ids sd) with
  | Some i => DErr (ERequired i)
  | None => DOk (VT cur (if sholder sd then match unk with [] => h0 | _ :: _ => unk end else h0),
                 len (put (WStruct fs []))) rest
  end.
Proof. exact required_enforced_decode. Qed.

(* the encoder writes every required field, whatever its value *)
Theorem C09_encoder_writes_required : forall env sid sd fs h f,
  lookup_sd env sid = Some sd -> has_type env (TStruct sid) (VT fs h) = true ->
  In f (sfields sd) -> freq f = RRequired ->
  exists fields raw, denote env (TStruct sid) (VT fs h) = WStruct fields raw /\ In (fid f) (map fst fields).
Proof. exact encoder_writes_required. Qed.

(* the presence set: 1024 words indexed by shift and mask implement a set of 16-bit ids, for every
   operation sequence and every (recycled) initial content *)
Theorem C09_bitset_refines : forall ops s l, bs_wf s ->
  (forall j, (j < 65536)%N -> bs_test s j = existsb (N.eqb j) l) ->
  Forall (fun oi : N * N => (snd oi < 65536)%N) ops -> bs_run s ops = set_run l ops.
Proof. exact bs_refines_set. Qed.
Print Assumptions C09_bitset_refines.

Example C09_instance :
  decode_object env_ex [] 0 (put (WStruct [(1, WI32 1)] [])) (fresh env_ex 0) = DErr (ERequired 5)
  /\ decode_object env_ex [] 0 (put (WStruct [(5, WI32 1); (3, WList false 12 [WStruct [(2, WStr [])] []])] [])) (fresh env_ex 0) = DErr (ERequired 1).
Proof. split; vm_compute; reflexivity. Qed.

(* the side conditions on the generated constants and tables that the theorems above assume hold
   for what the translator read from the sources of this run *)
Theorem C09_side_conditions : dec_params_ok = true.
Proof. exact dec_params_ok_holds. Qed.

(* structural facts about the Go source which the hand-written model builds in (DisciplineChecks.v),
   read from the source by the translator and re-proved on every run *)
Theorem C09_model_assumptions : pools_ok = true.
Proof. exact pools_ok_holds. Qed.

