(* C18 -- encoding and size computation are allocation-free after first use.
   PARTIAL: whether an iterator, closure or interface conversion of a given routine escapes to the
   heap is decided by the Go compiler's escape analysis, which the model does not express.  Proved:
   the logical preconditions -- the write never outgrows a buffer of EncodedSize bytes, and after
   first use no registration work is done.  Decided by the correspondence: runtime.MemStats.Mallocs
   deltas for every type of the universe. *)
From Coq Require Import List NArith Bool.
From Frugal Require Import Bytes Wire Skip Values Desc Spec Encode Decode Checks Tags State Bitset Alloc DescMap Conc LegacyDefs.
From Frugal.gen Require Import Params.
From Frugal.proofs Require Import GenEncParams GenTables SizeExact.
From Frugal.props Require Import Examples.
Import ListNotations.

(* a buffer of EncodedSize bytes is never outgrown: the encoder never has to reallocate *)
Theorem C18_never_outgrows : forall env sid v,
  enc_params_ok = true -> tables_ok = true -> env_ok env = true -> has_type env (TStruct sid) v = true ->
  len (append_struct env sid v) = encoded_size env sid v.
Proof. intros. symmetry. apply size_exact; assumption. Qed.
Print Assumptions C18_never_outgrows.

(* once a type is published no call on it changes the registration state: no per-call descriptor work *)
Theorem C18_no_registration_work : forall gu r s, In s (r_pub r) -> create gu r s = (r, true).
Proof.
  intros gu r s H. unfold create.
  assert (E : memN s (r_pub r) = true).
  { unfold memN. apply existsb_exists. exists s. split; [exact H | apply N.eqb_refl]. }
  rewrite E. reflexivity.
Qed.
Print Assumptions C18_no_registration_work.

(* the side conditions on the generated constants and tables that the theorems above assume hold
   for what the translator read from the sources of this run *)
Theorem C18_side_conditions : enc_params_ok = true /\ tables_ok = true.
Proof. split; [exact enc_params_ok_holds | exact tables_ok_holds]. Qed.
