(* C03 -- the decoder reads every well-formed message as the reference decoder does. *)
From Coq Require Import List NArith Bool.
From Frugal Require Import Bytes Wire Skip Values Desc Spec Encode Decode Checks Tags State Bitset Alloc DescMap Conc LegacyDefs.
From Frugal.gen Require Import Params.
From Frugal.proofs Require Import GenDecParams GenDepth SkipPut Corollaries.
From Frugal.props Require Import Examples.
From Frugal Require Import DisciplineChecks.
From Frugal.proofs Require Import GenPools GenDepthArgs.
Import ListNotations.

(* any wire struct, whatever the field order, duplicates, unknown or retyped fields, whoever wrote
   it, followed by any trailing bytes: exact agreement with the reference decoder, value and length *)
Theorem C03_decode_is_absorb : forall env pool sid fs rest dst,
  dec_params_ok = true -> env_ok env = true -> wf (WStruct fs []) = true ->
  (need env (TStruct sid) (WStruct fs []) <= S (N.to_nat maxDepthLimit))%nat ->
  (skipped_depth env (TStruct sid) (WStruct fs []) <= 63)%nat ->
  decode_object env pool sid (put (WStruct fs []) ++ rest) dst
  = top_dres (absorb_top env sid (WStruct fs []) dst) (len (put (WStruct fs []))) rest.
Proof. exact decode_exact. Qed.
Print Assumptions C03_decode_is_absorb.

(* the depth side conditions hold for every message nested at most 48 levels *)
Theorem C03_shallow : forall env pool sid fs rest dst,
  dec_params_ok = true -> depth_ok = true -> env_ok env = true -> wf (WStruct fs []) = true -> (wdepth (WStruct fs []) <= 48)%nat ->
  decode_object env pool sid (put (WStruct fs []) ++ rest) dst
  = top_dres (absorb_top env sid (WStruct fs []) dst) (len (put (WStruct fs []))) rest.
Proof. exact shallow_exact. Qed.

(* unknown fields are skipped over exactly *)
Theorem C03_skip_exact : dec_params_ok = true -> forall w rest, wf w = true ->
  (wdepth w < N.to_nat gk_defaultRecursionDepth)%nat -> gk_skip (put w ++ rest) (code_of w) = SOk (len (put w)).
Proof. exact gk_skip_put. Qed.

(* a foreign-ordered message with a duplicate, an unknown and a retyped field, into a dirty destination *)
Definition msg_ex : list (N * tv) :=
  [ (5, WI32 4294967295); (99, WMap 11 12 [(WStr [1], WStruct [(1, WBool 1)] [])]); (1, WI32 1); (1, WI32 2);
    (2, WI64 9); (7, WStruct [(5, WI32 3)] []) ].
Example C03_instance :
  wf (WStruct msg_ex []) = true /\
  (decode_object env_ex [] 0 (put (WStruct msg_ex []) ++ [255]) v_ex
   = top_dres (absorb_top env_ex 0 (WStruct msg_ex []) v_ex) (len (put (WStruct msg_ex []))) [255]).
Proof. split; vm_compute; reflexivity. Qed.

(* the side conditions on the generated constants and tables that the theorems above assume hold
   for what the translator read from the sources of this run *)
Theorem C03_side_conditions : dec_params_ok = true /\ depth_ok = true.
Proof. split; [exact dec_params_ok_holds | exact depth_ok_holds]. Qed.

(* structural facts about the Go source which the hand-written model builds in (DisciplineChecks.v),
   read from the source by the translator and re-proved on every run *)
Theorem C03_model_assumptions : pools_ok = true /\ depth_args_ok = true.
Proof. split; [exact pools_ok_holds | exact depth_args_ok_holds]. Qed.

