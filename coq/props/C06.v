(* C06 -- decoded objects own their memory: aligned, disjoint, not aliasing the input.
   PARTIAL: that the Go collector honours the contract of the linkname'd runtime.mallocgc (typed
   memory is scanned, pointer-free blocks stay alive while an interior pointer does) is runtime
   behaviour outside the model; block bases are assumed 8-aligned.  Which request the decoder
   makes for which piece of the value is tied by the correspondence (memory-piece walk), not proved. *)
From Coq Require Import List NArith Bool.
From Frugal Require Import Bytes Wire Skip Values Desc Spec Encode Decode Checks Tags State Bitset Alloc DescMap Conc LegacyDefs.
From Frugal.gen Require Import Params.
From Frugal.proofs Require Import AllocProofs.
From Frugal.props Require Import Examples.
Import ListNotations.

(* the bump allocator: for ANY sequence of requests from any reachable state, the regions handed
   out are pairwise disjoint ... *)
Theorem C06_span_disjoint : forall reqs s, span_inv s ->
  Forall (fun r : N * N => align_ok (snd r) = true) reqs -> pairwise_disjoint (span_run s reqs) = true.
Proof. exact span_run_disjoint. Qed.
Print Assumptions C06_span_disjoint.

(* ... have exactly the requested length and are aligned as requested ... *)
Theorem C06_span_aligned : forall reqs s, span_inv s ->
  Forall (fun r : N * N => align_ok (snd r) = true) reqs ->
  Forall2 (fun (r : N * N) (g : region) => rg_len g = fst r /\ (rg_off g mod snd r = 0)%N) reqs (span_run s reqs).
Proof. exact span_run_aligned. Qed.

(* ... and never overlap what an earlier decode through the same pooled decoder received *)
Theorem C06_span_history : forall r1 r2 s, span_inv s ->
  Forall (fun r : N * N => align_ok (snd r) = true) r1 -> Forall (fun r : N * N => align_ok (snd r) = true) r2 ->
  pairwise_disjoint (span_run s r1 ++ span_run (span_final s r1) r2) = true /\
  (forall g1 g2, In g1 (span_run s r1) -> In g2 (span_run (span_final s r1) r2) -> disjoint g1 g2 = true).
Proof. exact span_history_disjoint. Qed.
Print Assumptions C06_span_history.

(* pointer-bearing Go kinds are never placed in the pointer-free blocks *)
Theorem C06_scan_class : forall k, kind_has_pointers k = true -> kind_typed k = true.
Proof. exact scan_class_sound. Qed.

Example C06_instance : span_inv span_init /\
  span_run span_init [(3, 1); (8, 8); (2040, 1); (5, 4); (300, 2)]%N
  = [mkRegion 0 0 3; mkRegion 0 8 8; mkRegion 1 0 2040; mkRegion 1 2040 5; mkRegion 2 0 300]%N.
Proof. split; [exact span_init_inv | vm_compute; reflexivity]. Qed.
