(* C17 -- legacy JIT controls are inert: no setting changes any result. *)
From Coq Require Import List NArith Bool.
From Frugal Require Import Bytes Wire Skip Values Desc Spec Encode Decode Checks Tags State Bitset Alloc DescMap Conc LegacyDefs.
From Frugal.gen Require Import Params.
From Frugal.proofs Require Import GenLegacy StateProofs.
From Frugal.props Require Import Examples.
Import ListNotations.

(* legacy calls change nothing and return nil / their argument; erasing them from any history
   changes neither any later outcome nor the state; Pretouch succeeds for every type *)
Theorem C17_inert : forall gu,
  (forall st c junk, is_legacy c = true -> fst (api_step gu st c junk) = st /\ snd (api_step gu st c junk) = legacy_outcome c) /\
  (forall h c junk, snd (api_step gu (run_history gu p_init h) c junk)
                  = snd (api_step gu (run_history gu p_init (filter (fun cj => negb (is_legacy (fst cj))) h)) c junk)) /\
  (forall h st, run_history gu st (filter (fun cj => negb (is_legacy (fst cj))) h) = run_history gu st h).
Proof. exact legacy_inert. Qed.
Print Assumptions C17_inert.

Theorem C17_returns : forall f a,
  legacy_ret f a = match f with LSetMaxInlineDepth | LSetMaxInlineILSize => a | _ => 0%N end.
Proof. exact (legacy_ret_values legacy_ok_holds). Qed.

(* what the translator read from frugal.go / options.go / debug / internal/opts on this run: the
   bodies are the expected no-ops, nothing of internal/opts is used by the codec, the environment is
   read only there *)
Theorem C17_bodies : legacy_ok = true.
Proof. exact legacy_ok_holds. Qed.
Print Assumptions C17_bodies.

(* the side conditions on the generated constants and tables that the theorems above assume hold
   for what the translator read from the sources of this run *)
Theorem C17_side_conditions : legacy_ok = true.
Proof. exact legacy_ok_holds. Qed.
