(* C17 -- legacy JIT controls are inert: no setting changes any result. *)
From Coq Require Import List NArith Bool.
From Frugal Require Import Bytes Wire Skip Values Desc Spec Encode Decode Checks Tags State Bitset Alloc DescMap Conc LegacyDefs.
From Frugal.gen Require Import Params.
From Coq Require Import ZArith.
From Frugal Require Import EnvParse.
From Frugal.proofs Require Import GenLegacy StateProofs EnvParseProofs.
From Frugal.props Require Import Examples.
Import ListNotations.

(* legacy calls change nothing and return nil / their argument; erasing them from any history
   changes neither any later outcome nor the state; Pretouch succeeds for every type *)
Theorem C17_inert : forall gu,
  (forall st c junk, is_legacy c = true -> fst (api_step gu st c junk) = st /\ snd (api_step gu st c junk) = legacy_outcome c) /\
  (forall h c junk, snd (api_step gu (run_history gu p_init h) c junk)
                  = snd (api_step gu (run_history gu p_init (filter (fun cj => negb (is_legacy (fst cj))) h)) c junk)) /\
  (forall h st, run_history gu st (filter (fun cj => negb (is_legacy (fst cj))) h) = run_history gu st h).
Proof. exact legacy_inert. Qed.
Print Assumptions C17_inert.

Theorem C17_returns : forall f a,
  legacy_ret f a = match f with LSetMaxInlineDepth | LSetMaxInlineILSize => a | _ => 0%N end.
Proof. exact (legacy_ret_values legacy_ok_holds). Qed.

(* The FRUGAL_MAX_INLINE_* environment variables (EnvParse.v: parseOrDefault over strconv.ParseUint(s, 0, 64)).
   "Holding valid values" = the package initialiser does not panic.  An accepted variable is either
   empty (default) or denotes a number above the minimum and below 2^63; every decimal numeral in that
   range is accepted with its value (so the accepted set is not a curiosity of the model); the codec
   model [api_step] has no parameter through which the parsed numbers could flow (C17_inert is stated
   for every history, and [legacy_ok] says nothing outside internal/opts reads its variables or the
   environment), hence every accepted environment gives the results of the empty one. *)
Theorem C17_env_default_iff : forall s min, parse_or_default s min = EnvDefault <-> s = [].
Proof. exact env_default_iff. Qed.
Print Assumptions C17_env_default_iff.

Theorem C17_env_value_sound : forall s min v, (0 <= min)%Z -> parse_or_default s min = EnvValue v ->
  exists n, parse_uint0 s = UOk n /\ v = Z.of_N n /\ (min < v < 9223372036854775808)%Z.
Proof. exact env_value_sound. Qed.
Print Assumptions C17_env_value_sound.

Theorem C17_env_decimal_accepted : forall ds min, ds <> [] -> all_digits ds = true -> hd 0%N ds <> 48%N ->
  (0 <= min)%Z -> (min < Z.of_N (dec_val ds) < 9223372036854775808)%Z ->
  parse_or_default ds min = EnvValue (Z.of_N (dec_val ds)).
Proof. exact env_decimal_accepted. Qed.
Print Assumptions C17_env_decimal_accepted.

Theorem C17_env_prefixed_accepted : forall p b ds min,
  In (p, b) [(98,2); (66,2); (111,8); (79,8); (120,16); (88,16)]%N ->
  ds <> [] -> digits_in b ds = true -> (0 <= min)%Z ->
  (min < Z.of_N (base_val b ds) < 9223372036854775808)%Z ->
  parse_or_default (48%N :: p :: ds) min = EnvValue (Z.of_N (base_val b ds)).
Proof. exact env_prefixed_accepted. Qed.
Print Assumptions C17_env_prefixed_accepted.

(* leading-zero octal numerals ("017") *)
Theorem C17_env_octal_accepted : forall ds min, ds <> [] -> digits_in 8 ds = true -> (0 <= min)%Z ->
  (min < Z.of_N (base_val 8 ds) < 9223372036854775808)%Z ->
  parse_or_default (48%N :: ds) min = EnvValue (Z.of_N (base_val 8 ds)).
Proof. exact env_octal_accepted. Qed.
Print Assumptions C17_env_octal_accepted.

(* soundness of the value for EVERY accepted string, underscores included: the number is the base-b value of
   the digit part with the underscores removed, all of whose characters are digits of that base *)
Theorem C17_parse_uint_sound : forall s n, parse_uint0 s = UOk n ->
  exists b body, base_body s = (b, body) /\
    digits_in b (no_underscores body) = true /\ n = base_val b (no_underscores body) /\ (n < two64)%N.
Proof. exact parse_uint0_sound. Qed.
Print Assumptions C17_parse_uint_sound.

(* non-vacuity and the spellings of the correspondence pool: "7", "0x7fffffff", "0b11", "1_000", "017",
   2^63-1 accepted; 2^63, "1" (not above the minimum), "08", "1__0", "0x" rejected *)
Example C17_env_examples :
  map (fun s => parse_or_default s 1)
    [[55]; [48;120;55;102;102;102;102;102;102;102]; [48;98;49;49]; [49;95;48;48;48]; [48;49;55];
     [57;50;50;51;51;55;50;48;51;54;56;53;52;55;55;53;56;48;55];
     [57;50;50;51;51;55;50;48;51;54;56;53;52;55;55;53;56;48;56]; [49]; [48;56]; [49;95;95;48]; [48;120]]%N
  = [EnvValue 7; EnvValue 2147483647; EnvValue 3; EnvValue 1000; EnvValue 15; EnvValue 9223372036854775807;
     EnvPanic; EnvPanic; EnvPanic; EnvPanic; EnvPanic]%Z.
Proof. vm_compute. reflexivity. Qed.

(* what the translator read from frugal.go / options.go / debug / internal/opts on this run: the
   bodies are the expected no-ops, nothing of internal/opts is used by the codec, the environment is
   read only there *)
Theorem C17_bodies : legacy_ok = true.
Proof. exact legacy_ok_holds. Qed.
Print Assumptions C17_bodies.

(* the side conditions on the generated constants and tables that the theorems above assume hold
   for what the translator read from the sources of this run *)
Theorem C17_side_conditions : legacy_ok = true.
Proof. exact legacy_ok_holds. Qed.
