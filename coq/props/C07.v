(* C07 -- results do not depend on call history. *)
From Coq Require Import List NArith Bool.
From Frugal Require Import Bytes Wire Skip Values Desc Spec Encode Decode Checks Tags State Bitset Alloc DescMap Conc LegacyDefs.
From Frugal.gen Require Import Params.
From Frugal.proofs Require Import StateProofs.
From Frugal.props Require Import Examples.
Import ListNotations.

(* every call's outcome, after ANY history of calls (valid and invalid types, failing calls, any
   left-over content of the pools), is the outcome of the same call made first in a fresh process *)
Theorem C07_history_independent : forall gu h c junk,
  snd (api_step gu (run_history gu p_init h) c junk) = fresh_outcome gu c.
Proof. exact history_independent. Qed.
Print Assumptions C07_history_independent.

(* registration is a pure function of the type, whatever was registered or failed before *)
Theorem C07_create_pure : forall gu r s, reg_ok gu r ->
  let '(r', ok) := create gu r s in
  ok = accepted_with (resolve_universe gu) s /\ reg_ok gu r' /\ (ok = false -> r' = r).
Proof. exact create_pure. Qed.

(* whatever a recycled presence set contains *)
Theorem C07_pool_irrelevant : forall env pool1 pool2 sid bs dst,
  decode_object env pool1 sid bs dst = decode_object env pool2 sid bs dst.
Proof. exact decode_pool_irrelevant. Qed.
Print Assumptions C07_pool_irrelevant.

Example C07_instance : decode_object env_ex [1; 5; 300; 7] 0 [8; 0; 1; 0; 0; 0; 9; 0] (fresh env_ex 0)
  = decode_object env_ex [] 0 [8; 0; 1; 0; 0; 0; 9; 0] (fresh env_ex 0).
Proof. vm_compute. reflexivity. Qed.
