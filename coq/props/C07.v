(* C07 -- results do not depend on call history. *)
From Coq Require Import List NArith Bool.
From Frugal Require Import Bytes Wire Skip Values Desc Spec Encode Decode Checks Tags State Bitset Alloc DescMap Conc LegacyDefs.
From Frugal.gen Require Import Params.
From Frugal.proofs Require Import StateProofs.
From Frugal.props Require Import Examples.
From Frugal Require Import TypeCache CacheChecks.
From Frugal.gen Require Import CacheKey.
From Frugal.proofs Require Import GenCacheKey TypeCacheProofs.
From Frugal.proofs Require Import GenAccess.
Import ListNotations.

(* every call's outcome, after ANY history of calls (valid and invalid types, failing calls, any
   left-over content of the pools), is the outcome of the same call made first in a fresh process *)
Theorem C07_history_independent : forall gu h c junk,
  snd (api_step gu (run_history gu p_init h) c junk) = fresh_outcome gu c.
Proof. exact history_independent. Qed.
Print Assumptions C07_history_independent.

(* registration is a pure function of the type, whatever was registered or failed before *)
Theorem C07_create_pure : forall gu r s, reg_ok gu r ->
  let '(r', ok) := create gu r s in
  ok = accepted_with (resolve_universe gu) s /\ reg_ok gu r' /\ (ok = false -> r' = r).
Proof. exact create_pure. Qed.

(* whatever a recycled presence set contains *)
Theorem C07_pool_irrelevant : forall env pool1 pool2 sid bs dst,
  decode_object env pool1 sid bs dst = decode_object env pool2 sid bs dst.
Proof. exact decode_pool_irrelevant. Qed.
Print Assumptions C07_pool_irrelevant.

Example C07_instance : decode_object env_ex [1; 5; 300; 7] 0 [8; 0; 1; 0; 0; 0; 9; 0] (fresh env_ex 0)
  = decode_object env_ex [] 0 [8; 0; 1; 0; 0; 0; 9; 0] (fresh env_ex 0).
Proof. vm_compute. reflexivity. Qed.

(* ---- the process-wide type-node cache (internal/reflect/ttype.go newTType; TypeCache.v) ----
   keyed by (x.String(), x.S) -- read from the source on every run (cache_key_ok) -- it is
   transparent: over ANY history of requests the node handed out for a (Go type, parsed Thrift type)
   is the one a fresh process would build, with the schema type the tags say.  (Without the printed
   Thrift type in the key a named int64 registered first as enum stays an enum for the whole
   process: TypeCacheProofs.cache_opaque_without_T.) *)
Theorem C07_type_cache_transparent : forall reqs, cache_key_ok = true -> Forall shaped reqs ->
  snd (serve ttypes_key_has_T ttypes_key_has_S [] reqs) = map (fun r => node_of (fst r) (snd r)) reqs.
Proof. exact cache_transparent_src. Qed.

Theorem C07_type_cache_schema : forall reqs, Forall shaped reqs ->
  map node_ty (snd (serve true true [] reqs)) = map (fun r => ty_of (snd r)) reqs.
Proof. exact cache_transparent_ty. Qed.

Theorem C07_cache_key : cache_key_ok = true.
Proof. exact cache_key_ok_holds. Qed.
Print Assumptions C07_type_cache_transparent.

(* the registration path of desc.go reads as State.v assumes: one lock around build, rollback on
   failure / commit on success, and publication; nothing deferred outside the lock (Checks.access_ok) *)
Theorem C07_registration_shape : access_ok = true.
Proof. exact access_ok_holds. Qed.
