(* C05 -- malformed input is rejected with an error, never a crash. *)
From Coq Require Import List NArith Bool.
From Frugal Require Import Bytes Wire Skip Values Desc Spec Encode Decode Checks Tags State Bitset Alloc DescMap Conc LegacyDefs.
From Frugal.gen Require Import Params.
From Frugal.proofs Require Import GenParams DecodeSafe.
From Frugal.proofs Require Import DecodeSound.
From Frugal.props Require Import Examples.
Import ListNotations.

(* for EVERY byte string: never a Go panic (index / slice out of range, division by zero) and the
   loops always terminate within their fuel *)
Theorem C05_no_panic : forall env pool sid bs dst, params_ok = true ->
  decode_object env pool sid bs dst <> DPanic /\ decode_object env pool sid bs dst <> DFuel.
Proof. exact decode_object_safe_any. Qed.
Print Assumptions C05_no_panic.

(* so the outcome is success on a strict prefix, with n the length consumed, or an error *)
Theorem C05_total : forall env pool sid bs dst, params_ok = true ->
  (exists v n rest, decode_object env pool sid bs dst = DOk (v, n) rest /\ (length rest < length bs)%nat
                    /\ n = (len bs - len rest)%N)
  \/ (exists e, decode_object env pool sid bs dst = DErr e).
Proof. exact decode_object_total. Qed.

(* success ONLY on well-formed messages: whenever the decoder succeeds, the bytes consumed are the
   encoding of a well-formed wire struct, n is its length, and the value is what the reference
   decoder computes from it (the converse, acceptance of every well-formed message within the depth
   budgets, is C03_decode_is_absorb) *)
Theorem C05_sound : forall env pool sid bs dst v n rest,
  params_ok = true -> env_ok env = true -> bytes_ok bs = true ->
  decode_object env pool sid bs dst = DOk (v, n) rest ->
  exists fs, wf (WStruct fs []) = true /\ bs = put (WStruct fs []) ++ rest
             /\ n = len (put (WStruct fs [])) /\ absorb_top env sid (WStruct fs []) dst = AOk v.
Proof. exact decode_sound. Qed.
Print Assumptions C05_sound.

(* truncated input is an error *)
Theorem C05_empty_is_short : forall env pool sid sd fs h, params_ok = true -> lookup_sd env sid = Some sd ->
  decode_object env pool sid [] (VT fs h) = DErr EShort.
Proof. exact decode_empty. Qed.

(* the table of minimal wire sizes used by the pre-allocation checks never exceeds a real encoding *)
Theorem C05_min_wire_sound : params_ok = true.
Proof. exact params_ok_holds. Qed.

(* PARTIAL: the bound on time and memory in terms of the input length is not a theorem here; the
   model has no cost semantics.  It is measured by the correspondence run (TotalAlloc, wall time). *)
Example C05_instance : decode_object env_ex [] 0 [8; 0; 1; 0; 0] (fresh env_ex 0) = DErr EShort
  /\ decode_object env_ex [] 0 [15; 0; 3; 12; 127; 255; 255; 255] (fresh env_ex 0) = DErr ESizeExceeds.
Proof. split; vm_compute; reflexivity. Qed.

(* the side conditions on the generated constants and tables that the theorems above assume hold
   for what the translator read from the sources of this run *)
Theorem C05_side_conditions : params_ok = true.
Proof. exact params_ok_holds. Qed.
