(* C05 -- malformed input is rejected with an error, never a crash. *)
From Coq Require Import List NArith Bool.
From Frugal Require Import Bytes Wire Skip Values Desc Spec Encode Decode Checks Tags State Bitset Alloc DescMap Conc LegacyDefs.
From Frugal.gen Require Import Params.
From Frugal.proofs Require Import GenDecParams DecodeSafe.
From Frugal.proofs Require Import DecodeSound DecodeCost.
From Frugal.props Require Import Examples.
From Frugal Require Import DisciplineChecks.
From Frugal.proofs Require Import GenDepthArgs.
Import ListNotations.

(* for EVERY byte string: never a Go panic (index / slice out of range, division by zero) and the
   loops always terminate within their fuel *)
Theorem C05_no_panic : forall env pool sid bs dst, dec_params_ok = true ->
  decode_object env pool sid bs dst <> DPanic /\ decode_object env pool sid bs dst <> DFuel.
Proof. exact decode_object_safe_any. Qed.
Print Assumptions C05_no_panic.

(* so the outcome is success on a strict prefix, with n the length consumed, or an error *)
Theorem C05_total : forall env pool sid bs dst, dec_params_ok = true ->
  (exists v n rest, decode_object env pool sid bs dst = DOk (v, n) rest /\ (length rest < length bs)%nat
                    /\ n = (len bs - len rest)%N)
  \/ (exists e, decode_object env pool sid bs dst = DErr e).
Proof. exact decode_object_total. Qed.

(* success ONLY on well-formed messages: whenever the decoder succeeds, the bytes consumed are the
   encoding of a well-formed wire struct, n is its length, and the value is what the reference
   decoder computes from it (the converse, acceptance of every well-formed message within the depth
   budgets, is C03_decode_is_absorb) *)
Theorem C05_sound : forall env pool sid bs dst v n rest,
  dec_params_ok = true -> env_ok env = true -> bytes_ok bs = true ->
  decode_object env pool sid bs dst = DOk (v, n) rest ->
  exists fs, wf (WStruct fs []) = true /\ bs = put (WStruct fs []) ++ rest
             /\ n = len (put (WStruct fs [])) /\ absorb_top env sid (WStruct fs []) dst = AOk v.
Proof. exact decode_sound. Qed.
Print Assumptions C05_sound.

(* truncated input is an error *)
Theorem C05_empty_is_short : forall env pool sid sd fs h, dec_params_ok = true -> lookup_sd env sid = Some sd ->
  decode_object env pool sid [] (VT fs h) = DErr EShort.
Proof. exact decode_empty. Qed.

(* the table of minimal wire sizes used by the pre-allocation checks never exceeds a real encoding *)
Theorem C05_min_wire_sound : dec_params_ok = true.
Proof. exact dec_params_ok_holds. Qed.

(* memory: what a successful decode builds is linear in the bytes it consumed.  vsize counts the
   nodes of the decoded value (scalars, string bytes, container elements, structs and their holder);
   K_env is one more than the most expensive struct of the schema to create (its zero value plus
   what InitDefault assigns) -- a constant of the destination type, not of the input *)
Theorem C05_memory_linear : forall env pool sid bs dst v n rest,
  dec_params_ok = true -> env_ok env = true -> bytes_ok bs = true ->
  decode_object env pool sid bs dst = DOk (v, n) rest ->
  (vsize v <= vsize dst + K_env env * N.to_nat n)%nat.
Proof. exact decode_cost. Qed.
Print Assumptions C05_memory_linear.

(* and the allocations made up front are bounded before anything is decoded: a container header
   whose count cannot fit into the remaining bytes is refused whatever the element decoder dt
   would do, and a count that passes is at most the number of remaining bytes *)
Theorem C05_list_count_refused : forall env dt, dec_params_ok = true -> forall e tp h r1,
  len h = 4%N -> neg32 (be_get h) = false -> wt e = tp ->
  (len r1 < be_get h * min_wire (wt e))%N ->
  dec_list env dt e (tp :: h ++ r1) = DErr ESizeExceeds.
Proof. exact list_count_rejected. Qed.

Theorem C05_list_count_bounded : forall env dt, dec_params_ok = true -> forall e tp h r1,
  len h = 4%N -> neg32 (be_get h) = false -> wt e = tp -> be_get h <> 0%N ->
  short r1 (be_get h * min_wire (wt e)) = false ->
  (be_get h <= len r1)%N /\ dec_list env dt e (tp :: h ++ r1) = list_loop env dt (be_get h) e r1.
Proof. exact list_count_admitted. Qed.

Theorem C05_map_count_refused : forall env dt, dec_params_ok = true -> forall kt vt kc vc h r1,
  len h = 4%N -> neg32 (be_get h) = false -> kc = wt kt -> vc = wt vt ->
  (len r1 < be_get h * (min_wire (wt kt) + min_wire (wt vt)))%N ->
  dec_map env dt kt vt (kc :: vc :: h ++ r1) = DErr ESizeExceeds.
Proof. exact map_count_rejected. Qed.

Theorem C05_string_length_refused : dec_params_ok = true -> forall h r,
  len h = 4%N -> neg32 (be_get h) = false -> (len r < be_get h)%N ->
  dec_string (h ++ r) = DErr ESizeExceeds.
Proof. exact string_len_rejected. Qed.

(* PARTIAL: time, and the memory of a decode that FAILS midway (what it allocated before the
   error), are not theorems: the model has no cost semantics for steps.  They are measured by the
   correspondence run (TotalAlloc, wall time, under a memory limit). *)
Example C05_hostile_counts :
  decode_object env_ex [] 0 [15; 0; 3; 12; 127; 255; 255; 255]%N (fresh env_ex 0) = DErr ESizeExceeds
  /\ decode_object env_ex [] 0 [13; 0; 4; 11; 10; 127; 255; 255; 255; 0; 0; 0; 0; 0; 0; 0; 0; 0; 0; 0]%N
                   (fresh env_ex 0) = DErr ESizeExceeds
  /\ decode_object env_ex [] 0 [11; 0; 2; 127; 255; 255; 255; 65]%N (fresh env_ex 0) = DErr ESizeExceeds.
Proof. exact ex_hostile. Qed.
Example C05_instance : decode_object env_ex [] 0 [8; 0; 1; 0; 0] (fresh env_ex 0) = DErr EShort
  /\ decode_object env_ex [] 0 [15; 0; 3; 12; 127; 255; 255; 255] (fresh env_ex 0) = DErr ESizeExceeds.
Proof. split; vm_compute; reflexivity. Qed.

(* the side conditions on the generated constants and tables that the theorems above assume hold
   for what the translator read from the sources of this run *)
Theorem C05_side_conditions : dec_params_ok = true.
Proof. exact dec_params_ok_holds. Qed.

(* structural facts about the Go source which the hand-written model builds in (DisciplineChecks.v),
   read from the source by the translator and re-proved on every run *)
Theorem C05_model_assumptions : depth_args_ok = true.
Proof. exact depth_args_ok_holds. Qed.
