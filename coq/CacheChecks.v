(* CacheChecks.v -- decidable side condition on gen/CacheKey.v (what the
   translator read from newTType and from the String method of defs.Type),
   discharged by vm_compute in proofs/GenCacheKey.v on every run.

   [cache_key_ok] says: the key literal of newTType has exactly the fields T
   (= x.String()) and S (= x.S), is assigned once and is the key of both the
   lookup and the store; and Type.String() is, case by case, the text the
   model [dt_string] of TypeCache.v was written from.  The last part is checked
   twice: against a literal copy of the table, and against the table rebuilt
   from the character constants [dt_string] uses. *)
From Coq Require Import List NArith Bool String Ascii.
From Frugal Require Import Bytes Values Desc Tags TypeCache.
From Frugal.gen Require Import CacheKey.
Import ListNotations.

Definition string_list_eqb (a b : list string) : bool := list_eqb String.eqb a b.
Definition case_eqb (a b : string * string) : bool :=
  String.eqb (fst a) (fst b) && String.eqb (snd a) (snd b).
Definition cases_eqb (a b : list (string * string)) : bool := list_eqb case_eqb a b.

Open Scope string_scope.

Definition expected_key_fields : list string := ["T:string"; "S:reflect.Type"].

(* copied from gen/CacheKey.v as generated from the unmodified sources *)
Definition expected_string_cases : list (string * string) := [
  ("T_binary", "return""binary""");
  ("T_bool", "return""bool""");
  ("T_double", "return""double""");
  ("T_enum", "return""enum""");
  ("T_i16", "return""i16""");
  ("T_i32", "return""i32""");
  ("T_i64", "return""i64""");
  ("T_i8", "return""i8""");
  ("T_list", "returnfmt.Sprintf(""list<%s>"",t.V.String())");
  ("T_map", "returnfmt.Sprintf(""map<%s:%s>"",t.K.String(),t.V.String())");
  ("T_pointer", "return""*""+t.V.String()");
  ("T_set", "returnfmt.Sprintf(""set<%s>"",t.V.String())");
  ("T_string", "return""string""");
  ("T_struct", "returnt.S.Name()");
  ("default", "returnfmt.Sprintf(""Type(Tag(%d))"",t.T)")
].

(* ---- the same table, rebuilt from the constants of the model ---- *)
Fixpoint string_of_codes (l : list N) : string :=
  match l with
  | [] => EmptyString
  | c :: r => String (ascii_of_N c) (string_of_codes r)
  end.

Definition q : string := String (ascii_of_N 34) EmptyString.          (* the double quote *)
Definition lit (s : list N) : string := "return" ++ q ++ string_of_codes s ++ q.
Definition ch (c : N) : string := string_of_codes [c].

Definition model_string_cases : list (string * string) := [
  ("T_binary", lit s_binary);
  ("T_bool", lit s_bool);
  ("T_double", lit s_double);
  ("T_enum", lit s_enum);
  ("T_i16", lit s_i16);
  ("T_i32", lit s_i32);
  ("T_i64", lit s_i64);
  ("T_i8", lit s_i8);
  ("T_list", "returnfmt.Sprintf(" ++ q ++ string_of_codes s_list_lt ++ "%s" ++ ch c_gt ++ q ++ ",t.V.String())");
  ("T_map", "returnfmt.Sprintf(" ++ q ++ string_of_codes s_map_lt ++ "%s" ++ ch c_colon ++ "%s" ++ ch c_gt ++ q
            ++ ",t.K.String(),t.V.String())");
  ("T_pointer", "return" ++ q ++ ch c_star ++ q ++ "+t.V.String()");
  ("T_set", "returnfmt.Sprintf(" ++ q ++ string_of_codes s_set_lt ++ "%s" ++ ch c_gt ++ q ++ ",t.V.String())");
  ("T_string", lit s_string);
  ("T_struct", "returnt.S.Name()");
  ("default", "returnfmt.Sprintf(" ++ q ++ "Type(Tag(%d))" ++ q ++ ",t.T)")
].

Definition cache_key_ok : bool :=
  ttypes_key_has_T && ttypes_key_has_S && ttypes_key_single_assignment && ttypes_key_used
  && (match ttypes_key_other with [] => true | _ => false end)
  && string_list_eqb ttypes_key_fields expected_key_fields
  && cases_eqb type_string_cases expected_string_cases
  && cases_eqb type_string_cases model_string_cases.
