(* Tags.v -- model of internal/defs: struct-tag lookup (frugal before thrift),
   the token reader, the recursive type-annotation parser matched against
   the Go type, field resolution (id, requiredness, type, options, sort by
   id), and the conversion of the result into the descriptor types of Desc.v
   (internal/reflect/desc.go fromDefsFields, ttype.go newTType).
   Strings are byte lists; tags are assumed to be ASCII without escapes. *)
From Coq Require Import List NArith Bool.
From Frugal Require Import Bytes Values Desc.
Import ListNotations.
Open Scope N_scope.

Definition str := list N.

(* ---- Go types as reflect shows them ---- *)
Inductive gotype : Type :=
| GBool | GInt | GInt8 | GInt16 | GInt32
| GInt64 (name : str)                 (* [] = int64 itself, otherwise a named type (enum) *)
| GFloat64 | GString
| GSlice (e : gotype) | GMap (k v : gotype) | GPtr (t : gotype)
| GStruct (sid : N) (name : str)      (* struct type number sid of the universe; Go name ([] = anonymous) *)
| GUint8                              (* byte: only []byte is supported *)
| GUnsup (kind : N).                  (* uint, uint16.., float32, array, chan, func, interface, complex, uintptr *)

Record gofield := mkGoField {
  gf_name : str;
  gf_type : gotype;
  gf_tag : str;            (* the raw struct tag *)
  gf_exported : bool;
  gf_anonymous : bool
}.

Record gostruct := mkGoStruct {
  gs_name : str;
  gs_fields : list gofield;                       (* declaration order *)
  gs_init : option (list (nat * val))             (* InitDefault: (index into gs_fields, value) *)
}.

(* ---- characters ---- *)
Definition is_space (c : N) : bool :=
  (c =? 32) || ((9 <=? c) && (c <=? 13)).        (* unicode.IsSpace on ASCII *)
Definition is_ident0 (c : N) : bool :=
  (c =? 95) || ((97 <=? c) && (c <=? 122)) || ((65 <=? c) && (c <=? 90)).
Definition is_digit (c : N) : bool := (48 <=? c) && (c <=? 57).
Definition is_ident (c : N) : bool := is_ident0 c || is_digit c.

Definition str_eqb (a b : str) : bool := list_eqb N.eqb a b.

Fixpoint drop_while (p : N -> bool) (s : str) : str :=
  match s with
  | c :: r => if p c then drop_while p r else s
  | [] => []
  end.
Fixpoint take_while (p : N -> bool) (s : str) : str :=
  match s with
  | c :: r => if p c then c :: take_while p r else []
  | [] => []
  end.

Definition trim_space (s : str) : str :=
  rev (drop_while is_space (rev (drop_while is_space s))).

(* strings.Split(s, ",") *)
Fixpoint split_comma (s : str) (cur : str) : list str :=
  match s with
  | [] => [rev cur]
  | c :: r => if c =? 44 then rev cur :: split_comma r [] else split_comma r (c :: cur)
  end.

(* reflect.StructTag.Lookup for conventional tags  key:"value" key2:"value2"
   (no escapes inside the quotes) *)
Fixpoint until_quote (s : str) (acc : str) : option (str * str) :=
  match s with
  | [] => None
  | c :: r => if c =? 34 then Some (rev acc, r) else until_quote r (c :: acc)
  end.

Fixpoint tag_lookup (fuel : nat) (tag key : str) : option str :=
  match fuel with
  | O => None
  | S fuel' =>
      let t := drop_while (N.eqb 32) tag in
      match t with
      | [] => None
      | _ =>
          let name := take_while (fun c => negb (c =? 58) && negb (c =? 34) && negb (c =? 32) && (32 <? c) && negb (c =? 127)) t in
          let rest := skipn (length name) t in
          match name, rest with
          | _ :: _, 58 :: 34 :: r =>
              match until_quote r [] with
              | Some (v, r') => if str_eqb name key then Some v else tag_lookup fuel' r' key
              | None => None
              end
          | _, _ => None
          end
      end
  end.

Definition s_frugal : str := [102; 114; 117; 103; 97; 108].
Definition s_thrift : str := [116; 104; 114; 105; 102; 116].

(* lookupStructTag *)
Definition lookup_struct_tag (tag : str) : option (list str) :=
  match tag_lookup (S (length tag)) tag s_frugal with
  | Some s => Some (map trim_space (split_comma s []))
  | None =>
      match tag_lookup (S (length tag)) tag s_thrift with
      | Some s => Some (map trim_space (tl (split_comma s [])))    (* ignore the field name *)
      | None => None
      end
  end.

(* ---- defs.Type ---- *)
Inductive dtag := DBool | DI8 | DDouble | DI16 | DI32 | DI64 | DString | DStruct | DMap | DSet | DList
                | DEnum | DBinary | DPointer.

Inductive dtype : Type :=
| DT (t : dtag) (k v : option dtype) (sid : N).     (* sid meaningful for DStruct *)

Definition dt_tag (d : dtype) : dtag := match d with DT t _ _ _ => t end.

Inductive pres (A : Type) := ROk (a : A) | RErr.    (* RErr: the definition is rejected with an error *)
Arguments ROk {A}. Arguments RErr {A}.

(* readToken: returns the token and the rest; [] token = end of input *)
Definition read_token (s : str) : str * str :=
  let s1 := drop_while is_space s in
  match s1 with
  | [] => ([], [])
  | c :: r =>
      if is_ident0 c then
        let w := take_while is_ident r in (c :: w, skipn (length w) r)
      else ([c], r)
  end.

(* keywordTab as whole words *)
Definition kw (l : list N) : str := l.
Definition keywords (t : dtag) : list str :=
  match t with
  | DBool => [[98; 111; 111; 108]]
  | DI8 => [[105; 56]; [98; 121; 116; 101]]
  | DDouble => [[100; 111; 117; 98; 108; 101]]
  | DI16 => [[105; 49; 54]]
  | DI32 => [[105; 51; 50]]
  | DI64 => [[105; 54; 52]]
  | DString => [[115; 116; 114; 105; 110; 103]]
  | DBinary => [[98; 105; 110; 97; 114; 121]]
  | DStruct => [[115; 116; 114; 117; 99; 116]]
  | DMap => [[109; 97; 112]]
  | _ => []
  end.
Definition is_keyword (t : dtag) (tok : str) : bool := existsb (str_eqb tok) (keywords t).

Definition s_set : str := [115; 101; 116].
Definition s_list : str := [108; 105; 115; 116].
Definition tok_is (tok : str) (c : N) : bool := str_eqb tok [c].

Definition go_name (t : gotype) : str :=
  match t with
  | GInt64 n => match n with [] => [105; 110; 116; 54; 52] | _ => n end
  | GStruct _ n => n
  | GBool => [98; 111; 111; 108]
  | GInt => [105; 110; 116]
  | GInt8 => [105; 110; 116; 56]
  | GInt16 => [105; 110; 116; 49; 54]
  | GInt32 => [105; 110; 116; 51; 50]
  | GFloat64 => [102; 108; 111; 97; 116; 54; 52]
  | GString => [115; 116; 114; 105; 110; 103]
  | GUint8 => [117; 105; 110; 116; 56]
  | _ => []       (* unnamed composite types *)
  end.

(* doMatchStruct: tv is the identifier already read; def the remaining input.
   Returns (matched, remaining input) *)
Definition match_struct (vt : gotype) (tv : str) (def : str) : pres (bool * str) :=
  let '(tok, rest) := read_token def in
  let tn := go_name vt in
  match vt, tn with
  | GStruct _ _, [] => ROk (true, def)                       (* anonymous struct *)
  | _, _ =>
      match tok with
      | [] => ROk (str_eqb tn tv, def)
      | _ =>
          if tok_is tok 58 || tok_is tok 62 then ROk (str_eqb tn tv, def)
          else if negb (tok_is tok 46) then RErr
          else
            let '(tv2, rest2) := read_token rest in
            match tv2 with
            | [] => RErr
            | c :: _ => if is_ident0 c then ROk (str_eqb tn tv2, rest2) else RErr
            end
      end
  end.

Definition is_key_type (d : dtype) : bool :=
  match d with
  | DT (DBool | DI8 | DDouble | DI16 | DI32 | DI64 | DString | DEnum) _ _ _ => true
  | DT DPointer _ (Some (DT DStruct _ _ _)) _ => true
  | _ => false
  end.
Definition is_value_type (d : dtype) : bool :=
  match d with
  | DT DPointer _ (Some (DT DStruct _ _ _)) _ => true
  | DT DPointer _ _ _ => false
  | _ => true
  end.

Definition expect (c : N) (def : str) : pres str :=
  let '(tok, rest) := read_token def in
  if tok_is tok c then ROk rest else RErr.

(* doParseType.  [annot]: the tag carries a type annotation (def != "").  The
   annotation text is threaded; with no annotation the text stays []. *)
Fixpoint parse_type (vt : gotype) (annot : bool) (def : str) (allow_ptr : bool) {struct vt} : pres (dtype * str) :=
  match vt with
  | GPtr e =>
      if negb allow_ptr then RErr
      else match parse_type e annot def false with
           | ROk (d, rest) =>
               match dt_tag d with
               | DMap | DSet | DList => RErr            (* pointers to containers *)
               | _ => ROk (DT DPointer None (Some d) 0, rest)
               end
           | RErr => RErr
           end
  | GUnsup _ | GUint8 => RErr
  | GSlice e =>
      match e with
      | GUint8 =>
          (* []byte *)
          if annot then
            let '(tok, rest) := read_token def in
            match tok with
            | [] => RErr
            | _ => if is_keyword DBinary tok then ROk (DT DBinary None None 0, rest) else RErr
            end
          else ROk (DT DBinary None None 0, def)
      | _ =>
          if negb annot then RErr                         (* ambiguous set / list *)
          else
            let '(tok, rest) := read_token def in
            let isset := str_eqb tok s_set in
            if negb (isset || str_eqb tok s_list) then RErr
            else match expect 60 rest with
                 | ROk rest1 =>
                     match parse_type e annot rest1 true with
                     | ROk (d, rest2) =>
                         match expect 62 rest2 with
                         | ROk rest3 =>
                             if is_value_type d then ROk (DT (if isset then DSet else DList) None (Some d) 0, rest3)
                             else RErr
                         | RErr => RErr
                         end
                     | RErr => RErr
                     end
                 | RErr => RErr
                 end
      end
  | GMap kt et =>
      (* "map" keyword or nothing *)
      let hd := if annot then
                  let '(tok, rest) := read_token def in
                  match tok with
                  | [] => RErr
                  | _ => if is_keyword DMap tok then ROk rest else RErr
                  end
                else ROk def in
      match hd with
      | RErr => RErr
      | ROk r0 =>
          match (if annot then expect 60 r0 else ROk r0) with
          | RErr => RErr
          | ROk r1 =>
              match parse_type kt annot r1 true with
              | RErr => RErr
              | ROk (kd, r2) =>
                  if negb (is_key_type kd) then RErr
                  else match (if annot then expect 58 r2 else ROk r2) with
                       | RErr => RErr
                       | ROk r3 =>
                           match parse_type et annot r3 true with
                           | RErr => RErr
                           | ROk (vd, r4) =>
                               match (if annot then expect 62 r4 else ROk r4) with
                               | RErr => RErr
                               | ROk r5 => if is_value_type vd then ROk (DT DMap (Some kd) (Some vd) 0, r5) else RErr
                               end
                           end
                       end
              end
          end
      end
  | _ =>
      (* scalar kinds, string, struct *)
      let tag0 := match vt with
                  | GBool => DBool | GInt => DI64 | GInt8 => DI8 | GInt16 => DI16 | GInt32 => DI32
                  | GInt64 _ => DI64 | GFloat64 => DDouble | GString => DString | _ => DStruct
                  end in
      let sid := match vt with GStruct s _ => s | _ => 0 end in
      if negb annot then ROk (DT tag0 None None sid, def)
      else
        let '(tok, rest) := read_token def in
        match tok with
        | [] => RErr
        | c :: _ =>
            if is_keyword tag0 tok then ROk (DT tag0 None None sid, rest)
            else if negb (is_ident0 c) then RErr
            else match match_struct vt tok rest with
                 | RErr => RErr
                 | ROk (false, _) => RErr
                 | ROk (true, rest') =>
                     let tag1 := match vt with
                                 | GInt64 (_ :: _) => DEnum          (* tag == T_i64 && vt != i64type *)
                                 | _ => tag0
                                 end in
                     ROk (DT tag1 None None sid, rest')
                 end
        end
  end.

(* ParseType: the whole annotation must be consumed *)
Definition parse_type_top (vt : gotype) (def : str) : pres dtype :=
  let annot := match def with [] => false | _ => true end in
  match parse_type vt annot def true with
  | ROk (d, rest) => match fst (read_token rest) with [] => ROk d | _ => RErr end
  | RErr => RErr
  end.

(* strconv.ParseUint(s, 10, 16) *)
Fixpoint parse_digits (s : str) (acc : N) : option N :=
  match s with
  | [] => Some acc
  | c :: r => if is_digit c then
                let a := acc * 10 + (c - 48) in
                if 65535 <? a then None else parse_digits r a
              else None
  end.
Definition parse_uint16 (s : str) : option N :=
  match s with [] => None | _ => parse_digits s 0 end.

Definition s_default : str := [100; 101; 102; 97; 117; 108; 116].
Definition s_required : str := [114; 101; 113; 117; 105; 114; 101; 100].
Definition s_optional : str := [111; 112; 116; 105; 111; 110; 97; 108].
Definition s_nocopy : str := [110; 111; 99; 111; 112; 121].

Record dfield := mkDField {
  d_id : N;
  d_type : dtype;
  d_req : req;
  d_nocopy : bool;
  d_index : nat        (* position in gs_fields *)
}.

(* Type.Tag(): the wire tag behind enum / binary / pointer *)
Fixpoint d_wire (d : dtype) : dtag :=
  match d with
  | DT DEnum _ _ _ => DI32
  | DT DBinary _ _ _ => DString
  | DT DPointer _ (Some v) _ => d_wire v
  | DT t _ _ _ => t
  end.

Definition resolve_one (gf : gofield) (idx : nat) (seen : list N) : pres (option dfield) :=
  if gf_anonymous gf || negb (gf_exported gf) then ROk None
  else
    match lookup_struct_tag (gf_tag gf) with
    | None => ROk None
    | Some ft =>
        match ft with
        | [] => RErr                                         (* thrift tag with only a name *)
        | ids :: ft1 =>
            match parse_uint16 ids with
            | None => RErr
            | Some id =>
                if memN id seen then RErr
                else
                  let '(rq, ft2) := match ft1 with [] => (s_default, []) | x :: r => (x, r) end in
                  let rx := if str_eqb rq s_default then Some RDefault
                            else if str_eqb rq s_required then Some RRequired
                            else if str_eqb rq s_optional then Some ROptional else None in
                  match rx with
                  | None => RErr
                  | Some rx =>
                      let '(an, opts) := match ft2 with [] => ([], []) | x :: r => (x, r) end in
                      match parse_type_top (gf_type gf) an with
                      | RErr => RErr
                      | ROk pt =>
                          let ptr_ok :=
                            match pt with
                            | DT DPointer _ (Some (DT DStruct _ _ _)) _ => true
                            | DT DPointer _ _ _ => req_eqb rx ROptional
                            | _ => true
                            end in
                          if negb ptr_ok then RErr
                          else
                            (* options: only "nocopy", once, on string-like types *)
                            let fix opts_ok (os : list str) (have : bool) : option bool :=
                                match os with
                                | [] => Some have
                                | o :: r =>
                                    if str_eqb o s_nocopy then
                                      match d_wire pt with
                                      | DString => if have then None else opts_ok r true
                                      | _ => None
                                      end
                                    else None
                                end in
                            match opts_ok opts false with
                            | None => RErr
                            | Some nc => ROk (Some (mkDField id pt rx nc idx))
                            end
                      end
                  end
            end
        end
    end.

Fixpoint resolve_loop (fs : list gofield) (idx : nat) (seen : list N) (acc : list dfield) : pres (list dfield) :=
  match fs with
  | [] => ROk (rev acc)
  | gf :: r =>
      match resolve_one gf idx seen with
      | RErr => RErr
      | ROk None => resolve_loop r (S idx) seen acc
      | ROk (Some d) => resolve_loop r (S idx) (d_id d :: seen) (d :: acc)
      end
  end.

(* insertion sort by id (ids are distinct) *)
Fixpoint insert_by_id (d : dfield) (l : list dfield) : list dfield :=
  match l with
  | [] => [d]
  | x :: r => if d_id d <? d_id x then d :: l else x :: insert_by_id d r
  end.
Definition sort_by_id (l : list dfield) : list dfield := fold_right insert_by_id [] l.

(* DoResolveFields *)
Definition resolve_fields (gs : gostruct) : pres (list dfield) :=
  match resolve_loop (gs_fields gs) O [] [] with
  | ROk l => ROk (sort_by_id l)
  | RErr => RErr
  end.

(* ---- to the descriptor of Desc.v (newTType / fromDefsField / newStructDesc) ---- *)
Fixpoint ty_of (d : dtype) : ty :=
  match d with
  | DT DBool _ _ _ => TBool | DT DI8 _ _ _ => TI8 | DT DDouble _ _ _ => TDouble | DT DI16 _ _ _ => TI16
  | DT DI32 _ _ _ => TI32 | DT DI64 _ _ _ => TI64 | DT DString _ _ _ => TString
  | DT DEnum _ _ _ => TEnum | DT DBinary _ _ _ => TBinary
  | DT DStruct _ _ sid => TStruct sid
  | DT DMap (Some k) (Some v) _ => TMap (ty_of k) (ty_of v)
  | DT DSet _ (Some v) _ => TList true (ty_of v)
  | DT DList _ (Some v) _ => TList false (ty_of v)
  | DT DPointer _ (Some v) _ => TPtr (ty_of v)
  | _ => TBool
  end.

Definition is_holder_field (gf : gofield) : bool :=
  str_eqb (gf_name gf) [95; 117; 110; 107; 110; 111; 119; 110; 70; 105; 101; 108; 100; 115]
  && match gf_type gf with GSlice GUint8 => true | _ => false end.

(* zero value of a Go type, for the default exemplar *)
Definition deref_val (v : val) : option val :=
  match v with
  | VP None => None
  | VP (Some x) => Some x
  | x => Some x
  end.

Definition sdesc_of (gs : gostruct) (dfs : list dfield) (zero_field : nat -> val) : sdesc :=
  let has_init := match gs_init gs with Some _ => true | None => false end in
  let asg := match gs_init gs with Some a => a | None => [] end in
  (* exemplar value of Go field number i *)
  let exemplar := fun i : nat =>
    fold_left (fun cur (iv : nat * val) => if Nat.eqb (fst iv) i then snd iv else cur) asg (zero_field i) in
  (* position of Go field i in the id-sorted field list *)
  let pos_of := fun i : nat =>
    (fix go (l : list dfield) (p : nat) : option nat :=
       match l with
       | [] => None
       | d :: r => if Nat.eqb (d_index d) i then Some p else go r (S p)
       end) dfs O in
  mkSdesc
    (map (fun d => mkField (d_id d) (ty_of (d_type d)) (d_req d) (d_nocopy d)
                     (if has_init then deref_val (exemplar (d_index d)) else None)) dfs)
    (existsb is_holder_field (gs_fields gs))
    (match gs_init gs with
     | None => None
     | Some a => Some (flat_map (fun iv : nat * val =>
                                   match pos_of (fst iv) with Some p => [(p, snd iv)] | None => [] end) a)
     end).

(* the whole universe: None for a struct whose definition is rejected *)
Definition resolve_universe (gu : list gostruct) : list (option (list dfield)) :=
  map (fun gs => match resolve_fields gs with ROk l => Some l | RErr => None end) gu.

(* ---- the universe: environment and acceptance ---- *)
Definition empty_sd : sdesc := mkSdesc [] false None.

Definition env_types (gu : list gostruct) : senv :=
  map (fun gs => match resolve_fields gs with
                 | ROk dfs => sdesc_of gs dfs (fun _ => VS 0)
                 | RErr => empty_sd
                 end) gu.

Definition build_env (gu : list gostruct) : senv :=
  let e0 := env_types gu in
  map (fun gs =>
         match resolve_fields gs with
         | ROk dfs =>
             sdesc_of gs dfs
               (fun i => match find (fun d => Nat.eqb (d_index d) i) dfs with
                         | Some d => zero_of e0 (ty_of (d_type d))
                         | None => VS 0
                         end)
         | RErr => empty_sd
         end) gu.

(* struct ids mentioned by a type *)
Fixpoint ty_sids (t : ty) : list N :=
  match t with
  | TStruct s => [s]
  | TPtr t' => ty_sids t'
  | TList _ e => ty_sids e
  | TMap k v => ty_sids k ++ ty_sids v
  | _ => []
  end.

(* registration of struct sid succeeds: its definition and the definitions of
   all structs reachable from it resolve (newStructDescAndPrefetch) *)
Definition mentions (ru : list (option (list dfield))) (s : N) : list N :=
  match nth_error ru (N.to_nat s) with
  | Some (Some dfs) => flat_map (fun d => ty_sids (ty_of (d_type d))) dfs
  | _ => []
  end.

Definition add_new (xs set : list N) : list N :=
  fold_left (fun acc x => if memN x acc then acc else acc ++ [x]) xs set.

(* every round adds the structs mentioned by the current set; after as many
   rounds as there are structs the set is closed *)
Fixpoint closure (k : nat) (ru : list (option (list dfield))) (set : list N) : list N :=
  match k with
  | O => set
  | S k' =>
      let set' := add_new (flat_map (mentions ru) set) set in
      if Nat.eqb (length set') (length set) then set else closure k' ru set'
  end.

Definition accepted_with (ru : list (option (list dfield))) (sid : N) : bool :=
  forallb (fun s => match nth_error ru (N.to_nat s) with Some (Some _) => true | _ => false end)
          (closure (length ru) ru [sid]).

Definition accepted (gu : list gostruct) (sid : N) : bool := accepted_with (resolve_universe gu) sid.
