(* EnvParse -- how the FRUGAL_MAX_INLINE_* environment variables are read at process start.
   Models internal/opts/defaults.go parseOrDefault and the function it calls,
   strconv.ParseUint(env, 0, 64) of the Go standard library (base prefixes 0b / 0o / 0x / 0,
   underscores as digit separators when the base is inferred, uint64 range), followed by the
   conversion int(val) on a 64-bit platform (wraps to a negative number from 2^63) and the
   comparison with the minimum.  A string is a list of bytes (N < 256).

   Outcome: [EnvDefault] (variable unset or empty), [EnvValue v], or [EnvPanic] -- the package
   initialiser panics and the process dies before any codec call.  "Valid value" in C17 means:
   not [EnvPanic]. *)
From Coq Require Import List NArith ZArith Bool.
Import ListNotations.
Open Scope N_scope.

Definition lower (c : N) : N := N.lor c 32.          (* c | ('x' - 'X') *)
Definition two64 : N := 18446744073709551616.
Definition maxu64 : N := 18446744073709551615.

Inductive perr := ESyntax | ERange.
Inductive ures := UOk (n : N) | UErr (e : perr).

(* the digit loop; [us] = an underscore was seen *)
Fixpoint parse_loop (base : N) (base0 : bool) (s : list N) (n : N) (us : bool) : ures * bool :=
  match s with
  | [] => (UOk n, us)
  | c :: s' =>
      if (c =? 95) && base0 then parse_loop base base0 s' n true
      else
        let d := if (48 <=? c) && (c <=? 57) then Some (c - 48)
                 else if (97 <=? lower c) && (lower c <=? 122) then Some (lower c - 97 + 10)
                 else None in
        match d with
        | None => (UErr ESyntax, us)
        | Some d =>
            if base <=? d then (UErr ESyntax, us)
            else if (maxu64 / base + 1) <=? n then (UErr ERange, us)
            else let nb := n * base in
                 let n1 := (nb + d) mod two64 in
                 if (n1 <? nb) || (maxu64 <? n1) then (UErr ERange, us)
                 else parse_loop base base0 s' n1 us
        end
  end.

(* strconv.underscoreOK *)
Inductive saw := SawStart | SawDigit | SawUnder | SawOther.
Fixpoint uok_loop (hex : bool) (s : list N) (w : saw) : bool :=
  match s with
  | [] => match w with SawUnder => false | _ => true end
  | c :: s' =>
      if ((48 <=? c) && (c <=? 57)) || (hex && (97 <=? lower c) && (lower c <=? 102))
      then uok_loop hex s' SawDigit
      else if c =? 95 then
        match w with SawDigit => uok_loop hex s' SawUnder | _ => false end
      else match w with SawUnder => false | _ => uok_loop hex s' SawOther end
  end.
Definition is_prefix_letter (c : N) : bool := (lower c =? 98) || (lower c =? 111) || (lower c =? 120).
Definition underscore_ok (s : list N) : bool :=
  let s := match s with c :: r => if (c =? 45) || (c =? 43) then r else s | [] => s end in
  match s with
  | 48 :: c1 :: r => if is_prefix_letter c1 then uok_loop (lower c1 =? 120) r SawDigit
                     else uok_loop false s SawStart
  | _ => uok_loop false s SawStart
  end.

(* strconv.ParseUint(s, 0, 64) *)
Definition parse_uint0 (s : list N) : ures :=
  match s with
  | [] => UErr ESyntax
  | c0 :: r0 =>
      let '(base, body) :=
        if c0 =? 48 then
          match r0 with
          | c1 :: ((_ :: _) as r2) =>
              if lower c1 =? 98 then (2, r2)
              else if lower c1 =? 111 then (8, r2)
              else if lower c1 =? 120 then (16, r2)
              else (8, r0)
          | _ => (8, r0)
          end
        else (10, s) in
      match parse_loop base true body 0 false with
      | (UOk n, us) => if us && negb (underscore_ok s) then UErr ESyntax else UOk n
      | (UErr e, _) => UErr e
      end
  end.

(* int(val) on a 64-bit platform *)
Definition to_int64 (v : N) : Z :=
  let m := v mod two64 in
  if m <? 9223372036854775808 then Z.of_N m else (Z.of_N m - Z.of_N two64)%Z.

Inductive env_outcome := EnvDefault | EnvValue (v : Z) | EnvPanic.

(* parseOrDefault(key, def, min) given the content of the variable *)
Definition parse_or_default (s : list N) (min : Z) : env_outcome :=
  match s with
  | [] => EnvDefault
  | _ => match parse_uint0 s with
         | UErr _ => EnvPanic
         | UOk val => let ret := to_int64 val in
                      if (ret <=? min)%Z then EnvPanic else EnvValue ret
         end
  end.

(* the two variables of internal/opts/defaults.go: minimum 1 and 256 *)
Definition env_alive (depth ilsize : list N) : bool :=
  match parse_or_default depth 1, parse_or_default ilsize 256 with
  | EnvPanic, _ | _, EnvPanic => false
  | _, _ => true
  end.

(* value denoted by a string of decimal digits *)
Definition dec_val (ds : list N) : N := fold_left (fun a c => a * 10 + (c - 48)) ds 0.
Definition all_digits (ds : list N) : bool := forallb (fun c => (48 <=? c) && (c <=? 57)) ds.

(* value denoted by a digit string in base b (digits 0-9, a-z / A-Z), for the statements about prefixed numerals *)
Definition digit_val (c : N) : option N :=
  if (48 <=? c) && (c <=? 57) then Some (c - 48)
  else if (97 <=? lower c) && (lower c <=? 122) then Some (lower c - 97 + 10) else None.
Definition digits_in (b : N) (ds : list N) : bool :=
  forallb (fun c => match digit_val c with Some d => d <? b | None => false end) ds.
Definition base_val (b : N) (ds : list N) : N :=
  fold_left (fun a c => a * b + match digit_val c with Some d => d | None => 0 end) ds 0.

(* the base and the digit part strconv.ParseUint(s, 0, 64) chooses for a non-empty s (for stating soundness) *)
Definition base_body (s : list N) : N * list N :=
  match s with
  | [] => (10, [])
  | c0 :: r0 =>
      if c0 =? 48 then
        match r0 with
        | c1 :: ((_ :: _) as r2) =>
            if lower c1 =? 98 then (2, r2)
            else if lower c1 =? 111 then (8, r2)
            else if lower c1 =? 120 then (16, r2)
            else (8, r0)
        | _ => (8, r0)
        end
      else (10, s)
  end.
Definition no_underscores (s : list N) : list N := filter (fun c => negb (c =? 95)) s.
