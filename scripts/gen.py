"""Type universe, values and wire messages for the correspondence check.

Everything random is drawn from one splitmix64 state (class Rng) seeded from
VERIF_SEED, so a run replays exactly.

Python-side representations
  type  : ('bool',) ('i8',) ('i16',) ('i32',) ('i64',) ('double',) ('enum', GoName)
          ('string',) ('binary',) ('list', T) ('set', T) ('map', K, V)
          ('struct', Name)  -- by value      ('ptr', T)
  value : ('s', int) ('b', bytes) ('bn',) ('l', [v]) ('ln',) ('m', [(k, v)]) ('mn',)
          ('p', v) ('pn',) ('t', holder_bytes, [v])   -- struct fields sorted by id
"""
import struct as _struct

MASK64 = (1 << 64) - 1


class Rng:
    def __init__(self, seed):
        self.s = seed & MASK64

    def next(self):
        self.s = (self.s + 0x9E3779B97F4A7C15) & MASK64
        z = self.s
        z = ((z ^ (z >> 30)) * 0xBF58476D1CE4E5B9) & MASK64
        z = ((z ^ (z >> 27)) * 0x94D049BB133111EB) & MASK64
        return z ^ (z >> 31)

    def below(self, n):
        return self.next() % n if n > 0 else 0

    def chance(self, num, den):
        return self.below(den) < num

    def pick(self, xs):
        return xs[self.below(len(xs))]

    def fork(self, tag):
        h = self.next()
        for c in str(tag).encode():
            h = ((h ^ c) * 0x100000001B3) & MASK64
        return Rng(h)


SCALARS = ['bool', 'i8', 'i16', 'i32', 'i64', 'double', 'enum']
WIDTH = {'bool': 8, 'i8': 8, 'i16': 16, 'i32': 32, 'i64': 64, 'double': 64, 'enum': 64}
GO_SCALAR = {'bool': 'bool', 'i8': 'int8', 'i16': 'int16', 'i32': 'int32', 'i64': 'int64', 'double': 'float64'}
ENUM_NAME = 'Enum0'


def T(k, *a):
    return (k,) + tuple(a)


def enum_t():
    return ('enum', ENUM_NAME)


def is_scalar(t):
    return t[0] in SCALARS


def go_type(t):
    k = t[0]
    if k in GO_SCALAR:
        return GO_SCALAR[k]
    if k == 'enum':
        return t[1]
    if k == 'string':
        return 'string'
    if k == 'binary':
        return '[]byte'
    if k in ('list', 'set'):
        return '[]' + go_type(t[1])
    if k == 'map':
        return 'map[%s]%s' % (go_type(t[1]), go_type(t[2]))
    if k == 'struct':
        return t[1]
    if k == 'ptr':
        return '*' + go_type(t[1])
    raise ValueError(t)


def annot(t):
    """canonical Thrift type annotation of the tag"""
    k = t[0]
    if k in ('bool', 'i8', 'i16', 'i32', 'i64', 'double', 'string', 'binary'):
        return k
    if k == 'enum':
        return t[1]
    if k == 'list':
        return 'list<%s>' % annot(t[1])
    if k == 'set':
        return 'set<%s>' % annot(t[1])
    if k == 'map':
        return 'map<%s:%s>' % (annot(t[1]), annot(t[2]))
    if k == 'struct':
        return t[1]
    if k == 'ptr':
        return annot(t[1])
    raise ValueError(t)


class Field:
    def __init__(self, fid, ty, req='default', nocopy=False, name=None, tag=None,
                 go_text=None, model_text=None, exported=True, anonymous=False, ignored=False):
        self.fid = fid
        self.ty = ty
        self.req = req
        self.nocopy = nocopy
        self.name = name or ('F%d' % fid)
        self.tag = tag              # explicit struct tag text (C12 spellings, C13 broken tags); None = canonical frugal tag
        self.go_text = go_text      # Go type text override (types outside the schema language)
        self.model_text = model_text  # gotype s-expression override matching go_text
        self.exported = exported
        self.anonymous = anonymous
        self.ignored = ignored      # not part of the schema: untagged, unexported or embedded

    def tag_text(self):
        if self.tag is not None:
            return self.tag
        if self.ignored and (self.exported and not self.anonymous):
            return ''
        s = '%d,%s,%s' % (self.fid, self.req, annot(self.ty))
        if self.nocopy:
            s += ',nocopy'
        return 'frugal:"%s"' % s


class Struct:
    def __init__(self, name, fields, holder=False, init=None, invalid=False):
        self.name = name
        self.fields = fields            # declaration order (including ignored fields)
        self.holder = holder
        self.init = init                # None or {field name: value}
        self.invalid = invalid          # the definition must be rejected
        self.sid = None

    def sorted_fields(self):
        if self.invalid:
            return []
        return sorted([f for f in self.fields if not f.ignored], key=lambda f: f.fid)


def gotype_sx(u, t):
    k = t[0]
    if k == 'bool':
        return 'bool'
    if k in ('i8', 'i16', 'i32'):
        return 'int' + k[1:]
    if k == 'i64':
        return '(int64 -)'
    if k == 'double':
        return 'float64'
    if k == 'enum':
        return '(int64 %s)' % t[1]
    if k == 'string':
        return 'string'
    if k == 'binary':
        return '(slice uint8)'
    if k in ('list', 'set'):
        return '(slice %s)' % gotype_sx(u, t[1])
    if k == 'map':
        return '(map %s %s)' % (gotype_sx(u, t[1]), gotype_sx(u, t[2]))
    if k == 'struct':
        return '(struct %d %s)' % (u.by_name[t[1]].sid, t[1])
    if k == 'ptr':
        return '(ptr %s)' % gotype_sx(u, t[1])
    raise ValueError(t)


class Universe:
    def __init__(self):
        self.structs = []
        self.by_name = {}

    def add(self, s):
        s.sid = len(self.structs)
        self.structs.append(s)
        self.by_name[s.name] = s
        return s

    # ---- model syntax
    def ty_sx(self, t):
        k = t[0]
        if k in ('list', 'set'):
            return '(%s %s)' % (k, self.ty_sx(t[1]))
        if k == 'map':
            return '(map %s %s)' % (self.ty_sx(t[1]), self.ty_sx(t[2]))
        if k == 'struct':
            return '(struct %d)' % self.by_name[t[1]].sid
        if k == 'ptr':
            return '(ptr %s)' % self.ty_sx(t[1])
        if k == 'enum':
            return 'enum'
        return k

    def zero(self, t):
        k = t[0]
        if k in SCALARS:
            return ('s', 0)
        if k == 'string':
            return ('b', b'')
        if k == 'binary':
            return ('bn',)
        if k in ('list', 'set'):
            return ('ln',)
        if k == 'map':
            return ('mn',)
        if k == 'ptr':
            return ('pn',)
        if k == 'struct':
            s = self.by_name[t[1]]
            return ('t', b'', [self.zero(f.ty) for f in s.sorted_fields()])
        raise ValueError(t)

    def fresh(self, s):
        v = self.zero(('struct', s.name))
        if s.init:
            fs = list(v[2])
            for i, f in enumerate(s.sorted_fields()):
                if f.name in s.init:
                    fs[i] = s.init[f.name]
            v = ('t', b'', fs)
        return v

    def env_sx(self):
        out = ['(env']
        for s in self.structs:
            if s.invalid:
                out.append('(sd %s 0 noinit)' % s.name)
                continue
            parts = ['(sd %s %d' % (s.name, 1 if s.holder else 0)]
            sf = s.sorted_fields()
            if s.init is None:
                parts.append('noinit')
            else:
                asg = []
                for f in s.fields:          # InitDefault assigns in declaration order
                    if f.name in s.init and not f.ignored:
                        asg.append('(%d %s)' % (sf.index(f), val_sx(s.init[f.name])))
                parts.append('(init %s)' % ' '.join(asg))
            ex = self.fresh(s)[2] if s.init is not None else None
            for i, f in enumerate(sf):
                d = 'nodflt'
                if ex is not None:
                    dv = ex[i]
                    while dv[0] == 'p':
                        dv = dv[1]
                    if dv[0] != 'pn':
                        d = val_sx(dv)
                parts.append('(f %d %s %s %d %s %s)' % (f.fid, self.ty_sx(f.ty), f.req, 1 if f.nocopy else 0, d, f.name))
            out.append(' '.join(parts) + ')')
        out.append(')')
        out.append('(invalid %s)' % ' '.join(s.name for s in self.structs if s.invalid))
        return '\n'.join(out)

    def gouniverse_sx(self):
        out = ['(gouniverse']
        for s in self.structs:
            parts = ['(gs %s' % s.name]
            if s.init is None:
                parts.append('noinit')
            else:
                asg = []
                for i, f in enumerate(s.fields):
                    if f.name in s.init and not f.ignored:
                        asg.append('(%d %s)' % (i, val_sx(s.init[f.name])))
                parts.append('(init %s)' % ' '.join(asg))
            for f in s.fields:
                mt = f.model_text if f.model_text is not None else gotype_sx(self, f.ty)
                tg = f.tag_text().encode().hex() or '-'
                nm = f.name if not f.anonymous else (f.go_text or go_type(f.ty)).lstrip('*')
                parts.append('(gf %s %s %s %d %d)' % (nm, mt, tg, 1 if f.exported else 0, 1 if f.anonymous else 0))
            if s.holder:
                parts.append('(gf _unknownFields (slice uint8) - 0 0)')
            out.append(' '.join(parts) + ')')
        out.append(')')
        return '\n'.join(out)

    # ---- Go source
    def go_source(self):
        o = ['// Code generated by /verif/scripts/gen.py. DO NOT EDIT.', 'package main', '',
             'import (', '\t"math"', '\t"reflect"', ')', '', 'var _ = math.Float64frombits', '',
             'type %s int64' % ENUM_NAME, 'type EnumI int', '', 'func ptrOf[X any](v X) *X { return &v }', '']
        for s in self.structs:
            o.append('type %s struct {' % s.name)
            for f in s.fields:
                gt = f.go_text if f.go_text is not None else go_type(f.ty)
                tg = f.tag_text()
                if f.anonymous:
                    o.append('\t%s%s' % (gt, (' `%s`' % tg) if tg else ''))
                else:
                    o.append('\t%s %s%s' % (f.name, gt, (' `%s`' % tg) if tg else ''))
            if s.holder:
                o.append('\t_unknownFields []byte')
            o.append('}')
            o.append('')
            if s.init is not None:
                o.append('func (p *%s) InitDefault() {' % s.name)
                for f in s.fields:
                    if f.name in s.init and not f.ignored:
                        o.append('\tp.%s = %s' % (f.name, self.go_lit(f.ty, s.init[f.name])))
                o.append('}')
                o.append('')
        o.append('var verifTypes = map[string]reflect.Type{')
        for s in self.structs:
            o.append('\t"%s": reflect.TypeOf(%s{}),' % (s.name, s.name))
        o.append('}')
        o.append('')
        o.append('var verifFields = map[string][]string{')
        for s in self.structs:
            o.append('\t"%s": {%s},' % (s.name, ', '.join('"%s"' % f.name for f in s.sorted_fields())))
        o.append('}')
        return '\n'.join(o) + '\n'

    def go_lit(self, t, v):
        k = t[0]
        if k == 'bool':
            return 'true' if v[1] else 'false'
        if k in ('i8', 'i16', 'i32', 'i64'):
            w = WIDTH[k]
            x = v[1]
            if x >= 1 << (w - 1):
                x -= 1 << w
            return '%s(%d)' % (GO_SCALAR[k], x)
        if k == 'enum':
            x = v[1]
            if x >= 1 << 63:
                x -= 1 << 64
            return '%s(%d)' % (t[1], x)
        if k == 'double':
            return 'math.Float64frombits(0x%x)' % v[1]
        if k == 'string':
            return '"' + ''.join('\\x%02x' % c for c in v[1]) + '"'
        if k == 'binary':
            if v[0] == 'bn':
                return '[]byte(nil)'
            return '[]byte("' + ''.join('\\x%02x' % c for c in v[1]) + '")'
        if k in ('list', 'set'):
            if v[0] == 'ln':
                return '%s(nil)' % go_type(t)
            return '%s{%s}' % (go_type(t), ', '.join(self.go_lit(t[1], e) for e in v[1]))
        if k == 'map':
            if v[0] == 'mn':
                return '%s(nil)' % go_type(t)
            return '%s{%s}' % (go_type(t), ', '.join('%s: %s' % (self.go_lit(t[1], a), self.go_lit(t[2], b)) for a, b in v[1]))
        if k == 'ptr':
            if v[0] == 'pn':
                return '(%s)(nil)' % go_type(t)
            if t[1][0] == 'struct':
                return '&' + self.go_lit(t[1], v[1])
            return 'ptrOf[%s](%s)' % (go_type(t[1]), self.go_lit(t[1], v[1]))
        if k == 'struct':
            s = self.by_name[t[1]]
            parts = []
            for f, fv in zip(s.sorted_fields(), v[2]):
                parts.append('%s: %s' % (f.name, self.go_lit(f.ty, fv)))
            return '%s{%s}' % (s.name, ', '.join(parts))
        raise ValueError(t)


def val_sx(v):
    k = v[0]
    if k == 's':
        return '(s %d)' % v[1]
    if k == 'b':
        return '(b %s)' % v[1].hex() if v[1] else '(b)'
    if k in ('bn', 'ln', 'mn', 'pn'):
        return '(%s)' % k
    if k == 'l':
        return '(l' + ''.join(' ' + val_sx(e) for e in v[1]) + ')'
    if k == 'm':
        return '(m' + ''.join(' %s %s' % (val_sx(a), val_sx(b)) for a, b in v[1]) + ')'
    if k == 'p':
        return '(p %s)' % val_sx(v[1])
    if k == 't':
        return '(t %s%s)' % (v[1].hex() if v[1] else '-', ''.join(' ' + val_sx(e) for e in v[2]))
    raise ValueError(v)


def parse_sx(s):
    """minimal s-expression reader: returns nested lists of str"""
    toks = s.replace('(', ' ( ').replace(')', ' ) ').split()
    pos = [0]

    def rd():
        t = toks[pos[0]]
        pos[0] += 1
        if t == '(':
            r = []
            while toks[pos[0]] != ')':
                r.append(rd())
            pos[0] += 1
            return r
        return t
    return rd()


def val_of_sx(x):
    h = x[0]
    if h == 's':
        return ('s', int(x[1]))
    if h == 'b':
        return ('b', bytes.fromhex(x[1]) if len(x) > 1 else b'')
    if h in ('bn', 'ln', 'mn', 'pn'):
        return (h,)
    if h == 'l':
        return ('l', [val_of_sx(e) for e in x[1:]])
    if h == 'm':
        return ('m', [(val_of_sx(x[i]), val_of_sx(x[i + 1])) for i in range(1, len(x) - 1, 2)])
    if h == 'p':
        return ('p', val_of_sx(x[1]))
    if h == 't':
        return ('t', b'' if x[1] == '-' else bytes.fromhex(x[1]), [val_of_sx(e) for e in x[2:]])
    raise ValueError(x)


# ------------------------------------------------------------------ values

def f64bits(x):
    return _struct.unpack('>Q', _struct.pack('>d', x))[0]


BOUNDARY = {
    'bool': [0, 1],
    'i8': [0, 1, 0x7f, 0x80, 0xff],
    'i16': [0, 1, 0x7fff, 0x8000, 0xffff, 0x0102],
    'i32': [0, 1, 0x7fffffff, 0x80000000, 0xffffffff, 0x01020304],
    'i64': [0, 1, 0x7fffffffffffffff, 0x8000000000000000, MASK64, 0x0102030405060708],
    'double': [0, 1 << 63, f64bits(1.0), f64bits(-1.5), 0x7ff0000000000000, 0xfff0000000000000,
               0x7ff8000000000001, 0x7ff0000000000001, 0xfff8000000abcdef, 1, f64bits(3.141592653589793)],
    'enum': [0, 1, 0x7fffffff, MASK64, MASK64 - 0x7fffffff, 42, MASK64 - 41],
}

STR_SIZES = [0, 1, 2, 3, 7, 16, 255, 256, 257, 300]
BIG_STR_SIZES = [2047, 2048, 2049, 4100]
MAP_SIZES = [0, 1, 2, 3, 8, 9]
BIG_MAP_SIZES = [14, 27, 53, 105]
LIST_SIZES = [0, 1, 2, 3, 5]
BIG_LIST_SIZES = [255, 256, 257, 2049]


def gen_scalar(k, rng):
    if rng.chance(1, 2):
        return rng.pick(BOUNDARY[k])
    if k == 'bool':
        return rng.below(2)
    if k == 'enum':
        x = rng.below(1 << 31)
        return x if rng.chance(1, 2) else (MASK64 - x)
    return rng.below(1 << WIDTH[k])


def gen_bytes(rng, big=False):
    n = rng.pick(BIG_STR_SIZES if big and rng.chance(1, 3) else STR_SIZES)
    if rng.chance(1, 2):
        return bytes((rng.below(26) + 97) for _ in range(n))
    return bytes(rng.below(256) for _ in range(n))


def dbl_is_nan(x):
    return (x & ((1 << 63) - 1)) > 0x7ff0000000000000


def key_id(kt, v):
    """canonical identity of a map key under Go equality; None = never equal (NaN)"""
    if kt[0] == 'double':
        x = v[1]
        if dbl_is_nan(x):
            return None
        if x & ((1 << 63) - 1) == 0:
            return ('s', 0)
        return ('s', x)
    if v[0] == 's':
        return ('s', v[1])
    if v[0] == 'b':
        return ('b', v[1])
    return None


class ValGen:
    def __init__(self, uni, rng, big=False, max_depth=4, minimal=False, alternate=False, wide=0):
        self.wide = wide            # the first container met gets this many elements (flat, wide values)
        self.short = wide > 0       # ... of short strings
        self.u = uni
        self.rng = rng
        self.big = big
        self.max_depth = max_depth
        self.minimal = minimal      # inner containers / strings empty: count checks at their tightest
        self.alternate = alternate  # container elements alternate between full and sparse (nil optionals): leftovers show
        self.sparse = False

    def val(self, t, depth=0, optional=False):
        rng = self.rng
        k = t[0]
        if self.alternate and self.sparse:
            if k == 'ptr':
                return ('pn',)
            if k in ('list', 'set'):
                return ('ln',)
            if k == 'map':
                return ('mn',)
            if k == 'binary':
                return ('bn',)
            if k == 'string':
                return ('b', b'')
            if k in SCALARS:
                return ('s', 0)
        if self.alternate and not self.sparse and k == 'ptr' and depth < self.max_depth:
            return ('p', self.val(t[1], depth))
        if k in SCALARS:
            return ('s', gen_scalar(k, rng))
        if k == 'string':
            return ('b', b'' if self.minimal and depth > 1 else self.bytes_())
        if k == 'binary':
            if rng.chance(1, 6):
                return ('bn',)
            return ('b', b'' if self.minimal and depth > 1 else self.bytes_())
        if k in ('list', 'set'):
            w, self.wide = self.wide, 0
            if not w and rng.chance(1, 8):
                return ('ln',)
            n = self.count(LIST_SIZES, BIG_LIST_SIZES, depth, t[1])
            if self.minimal:
                n = 0 if depth > 1 else rng.pick([2, 3, 5, 6])
            if w:
                n = w
            if self.alternate:
                n = max(n, 2) if depth < 2 else n
                out = []
                for j in range(n):
                    self.sparse = (j % 2 == 1)
                    out.append(self.val(t[1], depth + 1))
                self.sparse = False
                return ('l', out)
            return ('l', [self.val(t[1], depth + 1) for _ in range(n)])
        if k == 'map':
            w, self.wide = self.wide, 0
            if not w and rng.chance(1, 8):
                return ('mn',)
            n = self.count(MAP_SIZES, BIG_MAP_SIZES, depth, t[2])
            if self.alternate and depth < 2:
                n = max(n, 2)
            if self.minimal:
                n = 0 if depth > 1 else rng.pick([2, 3, 5])
            if w:
                n = w
            es, seen = [], set()
            for _ in range(n * 3):
                if len(es) >= n:
                    break
                kv = self.val(t[1], depth + 1)
                if kv[0] == 'pn':
                    kv = ('p', self.val(t[1][1], depth + 1))
                kid = key_id(t[1], kv)
                if kid is not None:
                    if kid in seen:
                        continue
                    seen.add(kid)
                if self.alternate:
                    self.sparse = (len(es) % 2 == 1)
                    vv = self.val(t[2], depth + 1)
                    self.sparse = False
                    es.append((kv, vv))
                else:
                    es.append((kv, self.val(t[2], depth + 1)))
            return ('m', es)
        if k == 'ptr':
            if depth >= self.max_depth or rng.chance(1, 4):
                return ('pn',)
            return ('p', self.val(t[1], depth))
        if k == 'struct':
            s = self.u.by_name[t[1]]
            fs = [self.val(f.ty, depth + 1) for f in s.sorted_fields()]
            h = b''
            if s.holder and rng.chance(1, 3):
                h = self.unknown_bytes()
            return ('t', h, fs)
        raise ValueError(t)

    def bytes_(self):
        if self.short:
            return bytes((self.rng.below(26) + 97) for _ in range(self.rng.pick([0, 1, 3, 5, 5, 5])))
        return gen_bytes(self.rng, self.big)

    def count(self, small, bigs, depth, et):
        rng = self.rng
        if depth >= self.max_depth:
            return 0
        if self.big and depth <= 1 and (is_scalar(et) or et[0] in ('string',)) and rng.chance(1, 4):
            return rng.pick(bigs)
        n = rng.pick(small)
        if depth >= 2:
            n = min(n, 2)
        return n

    def unknown_bytes(self):
        """well-formed unknown fields (ids 30000+) of assorted wire types"""
        rng = self.rng
        out = b''
        for _ in range(1 + rng.below(2)):
            fid = 30000 + rng.below(100)
            c = rng.pick([2, 3, 4, 6, 8, 10, 11, 12, 13, 14, 15])
            out += bytes([c]) + fid.to_bytes(2, 'big') + wire_any(rng, c, 2)
        return out


def wire_any(rng, c, depth):
    """bytes of a random well-formed wire value with type code c"""
    if c in (2, 3):
        return bytes([rng.below(2) if c == 2 else rng.below(256)])
    if c == 6:
        return rng.below(1 << 16).to_bytes(2, 'big')
    if c == 8:
        return rng.below(1 << 32).to_bytes(4, 'big')
    if c in (4, 10):
        return rng.below(1 << 64).to_bytes(8, 'big')
    if c == 11:
        n = rng.pick([0, 1, 5, 17])
        return n.to_bytes(4, 'big') + bytes(rng.below(256) for _ in range(n))
    codes = [2, 3, 4, 6, 8, 10, 11] + ([12, 13, 14, 15] if depth > 0 else [])
    if c == 12:
        out = b''
        for _ in range(rng.below(3)):
            fc = rng.pick(codes)
            out += bytes([fc]) + rng.below(1 << 16).to_bytes(2, 'big') + wire_any(rng, fc, depth - 1)
        return out + b'\x00'
    if c == 13:
        kc, vc = rng.pick([2, 3, 6, 8, 10, 4, 11]), rng.pick(codes)
        n = rng.below(3)
        out = bytes([kc, vc]) + n.to_bytes(4, 'big')
        for _ in range(n):
            out += wire_any(rng, kc, depth - 1) + wire_any(rng, vc, depth - 1)
        return out
    if c in (14, 15):
        ec = rng.pick(codes)
        n = rng.below(3)
        out = bytes([ec]) + n.to_bytes(4, 'big')
        for _ in range(n):
            out += wire_any(rng, ec, depth - 1)
        return out
    raise ValueError(c)


# ------------------------------------------------------------------ wire trees (generation only)
# wire value: ('x', code, bytes) scalar/string payload already encoded
#             ('st', [(code, fid, w)], raw) | ('mp', kc, vc, [(w, w)]) | ('ls', code(14/15), ec, [w])

WT = {'bool': 2, 'i8': 3, 'double': 4, 'i16': 6, 'i32': 8, 'i64': 10, 'enum': 8, 'string': 11, 'binary': 11,
      'struct': 12, 'map': 13, 'set': 14, 'list': 15}
WBYTES = {'bool': 1, 'i8': 1, 'i16': 2, 'i32': 4, 'i64': 8, 'double': 8}


def wt_of(t):
    return wt_of(t[1]) if t[0] == 'ptr' else WT[t[0]]


def wcode(w):
    return {'x': None, 'st': 12, 'mp': 13}.get(w[0], None) if w[0] != 'x' and w[0] != 'ls' else (w[1])


def go_equal(t, a, b):
    k = t[0]
    if k == 'double':
        x, y = a[1], b[1]
        if dbl_is_nan(x) or dbl_is_nan(y):
            return False
        if x & ((1 << 63) - 1) == 0 and y & ((1 << 63) - 1) == 0:
            return True
        return x == y
    if k in SCALARS:
        return a[1] == b[1]
    if k in ('string', 'binary'):
        ba = a[1] if a[0] == 'b' else b''
        bb = b[1] if b[0] == 'b' else b''
        return ba == bb
    return False


def is_nil(v):
    return v[0] in ('ln', 'mn', 'pn', 'bn')


def denote_py(u, t, v):
    k = t[0]
    if k == 'ptr':
        if v[0] == 'pn':
            return ('st', [], b'')
        return denote_py(u, t[1], v[1])
    if k == 'enum':
        return ('x', 8, (v[1] & 0xffffffff).to_bytes(4, 'big'))
    if k in WBYTES:
        return ('x', WT[k], (v[1] & ((1 << (8 * WBYTES[k])) - 1)).to_bytes(WBYTES[k], 'big'))
    if k in ('string', 'binary'):
        bs = v[1] if v[0] == 'b' else b''
        return ('x', 11, len(bs).to_bytes(4, 'big') + bs)
    if k in ('list', 'set'):
        es = [] if v[0] == 'ln' else [denote_py(u, t[1], e) for e in v[1]]
        return ('ls', WT[k], wt_of(t[1]), es)
    if k == 'map':
        es = [] if v[0] == 'mn' else [(denote_py(u, t[1], a), denote_py(u, t[2], b)) for a, b in v[1]]
        return ('mp', wt_of(t[1]), wt_of(t[2]), es)
    if k == 'struct':
        s = u.by_name[t[1]]
        ex = u.fresh(s)[2] if s.init is not None else None
        fs = []
        for i, (f, fv) in enumerate(zip(s.sorted_fields(), v[2])):
            ft = f.ty
            if f.req == 'optional':
                if (ft[0] == 'ptr' or ft[0] == 'binary' or ft[0] in ('list', 'set', 'map')) and is_nil(fv):
                    continue
                if ft[0] != 'ptr' and ex is not None:
                    d = ex[i]
                    if go_equal(ft, d, fv):
                        continue
            fs.append((wt_of(ft), f.fid, denote_py(u, ft, fv)))
        return ('st', fs, v[1] if s.holder else b'')
    raise ValueError(t)


def put_py(w, marks=None, base=0):
    """bytes of a wire tree; marks (optional list) receives (offset, kind) of structural bytes:
    kind in 'type' 'id' 'len' 'etype' 'stop'"""
    out = bytearray()

    def mark(kind):
        if marks is not None:
            marks.append((base + len(out), kind))

    def go(w):
        if w[0] == 'x':
            if w[1] == 11:
                mark('len')
            out.extend(w[2])
        elif w[0] == 'st':
            for (c, fid, fw) in w[1]:
                mark('type')
                out.append(c & 0xff)
                mark('id')
                out.extend((fid & 0xffff).to_bytes(2, 'big'))
                go(fw)
            out.extend(w[2])
            mark('stop')
            out.append(0)
        elif w[0] == 'mp':
            mark('etype')
            out.append(w[1] & 0xff)
            mark('etype')
            out.append(w[2] & 0xff)
            mark('len')
            out.extend(len(w[3]).to_bytes(4, 'big'))
            for a, b in w[3]:
                go(a)
                go(b)
        elif w[0] == 'ls':
            mark('etype')
            out.append(w[2] & 0xff)
            mark('len')
            out.extend(len(w[3]).to_bytes(4, 'big'))
            for e in w[3]:
                go(e)
        elif w[0] == 'raw':
            out.extend(w[1])
        else:
            raise ValueError(w)
    go(w)
    return bytes(out)


def wire_code(w):
    if w[0] == 'x':
        return w[1]
    if w[0] == 'st':
        return 12
    if w[0] == 'mp':
        return 13
    if w[0] == 'ls':
        return w[1]
    raise ValueError(w)


def wire_tree_any(rng, c, depth):
    """random well-formed wire tree with code c"""
    if c in (2, 3, 4, 6, 8, 10, 11):
        return ('x', c, wire_any(rng, c, 0))
    codes = [2, 3, 4, 6, 8, 10, 11] + ([12, 13, 14, 15] if depth > 0 else [])
    if c == 12:
        return ('st', [(fc, rng.below(1 << 16), wire_tree_any(rng, fc, depth - 1))
                       for fc in [rng.pick(codes) for _ in range(rng.below(3))]], b'')
    if c == 13:
        kc, vc = rng.pick([2, 3, 6, 8, 10, 4, 11]), rng.pick(codes)
        return ('mp', kc, vc, [(wire_tree_any(rng, kc, depth - 1), wire_tree_any(rng, vc, depth - 1)) for _ in range(rng.below(3))])
    ec = rng.pick(codes)
    return ('ls', c, ec, [wire_tree_any(rng, ec, depth - 1) for _ in range(rng.below(3))])


def mutate_tree(rng, w, unknown_ids, level=0):
    """schema-evolution style changes that keep the message well-formed:
    permute / duplicate / drop / retype / renumber fields, insert unknown fields"""
    if w[0] == 'st':
        fs = [(c, fid, mutate_tree(rng, fw, unknown_ids, level + 1)) for (c, fid, fw) in w[1]]
        r = rng.below(8)
        if r == 0 and len(fs) > 1:
            for j in range(len(fs) - 1, 0, -1):
                k = rng.below(j + 1)
                fs[j], fs[k] = fs[k], fs[j]
        elif r == 1 and fs:
            fs.insert(rng.below(len(fs) + 1), rng.pick(fs))          # duplicate (later occurrence wins)
        elif r == 2 and fs:
            fs.pop(rng.below(len(fs)))                                 # writer did not know / omitted it
        elif r == 3 and fs:
            i = rng.below(len(fs))                                     # retyped: same id, other wire type
            c = rng.pick([2, 3, 4, 6, 8, 10, 11, 12, 13, 14, 15])
            fs[i] = (c, fs[i][1], wire_tree_any(rng, c, 2))
        elif r == 4 and fs:
            i = rng.below(len(fs))                                     # renumbered
            fs[i] = (fs[i][0], rng.pick(unknown_ids), fs[i][2])
        elif r == 5 and fs:
            # a copy of the lowest-id field under id 0 (or of the highest under 65535): an unknown field
            # of exactly the type of a known neighbour -- it must still be skipped
            lo = min(fs, key=lambda f: f[1])
            hi = max(fs, key=lambda f: f[1])
            if rng.chance(2, 3):
                fs.insert(rng.below(len(fs) + 1), (lo[0], 0, lo[2]))
            else:
                fs.insert(rng.below(len(fs) + 1), (hi[0], 65535, hi[2]))
        elif r == 6 and fs:
            # a copy of a field under an id that aliases it if an index is truncated or offset
            f = rng.pick(fs)
            alias = rng.pick([f[1] ^ 0x100, f[1] ^ 0x8000, f[1] ^ 0x40, (f[1] + 1) & 0xffff, (f[1] - 1) & 0xffff, f[1] ^ 0xff00])
            fs.insert(rng.below(len(fs) + 1), (f[0], alias, f[2]))
        if rng.chance(1, 3):
            for _ in range(1 + rng.below(2)):                          # unknown fields anywhere
                c = rng.pick([2, 3, 4, 6, 8, 10, 11, 12, 13, 14, 15])
                fs.insert(rng.below(len(fs) + 1), (c, rng.pick(unknown_ids), wire_tree_any(rng, c, 2)))
        return ('st', fs, w[2])
    if w[0] == 'mp':
        return ('mp', w[1], w[2], [(mutate_tree(rng, a, unknown_ids, level + 1), mutate_tree(rng, b, unknown_ids, level + 1)) for a, b in w[3]])
    if w[0] == 'ls':
        return ('ls', w[1], w[2], [mutate_tree(rng, e, unknown_ids, level + 1) for e in w[3]])
    return w


def corrupt(rng, msg, marks):
    """malformed variants of a message: returns list of (label, bytes)"""
    out = []
    n = len(msg)
    # prefixes: all for short messages, structural + random cut points otherwise
    cuts = set(range(n)) if n <= 48 else set([0, 1, 2, 3, n - 1] + [o for o, _ in marks[:24]] + [o + 1 for o, _ in marks[:24]] + [rng.below(n) for _ in range(8)])
    for c in sorted(cuts):
        if 0 <= c < n:
            out.append(('prefix', msg[:c]))
    for (o, kind) in marks[:40]:
        if kind == 'len' and o + 4 <= n:
            rem = n - (o + 4)
            for val in (0xffffffff, 0x7fffffff, 0x80000000, rem, rem + 1, max(rem - 1, 0), 0x00ffffff, 1 << 20):
                out.append(('len', msg[:o] + (val & 0xffffffff).to_bytes(4, 'big') + msg[o + 4:]))
        elif kind in ('type', 'etype') and o < n:
            for val in (0, 1, 2, 3, 4, 5, 6, 8, 10, 11, 12, 13, 14, 15, 16, 0x7f, 0x80, 0xff):
                if val != msg[o]:
                    out.append((kind, msg[:o] + bytes([val]) + msg[o + 1:]))
        elif kind == 'id' and o + 2 <= n:
            for val in (0, 1, 0xffff, rng.below(1 << 16)):
                out.append(('id', msg[:o] + val.to_bytes(2, 'big') + msg[o + 2:]))
        elif kind == 'stop' and o < n:
            out.append(('stop', msg[:o] + bytes([rng.pick([1, 2, 8, 11, 12, 15])]) + msg[o + 1:]))
    for _ in range(6):
        if n:
            i = rng.below(n)
            out.append(('flip', msg[:i] + bytes([msg[i] ^ (1 << rng.below(8))]) + msg[i + 1:]))
    return out
