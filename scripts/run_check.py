#!/usr/bin/env python3
"""scripts/run_check.py <property> <quick|thorough>  --  one entry point for every check.

1. rebuild from /repo's working tree: translator -> coq/gen/*.v -> make (proofs re-checked)
   -> extraction -> judge; harness with the run's generated type universe
2. proof status of the property's theorems
3. correspondence: generated cases executed by the implementation and judged by the extracted model
4. verdict, evidence/<id>.json, replay file on violation
"""
import fcntl
import subprocess
import json
import os
import re
import sys
import time

sys.path.insert(0, os.path.dirname(os.path.abspath(__file__)))
from lib import *          # noqa
from gen import *          # noqa
from universe import build_universe
import cases as casegen
import special
import shrink
import coqsample

COQ = os.path.join(VERIF, 'coq')


# ------------------------------------------------------------------ build

def gopkg_dir():
    r = sh(['go', 'list', '-m', '-f', '{{.Dir}}', 'github.com/cloudwego/gopkg'], cwd=REPO, env=GOENV)
    return r.stdout.strip()


def build_model():
    """returns (make_ok, make_log)"""
    os.makedirs(CACHE, exist_ok=True)
    lock = open(os.path.join(CACHE, 'build.lock'), 'w')
    fcntl.flock(lock, fcntl.LOCK_EX)
    try:
        t0 = time.time()
        ext = os.path.join(CACHE, 'extract')
        srcs = [os.path.join(VERIF, 'tools', 'extract', f) for f in os.listdir(os.path.join(VERIF, 'tools', 'extract'))]
        if not os.path.exists(ext) or any(os.path.getmtime(s) > os.path.getmtime(ext) for s in srcs):
            sh(['go', 'build', '-o', ext, '.'], cwd=os.path.join(VERIF, 'tools', 'extract'), env=GOENV)
        sh([ext, REPO, gopkg_dir(), os.path.join(COQ, 'gen')])
        if not os.path.exists(os.path.join(COQ, 'Makefile')):
            sh('coq_makefile -f _CoqProject -o Makefile', cwd=COQ)
        r = sh('timeout 3000 make -k -j%d 2>&1' % NPROC, cwd=COQ, check=False, timeout=3100)
        make_ok = r.returncode == 0
        # extraction + judge (model files only; they build even when a proof is broken)
        gen = os.path.join(VERIF, 'ocaml', 'gen')
        os.makedirs(gen, exist_ok=True)
        model_ml = os.path.join(gen, 'model.ml')
        model_vo = [os.path.join(COQ, f) for f in os.listdir(COQ) if f.endswith('.vo')] + \
                   [os.path.join(COQ, 'gen', f) for f in os.listdir(os.path.join(COQ, 'gen')) if f.endswith('.vo')]
        stale = not os.path.exists(model_ml) or any(os.path.getmtime(v) > os.path.getmtime(model_ml) for v in model_vo + [os.path.join(COQ, 'Extract.v')])
        if stale:
            sh('coqc -Q ../../coq Frugal ../../coq/Extract.v', cwd=gen, timeout=600)
        j = judge_exe()
        deps = [model_ml, os.path.join(VERIF, 'ocaml', 'judge.ml')]
        if not os.path.exists(j) or any(os.path.getmtime(d) > os.path.getmtime(j) for d in deps):
            sh([os.path.join(VERIF, 'ocaml', 'build.sh')], timeout=600)
        log('[build] model/judge up to date in %.1fs (make %s)' % (time.time() - t0, 'ok' if make_ok else 'FAILED'))
        return make_ok, r.stdout
    finally:
        fcntl.flock(lock, fcntl.LOCK_UN)
        lock.close()


def vo_fresh(v_path):
    """the compiled file exists and make considers it up to date with everything it depends on
    (a regenerated gen/*.v makes every dependent proof stale until it compiles again)"""
    vo = v_path[:-2] + '.vo'
    if not os.path.exists(vo):
        return False
    r = subprocess.run(['make', '-q', os.path.relpath(vo, COQ)], cwd=COQ, stdout=subprocess.DEVNULL, stderr=subprocess.DEVNULL)
    return r.returncode == 0


def theorem_names(v_path):
    with open(v_path) as fh:
        txt = fh.read()
    return re.findall(r'^\s*(?:Theorem|Lemma|Corollary|Example)\s+(\w+)', txt, re.M)


def vo_deps(target):
    """transitive .v dependencies of a compiled file, from coq_makefile's dependency file"""
    dep = {}
    try:
        with open(os.path.join(COQ, '.Makefile.d')) as fh:
            txt = fh.read().replace('\\\n', ' ')
    except OSError:
        return set()
    for line in txt.splitlines():
        if ':' not in line:
            continue
        lhs, rhs = line.split(':', 1)
        outs = [x for x in lhs.split() if x.endswith('.vo')]
        ins = [x for x in rhs.split() if x.endswith('.vo')]
        for o in outs:
            dep.setdefault(o, set()).update(ins)
    seen, todo = set(), [target]
    while todo:
        x = todo.pop()
        for y in dep.get(x, ()):
            if y not in seen:
                seen.add(y)
                todo.append(y)
    return set(x[:-1] for x in seen)      # .vo -> .v


def proof_status(prop, make_log):
    """obligations of a property: the theorems of props/<prop>.v, which include the side conditions
    on the generated constants and tables that the property's theorems assume (proofs/Gen*.v,
    re-proved against the sources of this run).  props/<prop>.vo is up to date only when every
    file it depends on compiled.  Returns dict."""
    pfile = os.path.join(COQ, 'props', prop + '.v')
    obl, done, failed = [], [], []
    deps = vo_deps('props/%s.vo' % prop)
    gens = sorted(d for d in deps if d.startswith('proofs/Gen'))
    for f in [os.path.join(COQ, g) for g in gens] + [pfile]:
        if not os.path.exists(f):
            continue
        names = theorem_names(f)
        obl += names
        if vo_fresh(f):
            done += names
        else:
            failed.append(os.path.relpath(f, COQ))
    assumptions = ''
    if os.path.exists(pfile) and vo_fresh(pfile):
        r = sh('timeout 600 coqc -Q . Frugal props/%s.v' % prop, cwd=COQ, check=False)
        assumptions = ' '.join(r.stdout.split())[:2000]
    first_error = ''
    for m in re.finditer(r'File "([^"]+)", line (\d+)[^\n]*\n(Error:[^\n]*(?:\n[^\n]+){0,3})', make_log):
        f = os.path.normpath(m.group(1))
        if failed and f not in deps and f != 'props/%s.v' % prop:
            continue        # an error in a file this property does not depend on
        first_error = '%s:%s %s' % (m.group(1), m.group(2), ' '.join(m.group(3).split()))[:600]
        break
    return {'obligations': obl, 'discharged': done, 'failed_files': failed, 'assumptions': assumptions,
            'first_error': first_error, 'depends_on': sorted(deps)}


# ------------------------------------------------------------------ verdicts

# failure tags that are direct evidence against a property (the observation itself,
# or its disagreement with the reference the property names)
DECISIVE = {
    'C01': {'prop-rt-value', 'prop-rt-n', 'prop-rt-fail', 'panic', 'crash', 'corr-encerr', 'corr-sizepanic'},
    'C02': {'corr-desc', 'corr-dispatch', 'corr-bytes', 'prop-malformed', 'panic', 'crash', 'corr-encerr'},
    'C03': {'corr-desc', 'corr-value', 'corr-n', 'corr-err-vs-ok', 'ref-value', 'ref-n', 'ref-err-vs-ok', 'ref-ok-vs-err', 'panic', 'crash'},
    'C04': {'prop-size', 'prop-short-accepted', 'prop-fit-rejected', 'prop-guard', 'panic', 'crash', 'corr-sizepanic'},
    'C05': {'panic', 'crash', 'corr-ok-vs-err', 'corr-err-vs-ok', 'ref-err-vs-ok', 'ref-ok-vs-err', 'prop-alloc', 'prop-time'},
    'C06': {'prop-memory', 'prop-memory-changed', 'corr-span', 'corr-value', 'prop-input-alias', 'panic', 'crash'},
    'C07': {'ref-value', 'ref-err-vs-ok', 'ref-ok-vs-err', 'corr-value', 'corr-n', 'corr-err-vs-ok', 'corr-ok-vs-err', 'corr-bytes', 'corr-size', 'prop-rt-value', 'prop-size', 'prop-invalid-size',
            'prop-invalid-enc', 'prop-invalid-dec', 'prop-valid-rejected', 'corr-errfield', 'corr-errclass', 'corr-sizepanic', 'corr-encerr', 'panic', 'crash'},
    'C08': {'corr-sizepanic', 'corr-encerr', 'corr-value', 'corr-n', 'corr-err-vs-ok', 'corr-ok-vs-err', 'corr-bytes', 'corr-size', 'prop-rt-value', 'prop-size', 'prop-deadlock',
            'corr-descmap', 'panic', 'crash', 'race'},
    'C14': {'corr-desc', 'prop-nocopy-set', 'prop-nocopy-cap', 'prop-nocopy-view', 'prop-input-alias', 'prop-memory', 'corr-value', 'panic', 'crash'},
    'C17': {'corr-sizepanic', 'corr-encerr', 'prop-invalid-size', 'prop-invalid-enc', 'prop-invalid-dec', 'prop-valid-rejected', 'prop-legacy', 'corr-value', 'corr-n', 'corr-err-vs-ok', 'corr-ok-vs-err', 'corr-bytes', 'corr-size', 'prop-rt-value', 'prop-size', 'panic', 'crash'},
    'C18': {'prop-allocs', 'panic', 'crash'},
    'C09': {'corr-desc', 'ref-err-vs-ok', 'ref-ok-vs-err', 'ref-errfield', 'ref-errclass', 'corr-bitset', 'corr-err-vs-ok', 'corr-ok-vs-err', 'corr-errclass', 'corr-errfield', 'corr-bytes', 'panic', 'crash'},
    'C10': {'corr-desc', 'ref-value', 'corr-bytes', 'corr-value', 'corr-size', 'prop-rt-value', 'panic', 'crash'},
    'C11': {'corr-desc', 'prop-malformed', 'ref-value', 'ref-err-vs-ok', 'corr-unknown', 'corr-value', 'corr-bytes', 'corr-size', 'prop-size', 'corr-hop', 'panic', 'crash'},
    'C12': {'prop-malformed', 'prop-size', 'corr-resolve', 'corr-resolve-rejected', 'corr-resolve-accepted', 'corr-bytes', 'corr-value', 'prop-rt-value', 'panic', 'crash', 'universe-mismatch'},
    'C13': {'corr-value', 'prop-rt-value', 'prop-rt-fail', 'corr-encerr', 'corr-sizepanic', 'corr-err-vs-ok', 'corr-resolve-accepted', 'prop-invalid-size', 'prop-invalid-enc', 'prop-invalid-dec', 'prop-valid-rejected', 'prop-badarg', 'panic', 'crash'},
    'C15': {'corr-errclass', 'corr-err-vs-ok', 'corr-ok-vs-err', 'panic', 'crash'},
    'C16': {'prop-short-accepted', 'prop-guard', 'prop-mutated', 'prop-repeat', 'prop-input-mutated', 'panic', 'crash'},
}


def load_known():
    p = os.path.join(VERIF, 'known_findings.json')
    if not os.path.exists(p):
        return []
    with open(p) as fh:
        return json.load(fh).get('findings', [])


def matches_known(prop, case_sx, tags, known):
    for k in known:
        if k.get('status') != 'open' or k.get('property') != prop:
            continue
        sig = k.get('signature', {})
        if 'type_regex' in sig and not re.search(sig['type_regex'], case_sx):
            continue
        if 'tag' in sig and sig['tag'] not in tags:
            continue
        if 'case_regex' in sig and not re.search(sig['case_regex'], case_sx):
            continue
        return k
    return None


def main():
    if len(sys.argv) >= 3 and sys.argv[1] == '--replay':
        return replay(sys.argv[2])
    prop, tier = sys.argv[1], (sys.argv[2] if len(sys.argv) > 2 else os.environ.get('VERIF_TIER', 'quick'))
    seed = int(os.environ.get('VERIF_SEED', '1'))
    t0 = time.time()
    make_ok, make_log = build_model()
    ps = proof_status(prop, make_log)
    proof_ok = not ps['failed_files'] and len(ps['obligations']) > 0

    if prop in special.CHECKS:
        result = special.CHECKS[prop](prop, tier, seed)
    else:
        result = standard_check(prop, tier, seed, widen=not proof_ok, race=(prop == 'C08'))

    violations = []      # (line, replay dict)
    known = load_known()
    known_lines = []
    for f in result['failures']:
        k = matches_known(prop, f['case'], f['tags'], known)
        if k is not None:
            line = 'KNOWN-FINDING: property=%s %s' % (prop, k['text'])
            if line not in known_lines:
                known_lines.append(line)
            continue
        violations.append(f)

    os.makedirs(os.path.join(VERIF, 'replays'), exist_ok=True)
    out_lines = []
    nviol = 0
    decisive = [f for f in violations if f.get('decisive')]
    soft = [f for f in violations if not f.get('decisive')]
    if decisive:
        f = sorted(decisive, key=lambda x: len(x['case']))[0]
        f = shrink_failure(prop, f, result)
        path = write_replay(prop, tier, seed, f, result, ps, kind='failing-input')
        out_lines.append('VIOLATION property=%s replay=%s' % (prop, path))
        nviol = len(decisive)
    elif soft:
        f = sorted(soft, key=lambda x: len(x['case']))[0]
        path = write_replay(prop, tier, seed, f, result, ps, kind='correspondence-broken')
        out_lines.append('VIOLATION property=%s replay=%s no-failing-input-found' % (prop, path))
        nviol = 1
    elif not proof_ok:
        path = write_replay(prop, tier, seed, None, result, ps, kind='proof-broken')
        out_lines.append('VIOLATION property=%s replay=%s no-failing-input-found' % (prop, path))
        nviol = 1

    if tier == 'thorough' and proof_ok:
        # independent re-check of the compiled library of this property and everything it depends on
        r = sh('timeout 3000 coqchk -silent -o -Q . Frugal Frugal.props.%s 2>&1' % prop, cwd=COQ, check=False, timeout=3100)
        txt = ' '.join(r.stdout.split())
        ps['coqchk'] = txt[-600:]
        if r.returncode != 0 or 'Axioms: <none>' not in txt:
            proof_ok = False
            ps['failed_files'].append('coqchk: ' + txt[-300:])
            if not out_lines:
                path = write_replay(prop, tier, seed, None, result, ps, kind='proof-broken')
                out_lines.append('VIOLATION property=%s replay=%s no-failing-input-found' % (prop, path))
                nviol = 1
    write_evidence(prop, tier, seed, result, ps, proof_ok, nviol, time.time() - t0)
    for l in known_lines:
        print(l)
    for l in out_lines:
        print(l)
    print('%s %s: %d cases, %d failing, proof %s, %.1fs' % (prop, tier, result['evaluations'], len(result['failures']),
                                                         'ok' if proof_ok else 'BROKEN ' + ps['first_error'], time.time() - t0))
    return 1 if out_lines else 0


def standard_check(prop, tier, seed, widen=False, gen=None, race=False):
    u, groups = build_universe(seed, tier)
    exe = build_harness(u, prop, race=race)
    rng = Rng(seed).fork(prop)
    gen = gen or casegen.GENERATORS[prop]
    cs = gen(u, groups, rng, tier)
    sessions, envs = None, None
    if isinstance(cs, dict):                  # {'sessions': [[(sx, info)]], 'envs': [...], 'cases': [...]}
        sessions, envs = cs['sessions'], cs.get('envs')
        cs = cs.get('cases', [])
    elif widen and tier == 'quick':
        # a proof obligation broke: look harder for a concrete failing input
        # (bounded: the quick tier must stay quick even when it widens)
        extra = [c for c in gen(u, groups, rng.fork('widen'), 'thorough') if len(c[0]) < 200000]
        if len(extra) > 30000:
            extra = extra[::(len(extra) // 30000 + 1)]
        cs += extra
    corpus = load_corpus(prop, u)
    cases = []
    infos = {}
    n = 0
    for sx, info in corpus + cs:
        cid = 'k%d' % n
        n += 1
        cases.append((cid, sx))
        infos[cid] = info
    sess_ids = []
    if sessions is not None:
        for sess in sessions:
            ids = []
            for sx, info in sess:
                cid = 'k%d' % n
                n += 1
                ids.append((cid, sx))
                infos[cid] = info
            sess_ids.append(ids)
    t1 = time.time()
    obs = run_cases(exe, cases)
    if sess_ids:
        obs.update(run_sessions(exe, sess_ids, envs=envs))
        for ids in sess_ids:
            cases += ids
    t2 = time.time()
    res = run_judge(u.env_sx() + '\n' + u.gouniverse_sx(), cases, obs, os.path.join(CACHE, 'work', prop))
    log('[%s] %d cases (%d sessions): run %.1fs judge %.1fs' % (prop, len(cases), len(sess_ids), t2 - t1, time.time() - t2))
    failures = []
    cd = dict(cases)
    dec = DECISIVE.get(prop, set())
    tables_relevant = 'proofs/GenTables.v' in vo_deps('props/%s.vo' % prop)
    for cid, r in res.items():
        if r[0] == 'ok':
            continue
        # observations that concern another property (prop-* tags not decisive here) are not this check's business
        tags = [t for t in r[1] if not t.startswith('prop-') or t in dec]
        # model-*: the generated tables no longer reproduce the reference encoder; that is the
        # tables_ok obligation, and concerns only the properties whose theorems assume it
        if not tables_relevant:
            tags = [t for t in tags if not t.startswith('model-')]
        if not tags:
            continue
        failures.append({'id': cid, 'case': cd[cid], 'tags': tags, 'detail': r[2], 'obs': obs.get(cid, ''),
                         'decisive': bool(set(tags) & dec), 'session': session_of(sess_ids, cid)})
    if UNIVERSE_STATUS.get('MISMATCH') is not None or 'ENV-NOT-OK' in UNIVERSE_STATUS:
        failures.append({'id': 'universe', 'case': '(universe)', 'tags': ['universe-mismatch'],
                         'detail': 'the model resolver and the schema the tags were printed from differ for: %s' % UNIVERSE_STATUS,
                         'obs': '', 'decisive': prop == 'C12'})
    missing = [cid for cid, _ in cases if cid not in res]
    for cid in missing:
        failures.append({'id': cid, 'case': cd[cid], 'tags': ['unjudged'], 'detail': 'no verdict', 'obs': obs.get(cid, ''), 'decisive': False})
    # a sample of the same cases evaluated inside Coq against the implementation's observations
    coq_n, coq_ok, coq_detail = 0, True, ''
    if prop in ('C01', 'C02', 'C03', 'C04', 'C05', 'C09', 'C10', 'C11'):
        try:
            coq_n, coq_ok, coq_detail = coqsample.run(prop, u, cases, obs, limit=30 if tier == 'quick' else 300)
        except Exception as e:
            coq_n, coq_ok, coq_detail = 0, False, 'in-Coq sample could not be built: %r' % e
    elif prop == 'C17':
        try:
            coq_n, coq_ok, coq_detail = coqsample.run_env(prop, cases, obs)
        except Exception as e:
            coq_n, coq_ok, coq_detail = 0, False, 'in-Coq sample could not be built: %r' % e
    if prop in ('C01', 'C02', 'C03', 'C04', 'C05', 'C09', 'C10', 'C11', 'C17'):
        if not coq_ok:
            failures.append({'id': 'coq-sample', 'case': '(coq-sample)', 'tags': ['corr-coq-sample'], 'detail': coq_detail, 'obs': '', 'decisive': False})
    # statistics
    dist = {}
    for cid, info in infos.items():
        for k, v in info.items():
            if k == 'type':
                continue
            dist.setdefault(k, {})
            dist[k][str(v)] = dist[k].get(str(v), 0) + 1
    distinct = len(set(sx for _, sx in cases))
    types_used = len(set(info.get('type') for info in infos.values()))
    errs = {}
    for cid, _ in cases:
        o = obs.get(cid, '')
        m = re.match(r'\((ok|err \w+|panic|crash|size)', o)
        key = m.group(1) if m else (o.split(' ')[0][:12] if o else 'none')
        errs[key] = errs.get(key, 0) + 1
    samples = [cd[cid][:400] for cid, _ in cases[:2]] + [cd[cases[len(cases) // 2][0]][:400]]
    if sess_ids:
        samples.append([sx[:200] for _, sx in sess_ids[0][:6]])
    return {'evaluations': len(cases), 'distinct': distinct, 'types': types_used, 'universe_types': len(u.structs),
            'distribution': dist, 'outcomes': errs, 'failures': failures, 'samples': samples,
            'universe': u, 'exe': exe, 'corpus_cases': len(corpus), 'sessions': len(sess_ids),
            'extra': {'evaluated_inside_coq': coq_n, 'inside_coq_agree': coq_ok}}


def session_of(sess_ids, cid):
    for ids in sess_ids:
        if any(c == cid for c, _ in ids):
            return [sx for _, sx in ids]
    return None


def shrink_failure(prop, f, result):
    """greedy minimisation of an independent failing case (sessions are reported as they are)"""
    u = result.get('universe')
    exe = result.get('exe')
    if u is None or exe is None or f.get('session') or f['case'].startswith('(universe'):
        return f
    if f.get('obs', '').startswith('(crash') and 'timeout' in bytes.fromhex(re.sub(r'[^0-9a-f]', '', f['obs'][7:])[:200] or '00').decode('latin1'):
        return f          # a hang: every shrinking step would wait for the time limit again
    dec = DECISIVE.get(prop, set())
    usx = u.env_sx() + '\n' + u.gouniverse_sx()

    deadline = time.time() + 90          # shrinking is a convenience: never more than 90 s of it

    def run_batch(cands):
        if time.time() > deadline:
            raise TimeoutError('shrink budget used up')
        cases = [('s%d' % i, c) for i, c in enumerate(cands)]
        obs = run_cases(exe, cases, shards=min(NPROC, max(1, len(cases) // 10)), timeout=30)
        res = run_judge(usx, cases, obs, os.path.join(CACHE, 'work', prop + '-shrink'))
        out = []
        for cid, _ in cases:
            r = res.get(cid)
            out.append(None if r is None or r[0] == 'ok' else r[1])
        shrink_failure.obs = obs
        shrink_failure.res = res
        shrink_failure.cases = dict(cases)
        return out
    try:
        t0 = time.time()
        want = [t for t in f['tags'] if t in dec] or f['tags']
        small, tags = shrink.shrink_case(f['case'], want, run_batch)
        if small != f['case']:
            # re-run the minimal case to record its observation
            out = run_batch([small])
            g = dict(f)
            g.update({'case': small, 'tags': out[0] or tags, 'detail': shrink_failure.res.get('s0', ('', [], ''))[2] if shrink_failure.res.get('s0') else f['detail'],
                      'obs': shrink_failure.obs.get('s0', ''), 'shrunk_from_chars': len(f['case'])})
            log('[%s] shrunk failing case from %d to %d characters in %.1fs' % (prop, len(f['case']), len(small), time.time() - t0))
            return g
    except Exception as e:      # shrinking is best effort
        log('[%s] shrink failed: %r' % (prop, e))
    return f


def load_corpus(prop, u):
    """minimised past failures: corpus/<prop>.txt, one case s-expression per line; cases naming
    types outside the fixed corpus of this universe are skipped"""
    p = os.path.join(VERIF, 'corpus', prop + '.txt')
    out = []
    if os.path.exists(p):
        with open(p) as fh:
            for ln in fh:
                ln = ln.strip()
                if not ln or ln.startswith('#'):
                    continue
                m = re.match(r'\(\w+ (\w+)[ )]', ln)
                if m and m.group(1) in u.by_name:
                    out.append((ln, {'type': m.group(1), 'op': 'corpus'}))
    return out


def write_replay(prop, tier, seed, f, result, ps, kind):
    h = hashlib.sha256(((f['case'] if f else '') + kind + prop).encode()).hexdigest()[:12]
    path = os.path.join(VERIF, 'replays', '%s-%s.json' % (prop, h))
    doc = {'property': prop, 'tier': tier, 'seed': seed, 'kind': kind,
           'proof': {'failed_files': ps['failed_files'], 'first_error': ps['first_error']},
           'replay_cmd': 'scripts/check.sh --replay %s' % os.path.relpath(path, VERIF)}
    if f is not None:
        doc.update({'case': f['case'], 'tags': f['tags'], 'expected_vs_observed': f['detail'][:4000], 'observation': f['obs'][:4000]})
        if f.get('session'):
            doc['session'] = [x[:2000] for x in f['session']]
        u = result.get('universe')
        m = re.match(r'\(\w+ (\w+) ', f['case'])
        if u is not None and m and m.group(1) in u.by_name:
            doc['go_types'] = go_types_for(u, m.group(1))
    if kind == 'proof-broken':
        doc['note'] = 'theorem(s) no longer check: %s; searched %d cases without finding a failing input' % (
            ', '.join(ps['failed_files']), result['evaluations'])
    if kind == 'correspondence-broken':
        doc['note'] = 'model and implementation disagree on this case but the property predicate holds on it; no failing input found in %d cases' % result['evaluations']
    if HOOKS_STATUS.get('missing'):
        doc['hooks'] = 'the verif-tagged hooks did not compile against this tree, component-level operations were not observed: ' + HOOKS_STATUS['missing']
    with open(path, 'w') as fh:
        json.dump(doc, fh, indent=1)
    return os.path.relpath(path, VERIF)


def go_types_for(u, name):
    """Go source of the struct type and everything it references"""
    seen, order = set(), []

    def visit(n):
        if n in seen:
            return
        seen.add(n)
        s = u.by_name[n]
        for f in s.fields:
            for m in re.findall(r'[A-Za-z_][A-Za-z_0-9]*', annot(f.ty)):
                if m in u.by_name:
                    visit(m)
        order.append(n)
    visit(name)
    src = u.go_source()
    out = []
    for n in order:
        m = re.search(r'type %s struct \{.*?\n\}\n' % n, src, re.S)
        if m:
            out.append(m.group(0))
    return '\n'.join(out)[:6000]


def write_evidence(prop, tier, seed, result, ps, proof_ok, nviol, wall):
    cov = {
        'obligations': len(ps['obligations']),
        'discharged': len(ps['discharged']),
        'checker_cmd': 'make -C coq (coqc 8.16.1, full .vo build) after regenerating coq/gen/*.v from /repo',
        'trusted_base': TRUSTED_BASE,
        'theorems': ps['obligations'],
        'print_assumptions': ps['assumptions'],
        'failed_files': ps['failed_files'],
        'coqchk': ps.get('coqchk', 'not run in the quick tier'),
        'evaluations': result['evaluations'],
        'distinct_nontrivial': result['distinct'],
        'rule': result.get('rule', 'cases generated from one splitmix64 state (VERIF_SEED) over the run\'s type universe '
                                   '(fixed corpora + random structs); distinct = distinct case texts; every case names a '
                                   'non-empty struct type and is executed by the implementation and by the extracted model'),
        'samples': result['samples'],
        'types_exercised': result.get('types'),
        'universe_types': result.get('universe_types'),
        'input_distribution': result.get('distribution'),
        'implementation_outcomes': result.get('outcomes'),
        'corpus_cases': result.get('corpus_cases', 0),
        'failing_cases': len(result['failures']),
    }
    for k, v in result.get('extra', {}).items():
        cov[k] = v
    ev = {'property_id': prop, 'tier': tier, 'seed': seed, 'level': 'proof', 'coverage': cov,
          'assumptions': ASSUMPTIONS, 'wall_s': round(wall, 1), 'violations': nviol}
    os.makedirs(os.path.join(VERIF, 'evidence'), exist_ok=True)
    with open(os.path.join(VERIF, 'evidence', prop + '.json'), 'w') as fh:
        json.dump(ev, fh, indent=1, default=str)


TRUSTED_BASE = [
    'Coq 8.16.1 kernel and vm_compute (no native_compute)',
    'no axioms: Print Assumptions under each property theorem (see print_assumptions)',
    'translator tools/extract (go/ast, shape-based) producing coq/gen/{Params,Tables,Legacy,Access}.v',
    'extraction with ExtrOcamlBasic only (no Extract Constant); OCaml judge glue (s-expressions, canonical map order)',
    'Go harness (reflect/unsafe value construction and dump, child supervision)',
    'modelled not verified: Go runtime (map iteration, mallocgc, sync.Pool, atomic), gopkg thrift.Binary.Skip (model Skip.v)',
]
ASSUMPTIONS = [
    'the theorem is about the Coq model; the model is tied to /repo by the regenerated files and by the correspondence run reported here',
    'Go map iteration yields each entry exactly once when the map is not written',
]


def replay(path):
    with open(os.path.join(VERIF, path) if not os.path.isabs(path) else path) as fh:
        doc = json.load(fh)
    prop, seed, tier = doc['property'], doc['seed'], doc['tier']
    build_model()
    if 'case' not in doc:
        print('replay: %s has no concrete case (%s): re-running the check' % (path, doc['kind']))
        os.environ['VERIF_SEED'] = str(seed)
        sys.argv = [sys.argv[0], prop, tier]
        return main()
    u, groups = build_universe(seed, tier)
    exe = build_harness(u, prop)
    cases = [('r0', doc['case'])]
    obs = run_cases(exe, cases, shards=1)
    res = run_judge(u.env_sx() + '\n' + u.gouniverse_sx(), cases, obs, os.path.join(CACHE, 'work', 'replay'))
    print('case       :', doc['case'][:2000])
    print('observation:', obs.get('r0', '')[:2000])
    print('verdict    :', res.get('r0'))
    if res.get('r0', ('?',))[0] == 'ok':
        print('replay: the case no longer fails')
        return 0
    print('VIOLATION property=%s replay=%s' % (prop, path))
    return 1


def guarded_main():
    """a check that cannot be carried out (the translator, the model build or the harness build
    fails against the current tree) no longer shows the property: report that, with the error as
    the replay, instead of dying with a traceback"""
    try:
        return main()
    except Exception as e:
        import traceback
        tb = traceback.format_exc()
        if len(sys.argv) >= 2 and re.match(r'C\d\d$', sys.argv[1]):
            prop = sys.argv[1]
            tier = sys.argv[2] if len(sys.argv) > 2 else 'quick'
            os.makedirs(os.path.join(VERIF, 'replays'), exist_ok=True)
            h = hashlib.sha256((prop + str(e)).encode()).hexdigest()[:12]
            path = os.path.join(VERIF, 'replays', '%s-%s.json' % (prop, h))
            with open(path, 'w') as fh:
                json.dump({'property': prop, 'tier': tier, 'seed': int(os.environ.get('VERIF_SEED', '1')),
                           'kind': 'check-could-not-run',
                           'note': 'the correspondence between the model and the current tree could not be established: '
                                   'the translator, the model build or the harness build failed; no failing input was searched for',
                           'error': str(e)[-6000:], 'traceback': tb[-4000:]}, fh, indent=1)
            print('VIOLATION property=%s replay=%s no-failing-input-found' % (prop, os.path.relpath(path, VERIF)))
            print('%s %s: check could not run: %s' % (prop, tier, str(e).splitlines()[0][:300] if str(e) else repr(e)))
            return 1
        sys.stderr.write(tb)
        return 2


if __name__ == '__main__':
    sys.exit(guarded_main())
