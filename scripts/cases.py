"""Per-property case generators.  Each returns a list of (sexp, info) pairs;
info is a short dict used for the input-distribution statistics in the evidence."""
from gen import *
from universe import *

QUICK = {'vals_per_type': 2, 'msgs_per_type': 2, 'corrupt_types': 60, 'histories': 40}
THOROUGH = {'vals_per_type': 12, 'msgs_per_type': 10, 'corrupt_types': 400, 'histories': 600}


def budget(tier):
    return QUICK if tier == 'quick' else THOROUGH


def all_names(u):
    return [s.name for s in u.structs if not s.invalid]


def valid_structs(u):
    return [s for s in u.structs if not s.invalid]


def st(name):
    return ('struct', name)


def values_for(u, rng, name, n, big=True):
    vg = ValGen(u, rng, big=big)
    return [vg.val(st(name)) for _ in range(n)]


def map_size_values(u, rng, name):
    """values of a single-map-field struct with the map sizes at which go1.23 bucket maps grow"""
    s = u.by_name[name]
    f = s.fields[0]
    out = []
    vg = ValGen(u, rng, big=False, max_depth=3)
    for n in (0, 1, 2, 8, 9, 14, 27, 53, 105):
        es, seen = [], set()
        tries = 0
        while len(es) < n and tries < n * 20 + 20:
            tries += 1
            kv = vg.val(f.ty[1], 2)
            if kv[0] == 'pn':
                kv = ('p', vg.val(f.ty[1][1], 2))
            kid = key_id(f.ty[1], kv)
            if kid is not None:
                if kid in seen:
                    continue
                seen.add(kid)
            elif f.ty[1][0] == 'double' and len(es) > 3:
                continue   # a few NaN keys are enough
            es.append((kv, vg.val(f.ty[2], 2)))
        out.append(('t', b'', [('m', es)]))
    return out


def c_encode_cases(u, groups, rng, tier, op):
    """(op TYPE MODE VAL) over the whole universe; op in {'rt','enc'}"""
    b = budget(tier)
    out = []
    for name in all_names(u):
        r = rng.fork(op + name)
        vals = values_for(u, r, name, b['vals_per_type'])
        vals.append(ValGen(u, r, minimal=True, max_depth=4).val(st(name)))
        vals.append(ValGen(u, r, alternate=True, max_depth=4).val(st(name)))
        if name in groups.get('maps1', []):
            ms = map_size_values(u, r, name)
            vals += ms if tier == 'thorough' else [ms[r.below(len(ms))], ms[6]]
        for j, v in enumerate(vals):
            mode = 'ptr' if j % 3 else 'val'
            out.append(('(%s %s %s %s)' % (op, name, mode, val_sx(v)), {'type': name, 'op': op, 'mode': mode}))
    return out


def wide_cases(u, groups, rng, tier, op):
    """flat values with one wide container (more elements than the depth budget has units):
    width must not be mistaken for depth"""
    out = []
    names = groups.get('maps', []) + groups.get('maps1', []) + groups.get('lists', []) + groups.get('defaults', []) + groups.get('holder', [])
    widths = [1100] if tier == 'quick' else [1021, 1022, 1100]
    if tier == 'quick':
        # one per shape of interest: string / struct / container keys and values, lists of structs
        pick = ['M1StringXI64', 'M1I32XPLeaf', 'M1I64XLeaf', 'M1I8XMapI16String', 'M1PLeafXI16', 'M1I16XListI32', 'MpI32',
                'LiPLeaf', 'LiSetString', 'LiMapStringPLeaf', 'M1I16XBinary', 'DefHolder', 'HoldNest']
        names = [n for n in pick if n in u.by_name]
    for i, name in enumerate(names):
        # double keys: the model's key comparison is costly in the extracted code; one width is enough
        ws = widths[-1:] if 'Double' in name else widths
        if tier == 'quick' and name == 'M1StringXI64':
            ws = [1021, 1022, 1023, 1100]       # around the number of units of the depth budget
        for w in ws:
            r = rng.fork('wide%s%d' % (name, w))
            v = ValGen(u, r, max_depth=2, wide=w).val(st(name))
            if op == 'rt':
                out.append(('(rt %s ptr %s)' % (name, val_sx(v)), {'type': name, 'op': 'rt', 'mode': 'ptr', 'shape': 'wide'}))
            else:
                out.append(('(dec %s fresh %s)' % (name, hexs(put_py(denote_py(u, st(name), v)))), {'type': name, 'op': 'dec', 'shape': 'wide'}))
    return out


def hammer_cases(u, rng, tier):
    """long size walks of by-value and pointer arguments of one type from many goroutines"""
    out = []
    if 'LiString' not in u.by_name:
        return out
    for mode in ('val', 'ptr'):
        vals = []
        for j in range(4):
            head = [('b', bytes([97 + (i % 26)]) * (1 + i % 3)) for i in range(6000)]
            tail = [('b', b'zz') for _ in range(37 * (j + 1))]
            vals.append(val_sx(('t', b'', [('l', head), ('ln',), ('l', tail)])))
        ms = 1200 if tier == 'quick' else 6000
        if mode == 'ptr':
            ms //= 3
        out.append(('(hammer LiString %s %d %s)' % (mode, ms, ' '.join(vals)), {'type': 'LiString', 'op': 'hammer', 'mode': mode}))
    return out


def c04_cases(u, groups, rng, tier):
    out = c_encode_cases(u, groups, rng, tier, 'enc') + hammer_cases(u, rng.fork('hammer'), tier)
    # buffer lengths around the exact size; spare capacity beyond the buffer
    names = all_names(u)
    k = 150 if tier == 'quick' else 1500
    for i in range(k):
        name = rng.pick(names)
        v = ValGen(u, rng.fork('b%d' % i), big=False, max_depth=2).val(st(name))
        size = len(put_py(denote_py(u, st(name), v)))
        lens = set([0, 1, size - 1, size, size + 1, 2 * size]) if size > 24 else set(range(0, size + 2))
        for bl in sorted(x for x in lens if x >= 0):
            for spare in (0, 64):
                out.append(('(encbuf %s %s %s %d %d)' % (name, 'ptr' if i % 2 else 'val', val_sx(v), bl, spare),
                            {'type': name, 'op': 'encbuf', 'blen_vs_size': 'lt' if bl < size else ('eq' if bl == size else 'gt')}))
    return out


def dst_choice(u, rng, name):
    r = rng.below(4)
    if r == 0:
        return 'zero'
    if r == 1:
        return val_sx(ValGen(u, rng, big=False, max_depth=2).val(st(name)))
    return 'fresh'


def hexs(b):
    return b.hex() if b else '-'


def c03_cases_placeholder_check(): pass


def c03_cases(u, groups, rng, tier):
    """well-formed messages from any writer: own encoding, foreign field order, evolved schemas, trailing bytes"""
    b = budget(tier)
    out = leftover_cases(u, rng.fork('leftover'), per=1) + wide_cases(u, groups, rng.fork('wide'), tier, 'dec')
    # an unknown field that looks exactly like a known neighbour: a copy of the lowest-id field under
    # id 0 (of the highest under 65535), before and after the known fields
    for i, name in enumerate(all_names(u)):
        if tier == 'quick' and i % 3:
            continue
        r = rng.fork('edge' + name)
        v = ValGen(u, r, big=False, max_depth=2).val(st(name))
        w = denote_py(u, st(name), v)
        if w[0] != 'st' or not w[1]:
            continue
        lo = min(w[1], key=lambda f: f[1])
        hi = max(w[1], key=lambda f: f[1])
        for extra, front in (((lo[0], 0, lo[2]), True), ((lo[0], 0, lo[2]), False), ((hi[0], 65535, hi[2]), False)):
            fs = [extra] + list(w[1]) if front else list(w[1]) + [extra]
            out.append(('(dec %s fresh %s)' % (name, hexs(put_py(('st', fs, w[2])))), {'type': name, 'op': 'dec', 'shape': 'edge-id-copy'}))
    for name in all_names(u):
        r = rng.fork('c03' + name)
        for j in range(b['msgs_per_type'] + 1):
            v = ValGen(u, r, big=(j == 0), max_depth=3, minimal=(j == b['msgs_per_type'])).val(st(name))
            w = denote_py(u, st(name), v)
            if 0 < j < b['msgs_per_type']:
                w = mutate_tree(r, w, [30000 + r.below(50), 1, 2, 3, 65535, 255, 256])
            if j == b['msgs_per_type'] and w[0] == 'st' and len(w[1]) > 1 and r.chance(1, 2):
                w = ('st', list(reversed(w[1])), w[2])      # foreign field order: containers last or first
            msg = put_py(w)
            trail = b'' if (r.chance(1, 2) or j == b['msgs_per_type']) else bytes(r.below(256) for _ in range(1 + r.below(5)))
            out.append(('(dec %s %s %s)' % (name, dst_choice(u, r, name), hexs(msg + trail)),
                        {'type': name, 'op': 'dec', 'class': 'own' if j == 0 else 'evolved', 'trailing': len(trail) > 0}))
    return out


def c05_cases(u, groups, rng, tier):
    """malformed input: prefixes, corrupted structural bytes, corrupted lengths, random strings"""
    b = budget(tier)
    out = []
    names = all_names(u)
    picked = [n for g in ('scalars', 'lists', 'maps', 'structs', 'holder', 'defaults', 'ids', 'nocopy') for n in groups.get(g, [])]
    picked += [rng.pick(names) for _ in range(b['corrupt_types'])]
    for i, name in enumerate(picked):
        r = rng.fork('c05%d' % i)
        v = ValGen(u, r, big=False, max_depth=2).val(st(name))
        w = denote_py(u, st(name), v)
        if r.chance(1, 2):
            w = mutate_tree(r, w, [30000, 7, 65535])
        marks = []
        msg = put_py(w, marks)
        vs = corrupt(r, msg, marks)
        if tier == 'quick' and len(vs) > 40:
            vs = [vs[r.below(len(vs))] for _ in range(40)]
        for label, bs in vs:
            out.append(('(dec %s %s %s)' % (name, 'fresh' if r.chance(2, 3) else 'zero', hexs(bs)),
                        {'type': name, 'op': 'dec', 'class': label}))
        for _ in range(2):
            n = r.pick([0, 1, 2, 3, 5, 8, 13, 40])
            bs = bytes(r.pick([0, 1, 2, 8, 11, 12, 13, 15, r.below(256)]) for _ in range(n))
            out.append(('(dec %s fresh %s)' % (name, hexs(bs)), {'type': name, 'op': 'dec', 'class': 'random'}))
    return out


def required_types(u):
    return [s.name for s in valid_structs(u) if any(f.req == 'required' for f in s.fields)]


def drop_required(rng, u, t, w):
    """remove some required fields (at some level) from a wire tree built by denote_py"""
    if t[0] == 'ptr':
        return drop_required(rng, u, t[1], w)
    if t[0] == 'struct' and w[0] == 'st':
        s = u.by_name[t[1]]
        byid = {f.fid: f for f in s.fields}
        fs = []
        for (c, fid, fw) in w[1]:
            f = byid.get(fid)
            if f is not None and f.req == 'required' and rng.chance(1, 3):
                if rng.chance(1, 3):   # present but with another wire type: does not count
                    c2 = rng.pick([x for x in [2, 3, 4, 6, 8, 10, 11] if x != c])
                    fs.append((c2, fid, wire_tree_any(rng, c2, 0)))
                continue
            fs.append((c, fid, drop_required(rng, u, f.ty, fw) if f is not None else fw))
        return ('st', fs, w[2])
    if t[0] in ('list', 'set') and w[0] == 'ls':
        return ('ls', w[1], w[2], [drop_required(rng, u, t[1], e) for e in w[3]])
    if t[0] == 'map' and w[0] == 'mp':
        return ('mp', w[1], w[2], [(drop_required(rng, u, t[1], a), drop_required(rng, u, t[2], b)) for a, b in w[3]])
    return w


def c09_cases(u, groups, rng, tier):
    out = []
    names = required_types(u)
    # types that nest a struct with required fields
    nest = [s.name for s in valid_structs(u) if any(n in annot(f.ty) for f in s.fields for n in ('LeafReq', 'MutB', 'IdsReq', 'Ids'))]
    k = 6 if tier == 'quick' else 40
    for name in names + nest:
        r = rng.fork('c09' + name)
        for j in range(k):
            v = ValGen(u, r, big=False, max_depth=3).val(st(name))
            w = denote_py(u, st(name), v)
            w2 = drop_required(r, u, st(name), w) if j > 0 else w
            # a predecessor decode that sets the same ids is supplied by the history checks (C07);
            # here each message stands alone
            out.append(('(dec %s %s %s)' % (name, 'fresh', hexs(put_py(w2))), {'type': name, 'op': 'dec', 'class': 'required-dropped' if w2 != w else 'complete'}))
            if j == 0:
                out.append(('(enc %s ptr %s)' % (name, val_sx(u.zero(st(name)))), {'type': name, 'op': 'enc', 'class': 'zero-value'}))
    return out


def leftover_cases(u, rng, names=None, per=2):
    """messages in which a full container element is followed by a sparse one (all optional
    parts absent), in wire order: state left in a reused temporary shows in the sparse element"""
    out = []
    for s in valid_structs(u):
        if names is not None and s.name not in names:
            continue
        for f in s.sorted_fields():
            t = f.ty
            if t[0] == 'ptr':
                continue
            inner = t[2] if t[0] == 'map' else (t[1] if t[0] in ('list', 'set') else None)
            if inner is None or inner[0] not in ('struct', 'list', 'set', 'map', 'binary', 'string'):
                continue
            if inner[0] in ('string', 'binary') and t[0] != 'map':
                continue
            for j in range(per):
                r = rng.fork('left%s%d%d' % (s.name, f.fid, j))
                fv = ValGen(u, r, alternate=True, max_depth=4).val(t, 1)
                v = u.zero(st(s.name))
                fs = list(v[2])
                fs[s.sorted_fields().index(f)] = fv
                # required fields of the enclosing struct get ordinary values
                vg = ValGen(u, r, big=False, max_depth=2)
                for i, g in enumerate(s.sorted_fields()):
                    if g.req == 'required' and g is not f:
                        fs[i] = vg.val(g.ty, 2)
                v = ('t', b'', fs)
                msg = put_py(denote_py(u, st(s.name), v))
                out.append(('(dec %s fresh %s)' % (s.name, hexs(msg)), {'type': s.name, 'op': 'dec', 'class': 'full-then-sparse'}))
    return out


def c10_cases(u, groups, rng, tier):
    out = leftover_cases(u, rng.fork('leftover'))
    names = groups.get('defaults', []) + [s.name for s in valid_structs(u) if s.init is not None and s.name not in groups.get('defaults', [])]
    users = [s.name for s in valid_structs(u) if any(n in annot(f.ty) for f in s.fields for n in names)]
    k = 8 if tier == 'quick' else 60
    for name in names + users:
        s = u.by_name[name]
        r = rng.fork('c10' + name)
        for j in range(k):
            v = ValGen(u, r, big=False, max_depth=3, alternate=(j % 3 == 2)).val(st(name))
            # make some fields equal to their defaults (incl. -0.0 vs 0.0)
            if s.init is not None:
                ex = u.fresh(s)[2]
                fs = list(v[2])
                for i, f in enumerate(s.sorted_fields()):
                    if r.chance(1, 2):
                        fs[i] = ex[i]
                        if f.ty[0] == 'double' and ex[i][1] == 0 and r.chance(1, 2):
                            fs[i] = ('s', 1 << 63)
                        if f.ty[0] == 'binary' and r.chance(1, 3):
                            fs[i] = ('bn',)
                v = ('t', v[1], fs)
            out.append(('(enc %s %s %s)' % (name, 'ptr', val_sx(v)), {'type': name, 'op': 'enc'}))
            out.append(('(rt %s %s %s)' % (name, 'ptr', val_sx(v)), {'type': name, 'op': 'rt'}))
            w = denote_py(u, st(name), v)
            w = mutate_tree(r, w, [30000])
            out.append(('(dec %s %s %s)' % (name, dst_choice(u, r, name), hexs(put_py(w))), {'type': name, 'op': 'dec'}))
    return out


def c11_cases(u, groups, rng, tier):
    out = []
    hold = [s.name for s in valid_structs(u) if s.holder]
    users = [s.name for s in valid_structs(u) if any(n in annot(f.ty) for f in s.fields for n in hold)]
    k = 6 if tier == 'quick' else 40
    for name in hold + users + groups.get('holder', []):
        r = rng.fork('c11' + name)
        for j in range(k):
            v = ValGen(u, r, big=False, max_depth=3).val(st(name))
            w = denote_py(u, st(name), v)
            for _ in range(1 + r.below(3)):
                w = mutate_tree(r, w, [30000 + r.below(20), 40000, 65535, 0])
            msg = put_py(w)
            out.append(('(dec %s %s %s)' % (name, dst_choice(u, r, name), hexs(msg)), {'type': name, 'op': 'dec'}))
            out.append(('(hop %s %s)' % (name, hexs(msg)), {'type': name, 'op': 'hop'}))
            out.append(('(enc %s ptr %s)' % (name, val_sx(v)), {'type': name, 'op': 'enc'}))
    # many unknown fields at one struct level (the recorder's index grows), then an ordinary message
    # decoded with the same pooled recorder
    known = set(f.fid for s_ in valid_structs(u) for f in s_.sorted_fields())
    for name in (hold + groups.get('holder', []))[:6 if tier == 'quick' else 40]:
        r = rng.fork('c11wide' + name)
        for n in ([65, 130] if tier == 'quick' else [63, 64, 65, 66, 127, 128, 129, 257, 1000]):
            v = ValGen(u, r, big=False, max_depth=2).val(st(name))
            body = put_py(denote_py(u, st(name), v))[:-1]
            unk = b''
            fid = 50000
            for i in range(n):
                fid += 1 + r.below(3)
                while fid in known:
                    fid += 1
                if i % 3 == 0:
                    unk += b'\x08' + fid.to_bytes(2, 'big') + r.below(1 << 32).to_bytes(4, 'big')
                elif i % 3 == 1:
                    unk += b'\x0b' + fid.to_bytes(2, 'big') + b'\x00\x00\x00\x02' + bytes([97 + i % 26, 98])
                else:
                    unk += b'\x02' + fid.to_bytes(2, 'big') + b'\x01'
            msg = body + unk + b'\x00'
            out.append(('(dec %s fresh %s)' % (name, hexs(msg)), {'type': name, 'op': 'dec', 'shape': 'many-unknown'}))
            v2 = ValGen(u, r, big=False, max_depth=2).val(st(name))
            small = put_py(denote_py(u, st(name), v2))[:-1] + b'\x08\xc3\x50\x00\x00\x00\x07\x00'
            out.append(('(dec %s fresh %s)' % (name, hexs(small)), {'type': name, 'op': 'dec', 'shape': 'after-many-unknown'}))
            out.append(('(hop %s %s)' % (name, hexs(msg)), {'type': name, 'op': 'hop', 'shape': 'many-unknown'}))
            out.append(('(hop %s %s)' % (name, hexs(small)), {'type': name, 'op': 'hop', 'shape': 'after-many-unknown'}))
    return out


def deep_message(shape, depth, leaf=b'\x08\x00\x01\x00\x00\x00\x07'):
    """Rec-typed message nested `depth` levels through field 2 (struct), 3 (list) or 4 (map value)"""
    if shape == 'struct':       # Rec.F2 *Rec
        return (b'\x0c\x00\x02' * depth) + leaf + b'\x00' * (depth + 1)
    if shape == 'list':         # Rec.F3 list<Rec>, one element each
        return (b'\x0f\x00\x03\x0c\x00\x00\x00\x01' * depth) + leaf + b'\x00' * (depth + 1)
    if shape == 'map':          # Rec.F4 map<string,Rec>, one entry each
        return (b'\x0d\x00\x04\x0b\x0c\x00\x00\x00\x01\x00\x00\x00\x01k' * depth) + leaf + b'\x00' * (depth + 1)
    if shape == 'unknown-struct':   # unknown field id 99 holding nested structs
        return (b'\x0c\x00\x63' * depth) + b'\x00' * (depth + 1)
    if shape == 'unknown-list':     # unknown field 99: list<list<...<i32>>>
        return b'\x0f\x00\x63' + (b'\x0f\x00\x00\x00\x01' * (depth - 1)) + b'\x08\x00\x00\x00\x00' + b'\x00'
    raise ValueError(shape)


def c15_cases(u, groups, rng, tier):
    out = []
    depths = [1, 2, 31, 32, 33, 47, 48, 49, 62, 63, 64, 65, 66, 255, 340, 341, 342, 510, 511, 512, 513, 1022, 1023, 1024, 1025, 10000]
    if tier == 'thorough':
        depths += [100000, 1000000]
    for shape in ('struct', 'list', 'map', 'unknown-struct', 'unknown-list'):
        for d in depths:
            out.append(('(dec Rec fresh %s)' % hexs(deep_message(shape, d)), {'type': 'Rec', 'op': 'dec', 'shape': shape, 'depth': d}))
    # mixtures: the budget is spent 2 per struct hop and 3 per container hop, so every residue of
    # the limit is reached by some mixture; random mixtures far beyond the limit and around it
    def mixed(hops):
        pre = {'s': b'\x0c\x00\x02', 'l': b'\x0f\x00\x03\x0c\x00\x00\x00\x01', 'm': b'\x0d\x00\x04\x0b\x0c\x00\x00\x00\x01\x00\x00\x00\x01k'}
        return b''.join(pre[h] for h in hops) + b'\x08\x00\x01\x00\x00\x00\x07' + b'\x00' * (len(hops) + 1)
    for a in range(0, 4):
        for c in 'lm':
            for n in (330, 338, 339, 340, 341, 342, 343, 400, 700):
                hops = 's' * a + c * n
                out.append(('(dec Rec fresh %s)' % hexs(mixed(hops)), {'type': 'Rec', 'op': 'dec', 'shape': 'mixed-' + c, 'depth': len(hops)}))
    for j in range(12 if tier == 'quick' else 200):
        r = rng.fork('mix%d' % j)
        hops = ''.join(r.pick('sslm') for _ in range(r.pick([300, 420, 480, 520, 700, 1100])))
        out.append(('(dec Rec fresh %s)' % hexs(mixed(hops)), {'type': 'Rec', 'op': 'dec', 'shape': 'mixed-random', 'depth': len(hops)}))
    # by-value struct elements: RecV.F2 *RecV (p), F3 list<RecV> (v), F4 map<string,RecV> (m), F5 list<list<RecV>> (w)
    # a pointer hops first, so that every residue of the budget is reached at the by-value struct
    def mixedv(hops):
        pre = {'p': b'\x0c\x00\x02', 'v': b'\x0f\x00\x03\x0c\x00\x00\x00\x01',
               'm': b'\x0d\x00\x04\x0b\x0c\x00\x00\x00\x01\x00\x00\x00\x01k',
               'w': b'\x0f\x00\x05\x0f\x00\x00\x00\x01\x0c\x00\x00\x00\x01'}
        return b''.join(pre[h] for h in hops) + b'\x08\x00\x01\x00\x00\x00\x07' + b'\x00' * (len(hops) + 1)
    if 'RecV' in u.by_name:
        for a in range(0, 7):
            for c in 'vmw':
                for n in ((8, 3000) if tier == 'quick' else (1, 8, 250, 340, 341, 342, 3000, 20000)):
                    hops = 'p' * a + c * n
                    out.append(('(dec RecV fresh %s)' % hexs(mixedv(hops)), {'type': 'RecV', 'op': 'dec', 'shape': 'byvalue-' + c, 'depth': len(hops)}))
        for j in range(10 if tier == 'quick' else 200):
            r = rng.fork('mixv%d' % j)
            hops = ''.join(r.pick('ppvmw') for _ in range(r.pick([200, 300, 420, 520, 1100, 4000])))
            out.append(('(dec RecV fresh %s)' % hexs(mixedv(hops)), {'type': 'RecV', 'op': 'dec', 'shape': 'byvalue-random', 'depth': len(hops)}))
    # wide is not deep
    out += wide_cases(u, groups, rng.fork('wide'), tier, 'dec')
    # key-side nesting: RecKey.F1 map<RecKey, i32>
    for d in [1, 47, 48, 49, 340, 341, 342, 511, 512, 1024]:
        msg = (b'\x0d\x00\x01\x0c\x08\x00\x00\x00\x01' * d) + b'\x00' + (b'\x00\x00\x00\x05\x00' * d)
        out.append(('(dec RecKey fresh %s)' % hexs(msg), {'type': 'RecKey', 'op': 'dec', 'shape': 'mapkey', 'depth': d}))
    # a deep key behind a wide map: the number of entries must not enter the depth accounting
    for w_ in ([1100] if tier == 'quick' else [2, 100, 1021, 1022, 1023, 1100, 5000]):
        for d in ([20, 3000] if tier == 'quick' else [1, 20, 340, 342, 3000, 100000]):
            deep = (b'\x0d\x00\x01\x0c\x08\x00\x00\x00\x01' * d) + b'\x00' + (b'\x00\x00\x00\x05\x00' * d)
            msg = b'\x0d\x00\x01\x0c\x08' + w_.to_bytes(4, 'big') + deep + b'\x00\x00\x00\x07' + (b'\x00\x00\x00\x00\x01' * (w_ - 1)) + b'\x00'
            out.append(('(dec RecKey fresh %s)' % hexs(msg), {'type': 'RecKey', 'op': 'dec', 'shape': 'mapkey-wide', 'depth': d}))
    return out


def c16_cases(u, groups, rng, tier):
    out = c_encode_cases(u, groups, rng, tier, 'enc') + hammer_cases(u, rng.fork('hammer'), tier)
    out += [c for c in c04_cases(u, groups, rng.fork('c16buf'), 'quick') if c[0].startswith('(encbuf')][:1500]
    out += c03_cases(u, groups, rng.fork('c16dec'), 'quick')
    return out


GENERATORS = {
    'C01': lambda u, g, r, t: c_encode_cases(u, g, r, t, 'rt') + wide_cases(u, g, r.fork('wide'), t, 'rt'),
    'C02': lambda u, g, r, t: c_encode_cases(u, g, r, t, 'enc'),
    'C03': c03_cases,
    'C04': c04_cases,
    'C05': c05_cases,
    'C09': c09_cases,
    'C10': c10_cases,
    'C11': c11_cases,
    'C15': c15_cases,
    'C16': c16_cases,
}


def desc_cases(u):
    """what desc.go computes once per type, for every valid type: flags per field, required ids, and
    the id index probed at 0, every declared id and its neighbours, ids that alias modulo 256 / 65536"""
    out = []
    for s_ in valid_structs(u):
        ids = [f.fid for f in s_.sorted_fields()]
        pr = set([0, 1, 255, 256, 32767, 32768, 65534, 65535])
        for i in ids:
            pr.update([i, (i + 1) & 0xffff, (i - 1) & 0xffff, i ^ 0x100, i ^ 0x8000])
        out.append(('(desc %s %s)' % (s_.name, ' '.join(str(x) for x in sorted(pr))), {'type': s_.name, 'op': 'desc'}))
    return out


def c12_cases(u, groups, rng, tier):
    """schema = tags: (1) what internal/defs resolves for every struct of the universe equals what
    the model's tag parser resolves; (2) behaviour of the equivalent spellings"""
    out = []
    for s in u.structs:
        out.append(('(resolve %s)' % s.name, {'type': s.name, 'op': 'resolve', 'group': 'invalid' if s.invalid else 'valid'}))
    k = 4 if tier == 'quick' else 40
    for name in groups.get('spell', []):
        r = rng.fork('c12' + name)
        for j in range(k):
            v = ValGen(u, r, big=False, max_depth=3).val(st(name))
            out.append(('(rt %s ptr %s)' % (name, val_sx(v)), {'type': name, 'op': 'rt'}))
            out.append(('(enc %s val %s)' % (name, val_sx(v)), {'type': name, 'op': 'enc'}))
            w = mutate_tree(r, denote_py(u, st(name), v), [30000, 40, 41])
            out.append(('(dec %s fresh %s)' % (name, hexs(put_py(w))), {'type': name, 'op': 'dec'}))
    # (3) every type of the universe encodes as its tags say (one value each; more in the thorough tier)
    for name in all_names(u):
        r = rng.fork('c12all' + name)
        for j in range(1 if tier == 'quick' else 4):
            v = ValGen(u, r, big=False, max_depth=3).val(st(name))
            out.append(('(enc %s ptr %s)' % (name, val_sx(v)), {'type': name, 'op': 'enc', 'scope': 'all-types'}))
    return out


def c13_cases(u, groups, rng, tier):
    out = []
    for name in groups.get('invalid', []) + groups.get('invalid-nested', []) + groups.get('poison', []):
        out.append(('(resolve %s)' % name, {'type': name, 'op': 'resolve'}))
        out.append(('(api3 %s)' % name, {'type': name, 'op': 'api3'}))
    for name in groups.get('spell', []) + groups.get('structs', []) + groups.get('scalars', []):
        out.append(('(api3 %s)' % name, {'type': name, 'op': 'api3-valid'}))
    for kind in ['nil', 'int', 'string', 'ptrint', 'slice', 'map', 'ptrptr', 'nilptr', 'func', 'ptrslice', 'ptrmap',
                 'nilptrint', 'nilptrptr', 'float', 'array', 'chan', 'ptriface', 'ptr', 'struct']:
        out.append(('(badarg %s)' % kind, {'type': 'Leaf', 'op': 'badarg', 'kind': kind}))
    # rejected registrations must not affect other types: the first-use orders of the history check
    sess = [x for x in c07_sessions(u, groups, rng.fork('c13orders'), 'quick')['sessions'] if x and x[0][1].get('op') == 'api3-order']
    return {'sessions': sess, 'cases': out}


GENERATORS['C12'] = c12_cases
GENERATORS['C13'] = c13_cases


# ------------------------------------------------------------------ sessions (state between calls)

def small_val(u, rng, name):
    return ValGen(u, rng, big=False, max_depth=3 if rng.chance(1, 3) else 2, alternate=rng.chance(1, 3)).val(st(name))


def random_op(u, groups, rng, names, bad_names):
    """one API call in the case syntax, over valid and invalid types"""
    r = rng.below(100)
    if r < 12 and bad_names:
        return '(api3 %s)' % rng.pick(bad_names), {'op': 'api3-invalid'}
    name = rng.pick(names)
    if r < 20:
        return '(api3 %s)' % name, {'op': 'api3-valid', 'type': name}
    v = small_val(u, rng, name)
    mode = 'val' if rng.chance(1, 3) else 'ptr'
    if r < 45:
        return '(rt %s %s %s)' % (name, mode, val_sx(v)), {'op': 'rt', 'type': name}
    if r < 60:
        return '(enc %s %s %s)' % (name, mode, val_sx(v)), {'op': 'enc', 'type': name}
    w = denote_py(u, st(name), v)
    if rng.chance(1, 2):
        w = mutate_tree(rng, w, [30000, 3, 65535])
    marks = []
    msg = put_py(w, marks)
    if r < 85:
        return '(dec %s %s %s)' % (name, dst_choice(u, rng, name), hexs(msg)), {'op': 'dec', 'type': name}
    # a decode that fails midway through a container
    bad = corrupt(rng, msg, marks)
    lab, bs = rng.pick(bad) if bad else ('prefix', msg[:1])
    return '(dec %s fresh %s)' % (name, hexs(bs)), {'op': 'dec-bad', 'type': name}


def c07_sessions(u, groups, rng, tier):
    """call histories: every call's result must be the stateless model's result"""
    b = budget(tier)
    names = all_names(u)
    bad = groups.get('poison', []) + groups.get('invalid-nested', []) + groups.get('invalid', [])[:20]
    # types whose maps hold by-value structs, structs with required ids, holders: where leftovers would show
    focus = [n for n in names if n.startswith('M1') and n.endswith('XLeaf')] + groups.get('ids', []) + groups.get('holder', []) + \
            groups.get('defaults', []) + groups.get('structs', [])
    sessions = []
    for h in range(b['histories']):
        r = rng.fork('hist%d' % h)
        pool = [r.pick(names) for _ in range(8)] + [r.pick(focus) for _ in range(4)]
        sess = []
        for _ in range(10 + r.below(30)):
            sess.append(random_op(u, groups, r, pool, bad if r.chance(1, 2) else []))
        sessions.append(sess)
    # first-use orders of mutually nested and poisoned types
    orders = [['POuter', 'POther'], ['POuter', 'PInner', 'POther'], ['POther', 'POuter', 'POther'], ['POuter', 'POuter', 'POther', 'PInner'],
              ['PA', 'PQ'], ['PQ', 'PA', 'PQ'], ['PX', 'PY', 'PZ'], ['PZ', 'PY'], ['PB', 'PQ', 'PA'], ['PY', 'PX', 'PZ', 'PQ'],
              ['MutA', 'MutB'], ['MutB', 'MutA'], ['Rec', 'RecKey'], ['PA', 'MutA', 'PQ', 'MutB'], ['Bad136', 'Leaf', 'Bad1', 'Bad136']]
    for o in orders:
        sess = []
        for n in o:
            if n in u.by_name:
                sess.append(('(api3 %s)' % n, {'op': 'api3-order', 'type': n}))
        for n in o:
            if n in u.by_name and not u.by_name[n].invalid:
                v = ValGen(u, rng.fork('o' + n), alternate=True, max_depth=4).val(st(n))     # nested pointers non-nil
                sess.append(('(rt %s ptr %s)' % (n, val_sx(v)), {'op': 'rt', 'type': n}))
        sessions.append(sess)
    # a decode that fails inside a container element, then a message whose first element is sparse:
    # whatever the failed decode left in a reused temporary must not show
    for s_ in valid_structs(u):
        fl = [f for f in s_.sorted_fields() if f.ty[0] == 'map' and f.ty[2][0] in ('struct', 'list', 'set', 'map')]
        if not fl or (tier == 'quick' and not (s_.name.startswith('M1') or s_.name in ('DefHolder', 'HoldNest', 'MpI32', 'MpString'))):
            continue
        for f in fl[:2]:
            r = rng.fork('failthen%s%d' % (s_.name, f.fid))
            fv = ValGen(u, r, alternate=True, max_depth=4).val(f.ty, 1)
            if fv[0] != 'm' or len(fv[1]) < 2:
                continue
            def with_entries(es):
                v = u.zero(st(s_.name))
                fs = list(v[2])
                fs[s_.sorted_fields().index(f)] = ('m', es)
                vg = ValGen(u, r.fork('req'), big=False, max_depth=2)
                for i, g in enumerate(s_.sorted_fields()):
                    if g.req == 'required' and g is not f:
                        fs[i] = vg.val(g.ty, 2)
                return put_py(denote_py(u, st(s_.name), ('t', b'', fs)))
            full = with_entries(fv[1][:1])
            sparse = with_entries(fv[1][1:2])
            if f.ty[2][0] == 'struct':
                # the sparsest element of all: a struct value that carries no field at all
                v0 = u.zero(st(s_.name))
                fs0 = list(v0[2])
                fs0[s_.sorted_fields().index(f)] = ('m', fv[1][1:2])
                vg0 = ValGen(u, r.fork('req0'), big=False, max_depth=2)
                for i, g in enumerate(s_.sorted_fields()):
                    if g.req == 'required' and g is not f:
                        fs0[i] = vg0.val(g.ty, 2)
                w0 = denote_py(u, st(s_.name), ('t', b'', fs0))
                fl0 = [(c, fid, (('mp', fw[1], fw[2], [(a, ('st', [], b'')) for a, b_ in fw[3]]) if fid == f.fid and fw[0] == 'mp' else fw))
                       for (c, fid, fw) in w0[1]]
                sparse = put_py(('st', fl0, w0[2]))
            sess = []
            for cut in (1, 2, 3):
                if len(full) > cut + 8:
                    sess.append(('(dec %s fresh %s)' % (s_.name, hexs(full[:-cut])), {'type': s_.name, 'op': 'dec-bad', 'shape': 'fail-in-element'}))
                    sess.append(('(dec %s fresh %s)' % (s_.name, hexs(sparse)), {'type': s_.name, 'op': 'dec', 'shape': 'sparse-after-failure'}))
            if sess:
                sessions.append(sess)
    # a valid nested type first used BY VALUE (size or encode), then a registration that fails, then the
    # valid type again in every form: the failed build must not undo anything of the earlier one
    nestedv = [n for n in ['StPtr', 'StVal', 'HoldNest', 'DefHolder', 'MutA', 'Rec', 'LiPLeaf', 'M1I32XPLeaf', 'NoCopyNest'] if n in u.by_name]
    badn = [n for n in ['PQ', 'PA', 'Bad1'] + groups.get('invalid-nested', [])[:2] if n in u.by_name]
    for i, n in enumerate(nestedv):
        for first in ('enc', 'rt'):
            r = rng.fork('byval%s%s' % (n, first))
            v = ValGen(u, r, alternate=True, max_depth=4).val(st(n))
            sess = [('(%s %s val %s)' % (first, n, val_sx(v)), {'op': first, 'type': n, 'shape': 'first-by-value'}),
                    ('(api3 %s)' % badn[i % len(badn)], {'op': 'api3-invalid'}),
                    ('(rt %s ptr %s)' % (n, val_sx(v)), {'op': 'rt', 'type': n}),
                    ('(rt %s val %s)' % (n, val_sx(v)), {'op': 'rt', 'type': n}),
                    ('(dec %s fresh %s)' % (n, hexs(put_py(denote_py(u, st(n), v)))), {'op': 'dec', 'type': n})]
            sessions.append(sess)
    return {'sessions': sessions}


def c17_sessions(u, groups, rng, tier):
    """legacy calls before / between / after codec calls, under generated environments"""
    names = all_names(u)
    k = 24 if tier == 'quick' else 200
    envs_pool = [None, {'FRUGAL_MAX_INLINE_DEPTH': '2'}, {'FRUGAL_MAX_INLINE_DEPTH': '7', 'FRUGAL_MAX_INLINE_IL_SIZE': '257'},
                 {'FRUGAL_MAX_INLINE_IL_SIZE': '0x7fffffff'}, {'FRUGAL_MAX_INLINE_DEPTH': '0b11'}, {'FRUGAL_MAX_INLINE_DEPTH': '1_000'},
                 {'FRUGAL_MAX_INLINE_DEPTH': '017', 'FRUGAL_MAX_INLINE_IL_SIZE': '1000000'}, {'FRUGAL_MAX_INLINE_DEPTH': '9223372036854775807'},
                 # each valid on its own, in every relative order
                 {'FRUGAL_MAX_INLINE_DEPTH': '1000', 'FRUGAL_MAX_INLINE_IL_SIZE': '500'},
                 {'FRUGAL_MAX_INLINE_DEPTH': '1000000', 'FRUGAL_MAX_INLINE_IL_SIZE': '1000000'},
                 {'FRUGAL_MAX_INLINE_DEPTH': '257', 'FRUGAL_MAX_INLINE_IL_SIZE': '257'},
                 {'FRUGAL_MAX_INLINE_DEPTH': '2', 'FRUGAL_MAX_INLINE_IL_SIZE': '9223372036854775807'},
                 {'FRUGAL_MAX_INLINE_DEPTH': '4096'}, {'FRUGAL_MAX_INLINE_DEPTH': '100000', 'FRUGAL_MAX_INLINE_IL_SIZE': '100000'}]
    # generated valid values (valid = accepted by the model of parseOrDefault, coq/EnvParse.v, which the judge
    # re-checks on the environment the child reports): every base spelling of strconv.ParseUint(s, 0, 64),
    # underscores between digits and after the prefix, values at the minimum + 1, at 2^31, 2^32 and 2^63 - 1
    def env_numeral(r, minimum):
        choice = r.below(6)
        if choice == 0: v = minimum + 1
        elif choice == 1: v = (1 << 63) - 1
        elif choice == 2: v = r.pick([1 << 31, (1 << 31) - 1, 1 << 32, (1 << 32) + 1, 1 << 62])
        else: v = max(minimum + 1, r.below(1 << (2 + r.below(61))) + minimum + 1)
        v = min(v, (1 << 63) - 1)
        form = r.below(7)
        pre, digs = [('', '%d' % v), ('0x', '%x' % v), ('0X', ('%x' % v).upper()), ('0b', bin(v)[2:]), ('0o', '%o' % v),
                     ('0O', '%o' % v), ('0', '%o' % v)][form]
        if form in (1, 2) and r.below(2): digs = ''.join(c.upper() if r.below(2) else c.lower() for c in digs)
        if r.below(3) == 0:
            out = digs[0]
            for c in digs[1:]:
                out += ('_' if r.below(4) == 0 else '') + c
            digs = out
            if pre and r.below(2): digs = '_' + digs
        return pre + digs
    rg = rng.fork('envgen')
    for _ in range(10 if tier == 'quick' else 120):
        e = {}
        if rg.below(4): e['FRUGAL_MAX_INLINE_DEPTH'] = env_numeral(rg, 1)
        if rg.below(4): e['FRUGAL_MAX_INLINE_IL_SIZE'] = env_numeral(rg, 256)
        envs_pool.append(e or None)
    legacy = ['Pretouch', 'NoJIT', 'SetMaxInlineDepth', 'SetMaxInlineILSize', 'GetStats', 'WithOptions']
    bad = groups.get('invalid', [])[:30] + groups.get('poison', [])
    sessions, envs = [], []
    for h in range(k):
        r = rng.fork('leg%d' % h)
        pool = [r.pick(names) for _ in range(6)]
        # the same codec calls with and without legacy calls interleaved, under some environment
        codec = [random_op(u, groups, r, pool, []) for _ in range(6 + r.below(8))]
        sess = [('(env)', {'op': 'env'})]
        for c in codec:
            for _ in range(r.below(3)):
                f = r.pick(legacy)
                arg = r.pick([0, 1, 2, 50000, 2147483647, 7])
                tn = r.pick(pool + bad)
                sess.append(('(legacy %s %d %s)' % (f, arg, tn), {'op': 'legacy', 'fn': f}))
            sess.append(c)
        sessions.append(sess)
        envs.append(r.pick(envs_pool))
    # every environment of the pool at least once
    for j, e in enumerate(envs_pool):
        r = rng.fork('env%d' % j)
        pool = [r.pick(names) for _ in range(3)]
        deep = [('(dec Rec fresh %s)' % hexs(deep_message('struct', d)), {'op': 'dec', 'type': 'Rec', 'shape': 'deep'}) for d in (48, 511, 512, 600, 3000)] \
            if 'Rec' in u.by_name else []
        sessions.append([('(env)', {'op': 'env'})] + [random_op(u, groups, r, pool, []) for _ in range(4)] + deep)
        envs.append(e)
    poison = groups.get('poison', [])
    for order in [['PQ', 'PA'], ['PA', 'PQ'], ['POuter', 'POther'], ['PX', 'PZ'], ['PZ', 'PY', 'PX']]:
        sess = []
        for j, n in enumerate(order):
            if n in u.by_name:
                sess.append(('(legacy Pretouch %d %s)' % (j, n), {'op': 'legacy', 'fn': 'Pretouch'}))
        for n in order:
            if n in u.by_name:
                sess.append(('(api3 %s)' % n, {'op': 'api3', 'type': n}))
                if not u.by_name[n].invalid:
                    v = ValGen(u, rng.fork('p' + n), alternate=True, max_depth=4).val(st(n))
                    sess.append(('(rt %s ptr %s)' % (n, val_sx(v)), {'op': 'rt', 'type': n}))
        sessions.append(sess)
        envs.append(None)
    # the model of strconv.ParseUint(s, 0, 64) against the standard library: valid numerals in every spelling,
    # mutations of them (a character replaced, inserted, dropped, doubled underscore), boundary values around
    # 2^63 and 2^64 in every base, and short random strings over the alphabet the parser distinguishes
    rp = rng.fork('parseuint')
    strs = ['', '0', '00', '0x', '0X1', '0b', '0o', '_', '0_', '0_0', '0__0', '_0', '0x_', '0x_0', '0x0_', '+1', '-1', ' 1', '1 ',
            '08', '0o8', '0b2', '0xg', '0xG', '0Xf', '1e3', '0e', '0b_1_0', '0_17', '1_2_3', '12__3', '0x1_', 'x1', '0z1']
    for base, pre in ((10, ''), (16, '0x'), (16, '0X'), (2, '0b'), (8, '0o'), (8, '0')):
        for v in ((1 << 63) - 1, 1 << 63, (1 << 64) - 1, 1 << 64, (1 << 64) + 1, (1 << 64) * base, ((1 << 64) - 1) // base + 1,
                  ((1 << 64) - 1) // base, 10 ** 30):
            digs = {10: '%d', 16: '%x', 8: '%o'}.get(base, None)
            strs.append(pre + (digs % v if digs else bin(v)[2:]))
    alphabet = '0123456789abcdefABCDEFxXoObB_gzZ+- .'
    for _ in range(150 if tier == 'quick' else 3000):
        k = rp.below(4)
        if k == 0:
            t = ''.join(rp.pick(alphabet) for _ in range(1 + rp.below(6)))
        else:
            t = env_numeral(rp, rp.pick([1, 256]))
            if k >= 2:
                i = rp.below(len(t) + 1)
                m = rp.below(4)
                if m == 0: t = t[:i] + rp.pick(alphabet) + t[i:]
                elif m == 1 and t: t = t[:i] + rp.pick(alphabet) + t[i + 1:]
                elif m == 2 and t: t = t[:i] + t[i + 1:]
                else: t = t[:i] + '_' + t[i:]
        strs.append(t)
    pcases = [('(parseuint %s)' % (t.encode().hex() or '-'), {'op': 'parseuint', 'len': min(len(t), 24)}) for t in dict.fromkeys(strs)]
    return {'sessions': sessions, 'envs': envs, 'cases': pcases}


def c18_cases(u, groups, rng, tier):
    out = []
    k = 2 if tier == 'quick' else 8
    for name in all_names(u):
        r = rng.fork('c18' + name)
        vals = values_for(u, r, name, k, big=True)
        if name in groups.get('maps1', []):
            ms = map_size_values(u, r, name)
            vals += [ms[0], ms[4], ms[6]] if tier == 'quick' else ms
        for v in vals:
            out.append(('(allocs %s %s)' % (name, val_sx(v)), {'type': name, 'op': 'allocs'}))
    # one process, one goroutine: allocation counts are process-wide
    return {'sessions': [out[i::8] for i in range(8)]}


def c06_sessions(u, groups, rng, tier):
    """decodes whose results are kept alive while further messages are decoded, input buffers are
    overwritten and collections run; memory pieces examined after every decode"""
    names = all_names(u)
    k = 40 if tier == 'quick' else 600
    sessions = []
    big_sizes = [1, 7, 8, 255, 256, 257, 300, 2040, 2047, 2048, 2049, 4100]
    for h in range(k):
        r = rng.fork('mem%d' % h)
        pool = [r.pick(names) for _ in range(5)] + [r.pick(groups['lists'] + groups['scalars'] + groups['nocopy'] + groups['maps'])]
        sess = []
        for j in range(6 + r.below(6)):
            name = r.pick(pool)
            v = ValGen(u, r, big=r.chance(1, 2), max_depth=3).val(st(name))
            msg = put_py(denote_py(u, st(name), v))
            op = 'keep' if r.chance(2, 3) else 'mem'
            sess.append(('(%s %s %s)' % (op, name, hexs(msg)), {'type': name, 'op': op, 'msglen': len(msg) // 256}))
            if r.chance(1, 3):
                sess.append(('(recheck)', {'op': 'recheck'}))
        sess.append(('(recheck)', {'op': 'recheck'}))
        sessions.append(sess)
    # the unknown-fields holder is memory of the decoded object too: one, two and many skipped fields
    hold = [s_.name for s_ in valid_structs(u) if s_.holder][:(8 if tier == 'quick' else 100)]
    for name in hold:
        r = rng.fork('memhold' + name)
        sess = []
        for nunk in (1, 1, 2, 5):
            v = ValGen(u, r, big=False, max_depth=2).val(st(name))
            body = put_py(denote_py(u, st(name), v))[:-1]
            unk = b''.join(b'\x0b' + (60000 + i).to_bytes(2, 'big') + b'\x00\x00\x00\x05hello' for i in range(nunk))
            sess.append(('(keep %s %s)' % (name, hexs(body + unk + b'\x00')), {'type': name, 'op': 'keep', 'unknown': nunk}))
            sess.append(('(mem %s %s)' % (name, hexs(body + unk + b'\x00')), {'type': name, 'op': 'mem', 'unknown': nunk}))
        sess.append(('(recheck)', {'op': 'recheck'}))
        sessions.append(sess)
    # allocator thresholds: strings and scalar lists straddling 256 (large-object cut) and 2048 (block size)
    for sz in big_sizes:
        sess = []
        for name, mk in [('ScString', lambda n: ('t', b'', [('b', bytes([97]) * n), ('b', b'r'), ('b', b''), ('pn',)])),
                         ('LiI64', lambda n: ('t', b'', [('l', [('s', i) for i in range(n // 8 + 1)]), ('ln',), ('l', [])])),
                         ('LiI8', lambda n: ('t', b'', [('l', [('s', i % 256) for i in range(n)]), ('ln',), ('l', [])])),
                         ('LiI16', lambda n: ('t', b'', [('l', [('s', i % 65536) for i in range(n // 2 + 1)]), ('ln',), ('l', [])]))]:
            if name in u.by_name:
                msg = put_py(denote_py(u, st(name), mk(sz)))
                sess.append(('(keep %s %s)' % (name, hexs(msg)), {'type': name, 'op': 'keep', 'threshold': sz}))
        sess.append(('(recheck)', {'op': 'recheck'}))
        sessions.append(sess)
    # operation-level: the bump allocator itself
    ops = []
    for h in range(30 if tier == 'quick' else 400):
        r = rng.fork('span%d' % h)
        reqs = ' '.join('(%d %d)' % (r.pick([0, 1, 2, 3, 7, 8, 9, 100, 255, 256, 257, 1000, 2040, 2047, 2048, 2049, 5000, r.below(300)]), r.pick([1, 2, 4, 8]))
                        for _ in range(1 + r.below(40)))
        ops.append(('(span %s)' % reqs, {'op': 'span'}))
    sessions.append(ops)
    return {'sessions': sessions}


def c14_cases(u, groups, rng, tier):
    out = []
    nc = [s.name for s in valid_structs(u) if any(f.nocopy for f in s.fields)]
    users = [s.name for s in valid_structs(u) if any(n in annot(f.ty) for f in s.fields if f.ty for n in nc)]
    k = 10 if tier == 'quick' else 80
    for name in nc + users + groups.get('nocopy', []):
        r = rng.fork('c14' + name)
        for j in range(k):
            v = ValGen(u, r, big=(j % 3 == 0), max_depth=3).val(st(name))
            w = denote_py(u, st(name), v)
            if j % 2:
                w = mutate_tree(r, w, [30000])
            out.append(('(mem %s %s)' % (name, hexs(put_py(w))), {'type': name, 'op': 'mem'}))
    # types without the option never reference the buffer
    for name in groups.get('scalars', []) + groups.get('lists', [])[:8]:
        r = rng.fork('c14n' + name)
        v = ValGen(u, r, big=False, max_depth=3).val(st(name))
        out.append(('(mem %s %s)' % (name, hexs(put_py(denote_py(u, st(name), v)))), {'type': name, 'op': 'mem-plain'}))
    return out


def c08_sessions(u, groups, rng, tier):
    """goroutines released together onto types never used before in the process"""
    names = all_names(u)
    k = 30 if tier == 'quick' else 400
    sessions = []
    nested = ['MutA', 'MutB', 'Rec', 'RecKey', 'DefHolder', 'HoldNest', 'StPtr', 'StVal']
    for h in range(k):
        r = rng.fork('conc%d' % h)
        n = r.pick([2, 4, 16, 64])
        pool = [r.pick(names) for _ in range(r.pick([1, 2, 4]))] + [r.pick(nested)]
        cs = []
        for _ in range(n * r.pick([1, 2, 3])):
            sx, _info = random_op(u, groups, r, pool, [])
            if sx.startswith('(api3'):
                continue
            cs.append(sx)
        sess = [('(conc %d %s)' % (n, ' '.join(cs)), {'op': 'conc', 'goroutines': n})]
        # steady state afterwards, mixed with first use of more types
        pool2 = pool + [r.pick(names) for _ in range(3)]
        cs2 = [random_op(u, groups, r, pool2, [])[0] for _ in range(n * 2)]
        cs2 = [c for c in cs2 if not c.startswith('(api3')]
        sess.append(('(conc %d %s)' % (n, ' '.join(cs2)), {'op': 'conc', 'goroutines': n}))
        sessions.append(sess)
    ops = []
    for h in range(20 if tier == 'quick' else 300):
        r = rng.fork('dm%d' % h)
        keys = [r.pick([1, 2, 65536 + 1, 65536 * 2 + 1, 65536 * 3 + 2, r.below(1 << 40)]) for _ in range(6)]
        body = ' '.join(('(0 %d %d)' % (r.pick(keys), 1 + r.below(5))) if r.chance(1, 2) else ('(1 %d)' % r.pick(keys)) for _ in range(5 + r.below(40)))
        ops.append(('(descmap %s)' % body, {'op': 'descmap'}))
    sessions.append(ops)
    sessions.append(hammer_cases(u, rng.fork('hammer'), tier))
    # registrations that FAIL (late: nested invalid definitions reached after valid ones) overlapping
    # with first uses of valid types: the clean-up of the failed build is under the same lock
    bad = groups.get('poison', []) + groups.get('invalid-nested', [])
    good = [n for n in nested + names[:40] if n in u.by_name and not u.by_name[n].invalid]
    for h in range(8 if tier == 'quick' else 120):
        r = rng.fork('concfail%d' % h)
        n = r.pick([4, 8, 16])
        cs = []
        for j in range(n * 2):
            if j % 2 == 0 and bad:
                cs.append('(api3 %s)' % r.pick(bad))
            else:
                nm = r.pick(good)
                cs.append('(enc %s ptr %s)' % (nm, val_sx(small_val(u, r, nm))))
        sessions.append([('(conc %d %s)' % (n, ' '.join(cs)), {'op': 'conc-failing-registration', 'goroutines': n})])
    return {'sessions': sessions}


def hook_cases_bitset(rng, tier):
    out = []
    ids = [0, 1, 62, 63, 64, 65, 127, 128, 129, 1023, 1024, 4095, 4096, 32767, 32768, 65534, 65535]
    for h in range(30 if tier == 'quick' else 500):
        r = rng.fork('bs%d' % h)
        pool = [r.pick(ids) for _ in range(5)] + [r.below(65536) for _ in range(3)]
        body = ' '.join('(%d %d)' % (r.pick([0, 0, 1, 2, 2]), r.pick(pool)) for _ in range(10 + r.below(60)))
        out.append(('(bitset %s)' % body, {'op': 'bitset'}))
    return out


def hook_cases_unknown_ops(rng, tier):
    """one pooled recorder through several decodes' worth of Reset / Add / Size / Copy, with index
    growth (8, 16, 32, 64, 128 ... entries) between them"""
    out = []
    for h in range(12 if tier == 'quick' else 200):
        r = rng.fork('ufo%d' % h)
        b = bytes(r.below(256) for _ in range(r.pick([16, 64, 300])))
        ops = []
        for sess in range(r.pick([2, 3, 5])):
            ops.append('(0)')
            n = r.pick([0, 1, 2, 7, 8, 9, 17, 63, 64, 65, 66, 129, 300])
            for _ in range(n):
                off = r.below(len(b))
                sz = r.below(min(9, len(b) - off) + 1)
                ops.append('(1 %d %d)' % (off, sz))
                if r.chance(1, 40):
                    ops.append('(3)')
            ops.append('(3)')
            ops.append('(2)')
            if r.chance(1, 3):
                ops.append('(2)')
        if h % 6 == 5:
            ops += ['(0)', '(1 %d 8)' % (len(b) - 3), '(2)']       # extent beyond the input: a Go panic, not a wild read
        out.append(('(unknownops %s %s)' % (b.hex(), ' '.join(ops)), {'op': 'unknownops'}))
    return out


def hook_cases_unknown(rng, tier):
    out = []
    for h in range(20 if tier == 'quick' else 300):
        r = rng.fork('uk%d' % h)
        n = 8 + r.below(60)
        b = bytes(r.below(256) for _ in range(n))
        adds = []
        for _ in range(r.below(12)):
            off = r.below(n)
            adds.append('(%d %d)' % (off, r.below(n - off + 1)))
        out.append(('(unknown %s %s)' % (b.hex(), ' '.join(adds)), {'op': 'unknown'}))
    return out


_c09 = c09_cases
_c11 = c11_cases
_c02 = GENERATORS['C02']
_c05 = c05_cases


def c09_all(u, g, r, t):
    return _c09(u, g, r, t) + hook_cases_bitset(r.fork('bitset'), t) + desc_cases(u)


def c11_all(u, g, r, t):
    return _c11(u, g, r, t) + hook_cases_unknown(r.fork('unknown'), t) + hook_cases_unknown_ops(r.fork('unknownops'), t) + desc_cases(u)


def c02_all(u, g, r, t):
    return _c02(u, g, r, t) + [('(dispatch)', {'op': 'dispatch'})] + desc_cases(u)


def c05_all(u, g, r, t):
    base = _c05(u, g, r, t)
    # memory and time of a sample of the same malformed inputs, plus hostile counts
    extra = []
    rr = r.fork('decm')
    for sx, info in base:
        if rr.chance(1, 12 if t == 'quick' else 4):
            m = sx.split(' ')
            extra.append(('(decm %s %s)' % (m[1], m[3].rstrip(')')), {'op': 'decm', 'type': m[1]}))
    for name in ['Leaf', 'Hold', 'NoHold', 'Rec', 'ScI32']:
        if name not in u.by_name:
            continue
        for vc, vw in ((6, 2), (8, 4), (10, 8), (4, 8)):
            for kc, kb in ((11, b'\x00\x00\x00\x02ab'), (12, b'\x08\x00\x01\x00\x00\x00\x01\x00'), (15, b'\x03\x00\x00\x00\x01\x07')):
                for cnt in (1, 2):
                    body = b''.join(kb + bytes(range(1, vw + 1)) for _ in range(cnt))
                    fld = b'\x0d\x77\x77' + bytes([kc, vc]) + cnt.to_bytes(4, 'big') + body
                    full = b'\x08\x00\x01\x00\x00\x00\x05' + fld + b'\x00'
                    for cut in range(len(full) - vw - 2, len(full) + 1):
                        base.append(('(dec %s fresh %s)' % (name, hexs(full[:cut])), {'op': 'dec', 'type': name, 'class': 'skip-overrun'}))
    for name, hdr in [('LiI64', b'\x0f\x00\x01\x0a'), ('LiString', b'\x0f\x00\x01\x0b'), ('LiLeaf', b'\x0f\x00\x01\x0c'),
                      ('M1I32XString', b'\x0d\x00\x01\x08\x0b'), ('M1StringXPLeaf', b'\x0d\x00\x01\x0b\x0c'), ('ScString', b'\x0b\x00\x01'),
                      ('ScBinary', b'\x0b\x00\x01')]:
        if name in u.by_name:
            for cnt in (0x7fffffff, 0x00ffffff, 0x0000ffff, 1 << 20):
                for pad in (0, 64, 4096):
                    extra.append(('(decm %s %s)' % (name, (hdr + cnt.to_bytes(4, 'big') + b'\x00' * pad).hex()), {'op': 'decm-hostile', 'type': name}))
    return base + extra


_c03 = c03_cases
_c10 = c10_cases
_c14 = c14_cases
GENERATORS.update({'C03': lambda u, g, r, t: _c03(u, g, r, t) + desc_cases(u),
                   'C10': lambda u, g, r, t: _c10(u, g, r, t) + desc_cases(u),
                   'C14': lambda u, g, r, t: _c14(u, g, r, t) + desc_cases(u)})
GENERATORS.update({'C02': c02_all, 'C05': c05_all, 'C06': c06_sessions, 'C07': c07_sessions, 'C08': c08_sessions, 'C09': c09_all,
                   'C11': c11_all, 'C17': c17_sessions, 'C18': c18_cases})
