import sys, time, os
sys.path.insert(0, os.path.dirname(os.path.abspath(__file__)))
from lib import *
from universe import *
seed = int(os.environ.get('VERIF_SEED', '1'))
u, groups = build_universe(seed, 'quick')
t0 = time.time()
exe = build_harness(u, 'smoke')
rng = Rng(seed).fork('vals')
cases = []
vg = ValGen(u, rng, big=True)
n = 0
for s in u.structs:
    for j in range(4):
        v = vg.val(('struct', s.name))
        mode = 'ptr' if j % 2 == 0 else 'val'
        cases.append(('c%d' % n, '(rt %s %s %s)' % (s.name, mode, val_sx(v)))); n += 1
        cases.append(('c%d' % n, '(enc %s %s %s)' % (s.name, mode, val_sx(v)))); n += 1
log('cases', len(cases), 'gen %.1fs' % (time.time() - t0))
t0 = time.time()
obs = run_cases(exe, cases)
log('ran in %.1fs' % (time.time() - t0))
t0 = time.time()
res = run_judge(u.env_sx() + '\n' + u.gouniverse_sx(), cases, obs, os.path.join(CACHE, 'smoke'))
log('judged in %.1fs' % (time.time() - t0))
bad = {k: v for k, v in res.items() if v[0] != 'ok'}
print('total', len(cases), 'judged', len(res), 'bad', len(bad))
from collections import Counter
c = Counter()
cd = dict(cases)
for k, v in bad.items():
    c[(tuple(v[1]))] += 1
for k, n_ in c.most_common(): print(n_, k)
shown = Counter()
for k, v in sorted(bad.items(), key=lambda kv: len(cd[kv[0]])):
    if shown[tuple(v[1])] < 2:
        shown[tuple(v[1])] += 1
        print(k, v[1], cd[k][:300], '\n   ', v[2][:600])
for k, v in bad.items():
    if 'harness' in v[1]:
        o = obs.get(k, '')
        print('HARNESS', k, o[:200])
        import re
        for h in re.findall(r'\((?:harness-error|harness-panic) ([0-9a-f-]+)\)', o):
            print('   ', bytes.fromhex(h) if h != '-' else '')
        break
