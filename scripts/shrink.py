"""Greedy shrinking of a failing case inside the compiled type universe."""
import re
from gen import val_sx, val_of_sx, parse_sx


def shrinks(v):
    """values one local simplification away from v, larger reductions first"""
    k = v[0]
    if k == 's':
        if v[1] not in (0, 1):
            yield ('s', 0)
            yield ('s', 1)
    elif k == 'b':
        if v[1]:
            yield ('b', b'')
            if len(v[1]) > 1:
                yield ('b', v[1][:len(v[1]) // 2])
                yield ('b', v[1][:1])
    elif k == 'l':
        es = v[1]
        yield ('ln',)
        if es:
            yield ('l', [])
            if len(es) > 2:
                yield ('l', es[:len(es) // 2])
                yield ('l', es[len(es) // 2:])
            if len(es) <= 10:
                for i in range(len(es)):
                    yield ('l', es[:i] + es[i + 1:])
            for i in range(min(len(es), 6)):
                for s in shrinks(es[i]):
                    yield ('l', es[:i] + [s] + es[i + 1:])
    elif k == 'm':
        es = v[1]
        yield ('mn',)
        if es:
            yield ('m', [])
            if len(es) > 2:
                yield ('m', es[:len(es) // 2])
                yield ('m', es[len(es) // 2:])
            if len(es) <= 10:
                for i in range(len(es)):
                    yield ('m', es[:i] + es[i + 1:])
            for i in range(min(len(es), 4)):
                for s in shrinks(es[i][1]):
                    yield ('m', es[:i] + [(es[i][0], s)] + es[i + 1:])
                for s in shrinks(es[i][0]):
                    if s[0] != 'pn':
                        yield ('m', es[:i] + [(s, es[i][1])] + es[i + 1:])
    elif k == 'p':
        yield ('pn',)
        for s in shrinks(v[1]):
            yield ('p', s)
    elif k == 't':
        if v[1]:
            yield ('t', b'', v[2])
        for i in range(len(v[2])):
            for s in shrinks(v[2][i]):
                yield ('t', v[1], v[2][:i] + [s] + v[2][i + 1:])


VAL_OPS = {'enc': 3, 'rt': 3, 'encbuf': 3, 'allocs': 2}


def case_candidates(case_sx):
    """smaller variants of one case s-expression"""
    x = parse_sx(case_sx)
    op = x[0]
    out = []
    if op in VAL_OPS:
        pos = VAL_OPS[op]
        v = val_of_sx(x[pos])
        for s in shrinks(v):
            y = list(x)
            y[pos] = None
            parts = []
            for i, e in enumerate(y):
                parts.append(val_sx(s) if i == pos else (e if isinstance(e, str) else sx_str(e)))
            out.append('(' + ' '.join(parts) + ')')
    elif op in ('dec', 'mem', 'keep', 'hop', 'decm'):
        # drop trailing bytes; simplify the destination
        hexpos = len(x) - 1
        h = x[hexpos]
        if op == 'dec' and not isinstance(x[2], str):
            out.append('(dec %s fresh %s)' % (x[1], h))
            out.append('(dec %s zero %s)' % (x[1], h))
        if isinstance(h, str) and h != '-' and len(h) > 2:
            for cut in (len(h) // 2 // 2 * 2, len(h) - 2):
                if 0 < cut < len(h):
                    y = list(x)
                    y[hexpos] = h[:cut]
                    out.append('(' + ' '.join(e if isinstance(e, str) else sx_str(e) for e in y) + ')')
    return out


def sx_str(e):
    if isinstance(e, str):
        return e
    return '(' + ' '.join(sx_str(a) for a in e) + ')'


def shrink_case(case_sx, tags, run_batch, rounds=25, batch=150):
    """run_batch(list of case texts) -> list of tag lists (None when judged ok / invalid).
    Keeps a candidate when it still fails with at least one of the original tags."""
    want = set(tags)
    cur = case_sx
    cur_tags = tags
    for _ in range(rounds):
        cands = [c for c in case_candidates(cur) if len(c) < len(cur)][:batch]
        if not cands:
            break
        res = run_batch(cands)
        nxt = None
        for c, t in zip(cands, res):
            if t and (set(t) & want) and not (set(t) & {'gen-illtyped', 'harness', 'judge-exception', 'unjudged'}):
                nxt, cur_tags = c, t
                break
        if nxt is None:
            break
        cur = nxt
    return cur, cur_tags
