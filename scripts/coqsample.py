"""A sample of the run's cases evaluated INSIDE Coq (vm_compute) against the
implementation's observations: guards the extraction and the OCaml glue.  The
sample's struct definitions are printed as Coq terms (gostruct), the
environment is built by the Coq resolver, and each case becomes one boolean."""
import os
import re
import time
from gen import parse_sx, val_of_sx, Universe, Struct, annot
from lib import sh, CACHE, VERIF, log

COQ = os.path.join(VERIF, 'coq')


def nlist(bs):
    return '[' + '; '.join(str(b) for b in bs) + ']'


def coq_val(v):
    k = v[0]
    if k == 's':
        return '(VS %d)' % v[1]
    if k == 'b':
        return '(VB false %s)' % nlist(v[1])
    if k == 'bn':
        return '(VB true [])'
    if k == 'ln':
        return '(VL None)'
    if k == 'l':
        return '(VL (Some [%s]))' % '; '.join(coq_val(e) for e in v[1])
    if k == 'mn':
        return '(VM None)'
    if k == 'm':
        return '(VM (Some [%s]))' % '; '.join('(%s, %s)' % (coq_val(a), coq_val(b)) for a, b in v[1])
    if k == 'pn':
        return '(VP None)'
    if k == 'p':
        return '(VP (Some %s))' % coq_val(v[1])
    if k == 't':
        return '(VT [%s] %s)' % ('; '.join(coq_val(e) for e in v[2]), nlist(v[1]))
    raise ValueError(v)


def coq_gotype(x):
    if isinstance(x, str):
        return {'bool': 'GBool', 'int': 'GInt', 'int8': 'GInt8', 'int16': 'GInt16', 'int32': 'GInt32', 'float64': 'GFloat64',
                'string': 'GString', 'uint8': 'GUint8'}[x]
    h = x[0]
    if h == 'int64':
        return '(GInt64 %s)' % ('[]' if x[1] == '-' else nlist(x[1].encode()))
    if h == 'slice':
        return '(GSlice %s)' % coq_gotype(x[1])
    if h == 'map':
        return '(GMap %s %s)' % (coq_gotype(x[1]), coq_gotype(x[2]))
    if h == 'ptr':
        return '(GPtr %s)' % coq_gotype(x[1])
    if h == 'struct':
        return '(GStruct %s %s)' % (x[1], nlist(x[2].encode()))
    if h == 'unsup':
        return '(GUnsup %s)' % x[1]
    raise ValueError(x)


def simple_value(v):
    """no map with more than one entry anywhere (so that orders cannot differ)"""
    k = v[0]
    if k == 'm':
        return len(v[1]) <= 1 and all(simple_value(a) and simple_value(b) for a, b in v[1])
    if k == 'l':
        return all(simple_value(e) for e in v[1])
    if k == 'p':
        return simple_value(v[1])
    if k == 't':
        return all(simple_value(e) for e in v[2])
    return True


def closure(u, names):
    seen, order = set(), []

    def visit(n):
        if n in seen or n not in u.by_name:
            return
        seen.add(n)
        s = u.by_name[n]
        for f in s.fields:
            if f.ty is not None:
                for m in re.findall(r'[A-Za-z_][A-Za-z_0-9]*', annot(f.ty)):
                    visit(m)
        order.append(n)
    for n in names:
        visit(n)
    return order


def sub_universe(u, names):
    su = Universe()
    for n in closure(u, names):
        s = u.by_name[n]
        su.add(Struct(s.name, s.fields, s.holder, s.init, s.invalid))
    return su


def run(prop, u, cases, obs, limit=30):
    """returns (checked, ok, detail)"""
    picked = []
    for cid, sx in cases:
        if len(picked) >= limit:
            break
        if len(sx) > 500:
            continue
        o = obs.get(cid, '')
        try:
            x = parse_sx(sx)
            ox = parse_sx('(' + o + ')')
        except Exception:
            continue
        op = x[0]
        if op not in ('enc', 'rt', 'dec') or x[1] not in u.by_name or u.by_name[x[1]].invalid:
            continue
        if op in ('enc', 'rt'):
            v = val_of_sx(x[3])
            if not simple_value(v):
                continue
            if len(ox) < 2 or ox[0][0] != 'size' or ox[1][0] != 'ok':
                continue
            if op == 'rt' and (len(ox) < 3 or ox[2][0] != 'ok' or not simple_value(val_of_sx(ox[2][2]))):
                continue
        else:
            if not isinstance(x[2], str) or len(ox) < 1:
                continue
            if ox[0][0] == 'ok' and not simple_value(val_of_sx(ox[0][2])):
                continue
            if ox[0][0] not in ('ok', 'err'):
                continue
        picked.append((x, ox))
    if not picked:
        return 0, True, 'no eligible case'
    su = sub_universe(u, sorted(set(x[1] for x, _ in picked)))
    # gostruct terms
    gs_terms = []
    gux = parse_sx(su.gouniverse_sx())
    for g in gux[1:]:
        name, init, fields = g[1], g[2], g[3:]
        if init == 'noinit':
            it = 'None'
        else:
            it = '(Some [%s])' % '; '.join('(%s%%nat, %s)' % (a[0], coq_val(val_of_sx(a[1]))) for a in init[1:])
        fts = []
        for f in fields:
            tag = [] if f[3] == '-' else list(bytes.fromhex(f[3]))
            fts.append('mkGoField %s %s %s %s %s' % (nlist(f[1].encode()), coq_gotype(f[2]), nlist(tag),
                                                      'true' if f[4] == '1' else 'false', 'true' if f[5] == '1' else 'false'))
        gs_terms.append('mkGoStruct %s [%s] %s' % (nlist(name.encode()), ';\n    '.join(fts), it))
    checks = []
    for x, ox in picked:
        sid = su.by_name[x[1]].sid
        if x[0] in ('enc', 'rt'):
            v = coq_val(val_of_sx(x[3]))
            bs = nlist(bytes.fromhex(ox[1][2]) if ox[1][2] != '-' else b'')
            c = '(bytes_eqb (append_struct env %d %s) %s) && (encoded_size env %d %s =? %s)' % (sid, v, bs, sid, v, ox[0][1])
            if x[0] == 'rt':
                c += ' && match decode_object env [] %d %s (fresh env %d) with DOk (v, n) _ => val_eqb v %s && (n =? %s) | _ => false end' % (
                    sid, bs, sid, coq_val(val_of_sx(ox[2][2])), ox[2][1])
        else:
            bs = nlist(bytes.fromhex(x[3]) if x[3] != '-' else b'')
            dst = 'fresh env %d' % sid if x[2] == 'fresh' else 'zero_of env (TStruct %d)' % sid
            if ox[0][0] == 'ok':
                c = 'match decode_object env [] %d %s (%s) with DOk (v, n) _ => val_eqb v %s && (n =? %s) | _ => false end' % (
                    sid, bs, dst, coq_val(val_of_sx(ox[0][2])), ox[0][1])
            else:
                c = 'match decode_object env [] %d %s (%s) with DErr _ => true | _ => false end' % (sid, bs, dst)
        checks.append(c)
    d = os.path.join(CACHE, 'work', prop + '-coq')
    os.makedirs(d, exist_ok=True)
    src = ['From Coq Require Import List NArith Bool.',
           'From Frugal Require Import Bytes Wire Values Desc Spec Encode Decode Tags.',
           'Import ListNotations.', 'Open Scope N_scope.',
           'Definition gu : list gostruct := [', '  ' + ';\n  '.join(gs_terms), '].',
           'Definition env : senv := Eval vm_compute in build_env gu.',
           'Definition checks : list bool := [', '  ' + ';\n  '.join(checks), '].',
           'Definition verdict : list bool := Eval vm_compute in checks.', 'Print verdict.']
    path = os.path.join(d, 'Sample.v')
    with open(path, 'w') as fh:
        fh.write('\n'.join(src) + '\n')
    t0 = time.time()
    r = sh('timeout 600 coqc -Q %s Frugal %s' % (COQ, path), cwd=d, check=False, timeout=700)
    out = ' '.join(r.stdout.split())
    m = re.search(r'verdict = \[(.*?)\]', out)
    if r.returncode != 0 or not m:
        return len(picked), False, 'coqc failed: ' + out[-400:]
    vals = [x.strip() for x in m.group(1).split(';')]
    bad = [i for i, x in enumerate(vals) if x != 'true']
    log('[%s] in-Coq sample: %d cases over %d struct types, %d disagree, %.1fs' % (prop, len(picked), len(su.structs), len(bad), time.time() - t0))
    if bad:
        return len(picked), False, 'case %s evaluates differently in Coq: %s' % (bad[0], sx_of(picked[bad[0]][0]))
    return len(picked), True, ''


def run_env(prop, cases, obs, limit=200):
    """C17: the environments the children reported, evaluated by the model of parseOrDefault inside Coq
    (guards the extraction of EnvParse and the judge's glue).  returns (checked, ok, detail)"""
    seen, picked = set(), []
    for cid, sx in cases:
        if sx.strip() != '(env)':
            continue
        m = re.match(r'\(ok ([0-9a-f]*|-)\)$', obs.get(cid, '').strip())
        if not m:
            continue
        raw = bytes.fromhex(m.group(1)) if m.group(1) != '-' else b''
        if raw in seen or b'|' not in raw:
            continue
        seen.add(raw)
        picked.append(raw.split(b'|', 1))
        if len(picked) >= limit:
            break
    if not picked:
        return 0, True, 'no environment observed'
    d = os.path.join(CACHE, 'work', prop + '-coq')
    os.makedirs(d, exist_ok=True)
    src = ['From Coq Require Import List NArith Bool.', 'From Frugal Require Import EnvParse.',
           'Import ListNotations.', 'Open Scope N_scope.',
           'Definition checks : list bool := [', '  ' + ';\n  '.join('env_alive %s %s' % (nlist(a), nlist(b)) for a, b in picked), '].',
           'Definition verdict : list bool := Eval vm_compute in checks.', 'Print verdict.']
    path = os.path.join(d, 'SampleEnv.v')
    with open(path, 'w') as fh:
        fh.write('\n'.join(src) + '\n')
    r = sh('timeout 300 coqc -Q %s Frugal %s' % (COQ, path), cwd=d, check=False, timeout=400)
    out = ' '.join(r.stdout.split())
    m = re.search(r'verdict = \[(.*?)\]', out)
    if r.returncode != 0 or not m:
        return len(picked), False, 'coqc failed: ' + out[-400:]
    vals = [x.strip() for x in m.group(1).split(';')]
    bad = [i for i, x in enumerate(vals) if x != 'true']
    log('[%s] in-Coq environments: %d distinct, %d rejected by the model' % (prop, len(picked), len(bad)))
    if bad:
        return len(picked), False, 'environment %r is rejected by parse_or_default evaluated in Coq although the process lived' % (b'|'.join(picked[bad[0]]),)
    return len(picked), True, ''


def sx_of(e):
    if isinstance(e, str):
        return e
    return '(' + ' '.join(sx_of(a) for a in e) + ')'
