"""Checks whose cases are not independent single calls (histories, schedules,
environments, memory regions, allocation counts)."""
CHECKS = {}
