#!/bin/sh
# Build the framework from files on disk only (offline): translator, Coq
# development (full .vo build), extraction, OCaml judge, warm Go build cache.
set -e
cd "$(dirname "$0")/.."
export GOFLAGS=-mod=mod GOPROXY=off GOSUMDB=off GOTOOLCHAIN=local
mkdir -p .cache evidence replays
# forbidden vernacular anywhere in the development
if grep -rnE '\b(Admitted|admit|Axiom|Parameter|Conjecture|Unset Guard Checking|bypass_check|Admit Obligations)\b' coq --include='*.v' ; then
  echo "setup: forbidden vernacular found" >&2; exit 1
fi
python3 - <<'PY'
import sys, os
sys.path.insert(0, 'scripts')
import run_check
ok, log = run_check.build_model()
if not ok:
    print(log[-6000:])
    sys.exit(1)
from universe import build_universe
from lib import build_harness
u, g = build_universe(1, 'quick')
build_harness(u, 'setup')
PY
echo "setup: ok"
