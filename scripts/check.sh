#!/bin/sh
# scripts/check.sh <Cnn> <quick|thorough>   |   scripts/check.sh --replay <file>
cd "$(dirname "$0")/.."
export GOFLAGS=-mod=mod GOPROXY=off GOSUMDB=off GOTOOLCHAIN=local
exec python3 scripts/run_check.py "$@"
