"""The type universe of a run: fixed corpora that enumerate the finite shape
axes completely, plus randomly generated struct types."""
from gen import *

KEY_KINDS = [('bool',), ('i8',), ('i16',), ('i32',), ('i64',), ('double',), enum_t(), ('string',)]
ELEM_SCALARS = [('bool',), ('i8',), ('i16',), ('i32',), ('i64',), ('double',), enum_t()]


def kname(t):
    k = t[0]
    if k == 'ptr':
        return 'P' + kname(t[1])
    if k == 'struct':
        return t[1]
    if k in ('list', 'set'):
        return k.capitalize() + kname(t[1])
    if k == 'map':
        return 'Map' + kname(t[1]) + kname(t[2])
    return k.capitalize()


def fixed_corpus(u):
    """returns {group name: [struct names]}"""
    groups = {}

    def add(group, s):
        u.add(s)
        groups.setdefault(group, []).append(s.name)
        return s

    # leaf structs used as elements
    leaf = add('leaf', Struct('Leaf', [Field(1, ('i32',)), Field(2, ('string',), 'optional')]))
    add('leaf', Struct('LeafReq', [Field(1, ('i64',), 'required'), Field(3, ('binary',))]))
    add('leaf', Struct('LeafOpt', [Field(1, ('ptr', ('i32',)), 'optional'), Field(2, ('ptr', ('string',)), 'optional'),
                                  Field(3, ('double',), 'optional')]))
    add('leaf', Struct('Empty', []))
    PL = ('ptr', ('struct', 'Leaf'))
    VL_ = ('struct', 'Leaf')
    VO = ('struct', 'LeafOpt')

    # scalars x requiredness x pointer-ness
    for t in ELEM_SCALARS + [('string',), ('binary',)]:
        n = kname(t)
        add('scalars', Struct('Sc' + n, [Field(1, t, 'default'), Field(2, t, 'required'), Field(3, t, 'optional'),
                                         Field(4, ('ptr', t), 'optional')]))

    # lists and sets of every element form
    elems = ELEM_SCALARS + [('string',), ('binary',), PL, VL_, VO, ('ptr', ('struct', 'Empty')), ('struct', 'Empty'), ('list', ('i32',)), ('set', ('string',)),
                            ('map', ('i32',), ('string',)), ('list', PL), ('map', ('string',), PL)]
    for e in elems:
        n = kname(e)
        add('lists', Struct('Li' + n, [Field(1, ('list', e)), Field(2, ('set', e), 'optional'), Field(3, ('list', e), 'required')]))

    # maps: every key kind x every value form
    keys = KEY_KINDS + [PL]
    vals = ELEM_SCALARS + [('string',), ('binary',), PL, VL_, ('list', ('i32',)), ('set', ('i64',)), ('map', ('i16',), ('string',))]
    for k in keys:
        fs = []
        for i, v in enumerate(vals):
            fs.append(Field(i + 1, ('map', k, v), ['default', 'optional', 'required'][i % 3]))
        add('maps', Struct('Mp' + kname(k), fs))
    # one map per struct as well (single-field types make shrunk replays small)
    for k in keys:
        for v in vals:
            add('maps1', Struct('M1' + kname(k) + 'X' + kname(v), [Field(1, ('map', k, v))]))

    # struct fields: pointer / by value, each requiredness, recursion
    add('structs', Struct('StPtr', [Field(1, PL), Field(2, PL, 'required'), Field(3, PL, 'optional')]))
    add('structs', Struct('StVal', [Field(1, VL_), Field(2, VL_, 'required'), Field(3, VO, 'optional'), Field(4, ('i32',))]))
    add('structs', Struct('Rec', [Field(1, ('i32',)), Field(2, ('ptr', ('struct', 'Rec')), 'optional'),
                                  Field(3, ('list', ('ptr', ('struct', 'Rec')))),
                                  Field(4, ('map', ('string',), ('ptr', ('struct', 'Rec'))), 'optional')]))
    add('structs', Struct('MutA', [Field(1, ('ptr', ('struct', 'MutB')), 'optional'), Field(2, ('string',))]))
    add('structs', Struct('MutB', [Field(1, ('list', ('ptr', ('struct', 'MutA')))), Field(2, ('i64',), 'required')]))
    # recursion through containers of by-value structs
    add('structs', Struct('RecV', [Field(1, ('i32',)), Field(2, ('ptr', ('struct', 'RecV')), 'optional'),
                                   Field(3, ('list', ('struct', 'RecV'))),
                                   Field(4, ('map', ('string',), ('struct', 'RecV')), 'optional'),
                                   Field(5, ('list', ('list', ('struct', 'RecV'))), 'optional')]))
    add('structs', Struct('RecKey', [Field(1, ('map', ('ptr', ('struct', 'RecKey')), ('i32',)), 'optional'), Field(2, ('i8',))]))

    # field ids on both sides of every boundary
    ids = [0, 1, 63, 64, 65, 127, 128, 255, 256, 32767, 32768, 65534, 65535]
    add('ids', Struct('Ids', [Field(i, ('i32',), 'required' if j % 2 == 0 else 'default') for j, i in enumerate(ids)]))
    add('ids', Struct('IdsReq', [Field(i, ('i16',), 'required') for i in [63, 64, 127, 128, 1023, 1024, 65535]]))
    add('ids', Struct('IdMax', [Field(65535, ('string',), 'required')]))
    add('ids', Struct('IdZero', [Field(0, ('i64',), 'required')]))
    # a zero-size field shares its offset with the required field after it
    add('ids', Struct('ZeroNbr', [Field(1, ('struct', 'Empty')), Field(2, ('i32',), 'required'), Field(3, ('struct', 'Empty')), Field(4, ('string',), 'required')]))
    # ... also when the required field is itself of zero size (same offset AND same size as its neighbours)
    add('ids', Struct('ZeroNbr2', [Field(0, ('i32',), go_text='[0]func()', model_text='(unsup 17)', name='mark', exported=False, ignored=True),
                                   Field(3, ('struct', 'Empty'), 'required'),
                                   Field(0, ('i32',), go_text='struct{}', model_text='(unsup 25)', name='Pad', ignored=True),
                                   Field(5, ('struct', 'Empty'), 'required'), Field(6, ('struct', 'Empty')), Field(7, ('i32',))]))

    # defaults
    add('defaults', Struct('Def', [
        Field(1, ('bool',), 'optional'), Field(2, ('i8',), 'optional'), Field(3, ('i16',), 'optional'),
        Field(4, ('i32',), 'optional'), Field(5, ('i64',), 'optional'), Field(6, ('double',), 'optional'),
        Field(7, enum_t(), 'optional'), Field(8, ('string',), 'optional'), Field(9, ('binary',), 'optional'),
        Field(10, ('i32',), 'default'), Field(11, ('string',), 'required'), Field(12, ('double',), 'optional'),
        Field(13, ('double',), 'optional'), Field(14, ('string',), 'optional'), Field(15, ('list', ('i32',)), 'optional'),
        Field(16, ('ptr', ('i32',)), 'optional'),
    ], init={'F1': ('s', 1), 'F2': ('s', 7), 'F3': ('s', 0xfffe), 'F4': ('s', 100), 'F5': ('s', MASK64), 'F6': ('s', f64bits(2.5)),
             'F7': ('s', 3), 'F8': ('b', b'dflt'), 'F9': ('b', b'bin'), 'F10': ('s', 9), 'F11': ('b', b'req'),
             'F12': ('s', 0), 'F13': ('s', 0x7ff8000000000001), 'F15': ('l', [('s', 1), ('s', 2)])}))
    add('defaults', Struct('DefHolder', [Field(1, ('ptr', ('struct', 'Def')), 'optional'), Field(2, ('list', ('ptr', ('struct', 'Def')))),
                                         Field(3, ('map', ('i32',), ('ptr', ('struct', 'Def')))), Field(4, ('struct', 'Def')),
                                         Field(5, ('list', ('struct', 'Def')), 'optional'),
                                         Field(6, ('map', ('string',), ('struct', 'Def')), 'optional')]))
    add('defaults', Struct('DefZero', [Field(1, ('i32',), 'optional'), Field(2, ('string',), 'optional'), Field(3, ('binary',), 'optional')],
                           init={}))

    # unknown-field holders
    add('holder', Struct('Hold', [Field(1, ('i32',)), Field(5, ('string',), 'optional')], holder=True))
    add('holder', Struct('HoldNest', [Field(1, ('ptr', ('struct', 'Hold')), 'optional'), Field(2, ('list', ('ptr', ('struct', 'Hold')))),
                                      Field(3, ('map', ('i32',), ('ptr', ('struct', 'Hold')))), Field(4, ('struct', 'Hold'))], holder=True))
    add('holder', Struct('NoHold', [Field(1, ('i32',)), Field(5, ('string',), 'optional')]))

    # nocopy
    add('nocopy', Struct('NoCopy', [Field(1, ('string',), nocopy=True), Field(2, ('binary',), nocopy=True),
                                    Field(3, ('string',)), Field(4, ('binary',), 'optional'),
                                    Field(5, ('ptr', ('string',)), 'optional', nocopy=True),
                                    Field(6, ('ptr', ('binary',)), 'optional', nocopy=True),
                                    Field(7, ('ptr', ('binary',)), 'optional')]))
    spellings(u, add)
    invalid_defs(u, add)
    poison_defs(u, add)
    add('nocopy', Struct('NoCopyNest', [Field(1, ('ptr', ('struct', 'NoCopy')), 'optional'), Field(2, ('list', ('ptr', ('struct', 'NoCopy'))))]))
    # nocopy fields with InitDefault values: a field the message omits keeps its default and views nothing
    add('nocopy', Struct('NoCopyDef', [Field(1, ('string',), 'optional', nocopy=True), Field(2, ('binary',), 'optional', nocopy=True),
                                       Field(3, ('i32',), 'optional')],
                         init={'F1': ('b', b'dflt-s'), 'F2': ('b', b'dflt-b'), 'F3': ('s', 4)}))
    # the option after an empty type descriptor ("id,req,,nocopy") counts as well
    add('nocopy', Struct('NoCopyTypeless', [Field(1, ('string',), nocopy=True, tag='frugal:"1,default,,nocopy"'),
                                            Field(2, ('binary',), 'optional', nocopy=True, tag='frugal:"2,optional,,nocopy"'),
                                            Field(3, ('ptr', ('string',)), 'optional', nocopy=True, tag='frugal:"3,optional,,nocopy"'),
                                            Field(4, ('string',), tag='frugal:"4,default,"')]))
    add('nocopy', Struct('NoCopyDefNest', [Field(1, ('struct', 'NoCopyDef')), Field(2, ('ptr', ('struct', 'NoCopyDef')), 'optional')]))
    return groups


def spellings(u, add):
    """equivalent spellings of one schema (C12): every variant must resolve to the schema of its base"""
    L = ('struct', 'Leaf')
    PL = ('ptr', L)
    base = [
        (1, ('i32',), 'default'), (2, ('string',), 'required'), (3, ('i8',), 'optional'), (4, enum_t(), 'default'),
        (5, ('list', ('i32',)), 'default'), (6, ('map', ('string',), ('list', PL)), 'optional'),
        (7, PL, 'optional'), (8, ('binary',), 'default'), (9, ('set', ('i64',)), 'default'), (10, L, 'default'),
        (11, ('double',), 'default'), (12, ('bool',), 'default'), (13, ('i16',), 'required'), (14, ('i64',), 'default'),
        (15, ('map', enum_t(), ('set', ('string',))), 'default'),
    ]

    def mk(name, tagf, extra=None):
        fs = [Field(fid, t, req, tag=tagf(fid, t, req)) for (fid, t, req) in base]
        add('spell', Struct(name, fs + (extra or [])))

    can = lambda fid, t, req: 'frugal:"%d,%s,%s"' % (fid, req, annot(t))
    mk('SpBase', can)
    # thrift carrier: field-name text is arbitrary; the annotation in fourth position
    mk('SpThrift', lambda fid, t, req: 'thrift:"some_name%d,%d,%s,%s"' % (fid, fid, req, annot(t)))
    mk('SpThriftEmptyName', lambda fid, t, req: 'thrift:",%d,%s,%s"' % (fid, req, annot(t)))
    # both present: frugal wins, the thrift one says something else
    mk('SpBoth', lambda fid, t, req: 'thrift:"x,%d,required" frugal:"%d,%s,%s"' % (fid + 100, fid, req, annot(t)))
    mk('SpBothOrder', lambda fid, t, req: 'frugal:"%d,%s,%s" json:"f%d,omitempty" thrift:"x,%d"' % (fid, req, annot(t), fid, fid + 50))
    # spaces around every element
    def spaced(fid, t, req):
        a = annot(t)
        for ch in '<>:':
            a = a.replace(ch, ' ' + ch + ' ')
        return 'frugal:" %d ,  %s , %s  "' % (fid, req, a)
    mk('SpSpaces', spaced)
    mk('SpTabs', lambda fid, t, req: 'frugal:"%d,\t%s\t,%s"' % (fid, req, annot(t).replace('<', '<\t')))
    # byte for i8; package-qualified names for structs and enums
    def alt(fid, t, req):
        a = annot(t).replace('i8', 'byte').replace('Leaf', 'main.Leaf').replace(ENUM_NAME, 'pkg.' + ENUM_NAME)
        return 'frugal:"%d,%s,%s"' % (fid, req, a)
    mk('SpAltNames', alt)
    # leading zeros in the id
    mk('SpZeros', lambda fid, t, req: 'frugal:"%03d,%s,%s"' % (fid, req, annot(t)))
    # omitted requiredness / annotation where the Go type determines them
    simple = [(1, ('i32',)), (2, ('string',)), (3, ('i8',)), (4, ('binary',)), (5, ('double',)), (6, ('bool',)), (7, ('i16',)),
              (8, ('i64',)), (9, ('ptr', ('struct', 'Leaf'))), (10, ('struct', 'Leaf')), (11, ('map', ('string',), ('i32',)))]
    add('spell', Struct('SpDetBase', [Field(fid, t, 'default') for fid, t in simple]))
    add('spell', Struct('SpDetIdOnly', [Field(fid, t, 'default', tag='frugal:"%d"' % fid) for fid, t in simple]))
    add('spell', Struct('SpDetNoAnnot', [Field(fid, t, 'default', tag='frugal:"%d,default"' % fid) for fid, t in simple]))
    add('spell', Struct('SpDetThrift', [Field(fid, t, 'default', tag='thrift:"n,%d"' % fid) for fid, t in simple]))
    add('spell', Struct('SpDetThriftReq', [Field(fid, t, 'required', tag='thrift:"n,%d,required"' % fid) for fid, t in simple]))
    add('spell', Struct('SpDetReqBase', [Field(fid, t, 'required') for fid, t in simple]))
    # a named int64 without naming it in the annotation is a plain i64, not an enum
    add('spell', Struct('SpEnumAsI64', [Field(1, ('i64',), go_text=ENUM_NAME, model_text='(int64 %s)' % ENUM_NAME, tag='frugal:"1,default,i64"'),
                                        Field(2, ('i64',), go_text=ENUM_NAME, model_text='(int64 %s)' % ENUM_NAME, tag='frugal:"2,default"'),
                                        Field(3, enum_t())]))
    # same Go type, different Thrift meaning
    add('spell', Struct('SpSetList', [Field(1, ('list', ('i32',))), Field(2, ('set', ('i32',))),
                                      Field(3, ('map', ('i32',), ('set', ('i32',)))), Field(4, ('map', ('i32',), ('list', ('i32',))))]))
    # ignored fields: untagged, unexported, embedded
    ign = [Field(0, ('i32',), name='Untagged', ignored=True),
           Field(0, ('i32',), name='hidden', exported=False, ignored=True, tag='frugal:"40,default,i32"'),
           Field(0, ('struct', 'Leaf'), name='Leaf', anonymous=True, ignored=True, tag='frugal:"41,default,Leaf"'),
           Field(0, ('string',), name='JSONOnly', ignored=True, tag='json:"x"')]
    mk('SpIgnored', can, extra=ign)
    # ids with leading zeros; float64 and pointer-to-struct map keys; pointer to binary
    add('spell', Struct('SpLeadZero', [Field(7, ('i32',), tag='frugal:"007,default,i32"'),
                                       Field(8, ('string',), 'optional', tag='thrift:"nm,0008,optional"'),
                                       Field(9, ('map', ('double',), ('i32',))),
                                       Field(10, ('ptr', ('binary',)), 'optional')]))
    # a named type of kind int is an enum as well when the annotation names it
    EI = ('enum', 'EnumI')
    add('spell', Struct('SpIntEnum', [Field(1, EI), Field(2, ('list', EI)), Field(3, ('map', EI, ('i32',)), 'optional'),
                                      Field(4, ('ptr', EI), 'optional'),
                                      Field(5, ('i64',), go_text='EnumI', model_text='(int64 EnumI)', tag='frugal:"5,default,i64"'),
                                      Field(6, ('map', ('string',), ('set', EI)))]))
    # an ignored field may have any Go type
    add('spell', Struct('SpIgnoredUnsup', [Field(1, ('i32',)),
                                           Field(0, ('i32',), go_text='uint32', model_text='(unsup 5)', name='Count', ignored=True),
                                           Field(0, ('i32',), go_text='chan int', model_text='(unsup 18)', name='hiddenCh', exported=False, ignored=True,
                                                 tag='frugal:"3,default,i32"')]))


def invalid_defs(u, add):
    """definitions outside the supported language (C13): each must be rejected"""
    n = [0]

    def bad(fields, group='invalid'):
        n[0] += 1
        add(group, Struct('Bad%d' % n[0], fields, invalid=True))

    def one(go_text, model_text, tag):
        bad([Field(1, None, go_text=go_text, model_text=model_text, tag=tag), Field(2, ('i32',))])

    # Go kinds Thrift cannot express, at field / element / key / value position
    unsup = [('uint', 2), ('uint8', 3), ('uint16', 4), ('uint32', 5), ('uint64', 6), ('float32', 7), ('[4]int32', 8),
             ('chan int', 9), ('func()', 10), ('interface{}', 11), ('complex128', 12), ('uintptr', 13)]
    for gt, k in unsup:
        mt = 'uint8' if gt == 'uint8' else '(unsup %d)' % k
        one(gt, mt, 'frugal:"1,default"')
        one(gt, mt, 'frugal:"1,default,i32"')
        if gt not in ('uint8',):
            one('[]' + gt, '(slice %s)' % mt, 'frugal:"1,default,list<i32>"')
        one('map[string]' + gt, '(map string %s)' % mt, 'frugal:"1,default,map<string:i32>"')
        if gt not in ('func()', '[4]int32') and not gt.startswith('chan'):
            pass
    for gt, k in [('uint32', 5), ('float32', 7), ('uintptr', 13)]:
        one('map[%s]string' % gt, '(map (unsup %d) string)' % k, 'frugal:"1,default,map<i32:string>"')
    # slice without list/set
    one('[]int32', '(slice int32)', 'frugal:"1,default"')
    one('[]int32', '(slice int32)', 'frugal:"1"')
    one('[]int32', '(slice int32)', 'thrift:"x,1"')
    one('[][]int32', '(slice (slice int32))', 'frugal:"1,default,list<>"')
    one('map[string][]int32', '(map string (slice int32))', 'frugal:"1,default"')
    # annotation contradicting the Go type
    for gt, mt, an in [('int32', 'int32', 'i64'), ('int64', '(int64 -)', 'i32'), ('string', 'string', 'binary'), ('[]byte', '(slice uint8)', 'string'),
                       ('map[string]int32', '(map string int32)', 'list<i32>'), ('[]int32', '(slice int32)', 'map<i32:i32>'),
                       ('Leaf', '(struct %d Leaf)' % u.by_name['Leaf'].sid, 'LeafReq'), ('*Leaf', '(ptr (struct %d Leaf))' % u.by_name['Leaf'].sid, 'Leaff'),
                       ('float64', 'float64', 'i64'), ('bool', 'bool', 'i8'), ('int8', 'int8', 'bool'), ('[]int32', '(slice int32)', 'list<i64>'),
                       ('map[string]int32', '(map string int32)', 'map<i32:i32>'), ('map[string]int32', '(map string int32)', 'map<string:i64>'),
                       ('int16', 'int16', 'i'), ('int16', 'int16', '16'), ('int8', 'int8', 'yte'), ('map[string]int32', '(map string int32)', 'ma<string:i32>'),
                       ('%s' % ENUM_NAME, '(int64 %s)' % ENUM_NAME, 'Enum1'), ('string', 'string', 'str')]:
        one(gt, mt, 'frugal:"1,default,%s"' % an)
    # syntactically broken annotations
    for gt, mt, an in [('[]int32', '(slice int32)', 'list<i32'), ('[]int32', '(slice int32)', 'list<i32>>'), ('[]int32', '(slice int32)', 'list i32>'),
                       ('[]int32', '(slice int32)', 'lis<i32>'), ('[]int32', '(slice int32)', 'list<>'), ('[]int32', '(slice int32)', 'list<i32> x'),
                       ('map[string]int32', '(map string int32)', 'map<string;i32>'), ('map[string]int32', '(map string int32)', 'map<string:>'),
                       ('map[string]int32', '(map string int32)', 'map<string:i32'), ('map[string]int32', '(map string int32)', 'map<string i32>'),
                       ('map[string]int32', '(map string int32)', 'map string:i32>'), ('int64', '(int64 -)', 'i64>>garbage'), ('int32', 'int32', 'i32 i32'),
                       ('Leaf', '(struct %d Leaf)' % u.by_name['Leaf'].sid, 'pkg.'), ('Leaf', '(struct %d Leaf)' % u.by_name['Leaf'].sid, 'pkg.9'),
                       ('Leaf', '(struct %d Leaf)' % u.by_name['Leaf'].sid, 'pkg Leaf'), ('[]int32', '(slice int32)', '<i32>')]:
        one(gt, mt, 'frugal:"1,default,%s"' % an)
    one('map[string]int32', '(map string int32)', 'frugal:"1,default,map<string,i32>"')
    # a package-qualified name on a type that has no name
    one('[]byte', '(slice uint8)', 'frugal:"1,default,base.Text"')
    one('map[string]int32', '(map string int32)', 'frugal:"1,default,base.Dict<string:i32>"')
    one('[][]byte', '(slice (slice uint8))', 'frugal:"1,default,list<base.Item>"')
    one('[]int32', '(slice int32)', 'frugal:"1,default,pkg.list<i32>"')
    one('int32', 'int32', 'frugal:"1,default,pkg.i32"')
    lsid = u.by_name['Leaf'].sid
    # invalid map keys; non-struct pointers where only values are allowed
    one('map[Leaf]int32', '(map (struct %d Leaf) int32)' % lsid, 'frugal:"1,default,map<Leaf:i32>"')
    one('map[*int32]int32', '(map (ptr int32) int32)', 'frugal:"1,default,map<i32:i32>"')
    one('map[*string]int32', '(map (ptr string) int32)', 'frugal:"1,default,map<string:i32>"')
    one('[]*int32', '(slice (ptr int32))', 'frugal:"1,default,list<i32>"')
    one('[]*string', '(slice (ptr string))', 'frugal:"1,default,set<string>"')
    one('map[string]*int32', '(map string (ptr int32))', 'frugal:"1,default,map<string:i32>"')
    one('map[string]*[]byte', '(map string (ptr (slice uint8)))', 'frugal:"1,default,map<string:binary>"')
    # ... also when the tag carries no type annotation
    one('map[string]*int32', '(map string (ptr int32))', 'frugal:"1,default"')
    one('map[string]*int32', '(map string (ptr int32))', 'thrift:"m,1"')
    one('map[string]*string', '(map string (ptr string))', 'frugal:"1"')
    one('map[int32]map[string]*int64', '(map int32 (map string (ptr (int64 -))))', 'frugal:"1,optional"')
    one('map[*int32]int32', '(map (ptr int32) int32)', 'frugal:"1,default"')
    one('*int32', '(ptr int32)', 'frugal:"1,default,i32"')
    one('*int32', '(ptr int32)', 'frugal:"1,required,i32"')
    one('*string', '(ptr string)', 'frugal:"1"')
    # pointers to pointers or to containers
    one('**Leaf', '(ptr (ptr (struct %d Leaf)))' % lsid, 'frugal:"1,optional,Leaf"')
    one('**int32', '(ptr (ptr int32))', 'frugal:"1,optional,i32"')
    one('*[]int32', '(ptr (slice int32))', 'frugal:"1,optional,list<i32>"')
    one('*map[string]int32', '(ptr (map string int32))', 'frugal:"1,optional,map<string:i32>"')
    one('*[]int32', '(ptr (slice int32))', 'frugal:"1,optional,set<i32>"')
    one('*[]string', '(ptr (slice string))', 'frugal:"1,optional,set<string>"')
    one('*[]*Leaf', '(ptr (slice (ptr (struct %d Leaf))))' % lsid, 'frugal:"1,optional,set<Leaf>"')
    one('*[][]int32', '(ptr (slice (slice int32)))', 'frugal:"1,optional,list<set<i32>>"')
    one('[]**Leaf', '(slice (ptr (ptr (struct %d Leaf))))' % lsid, 'frugal:"1,optional,list<Leaf>"')
    one('map[string]*[]int32', '(map string (ptr (slice int32)))', 'frugal:"1,default,map<string:list<i32>>"')
    # ids
    bad([Field(1, ('i32',)), Field(2, ('i32',), tag='frugal:"1,default,i32"', name='Dup')])
    bad([Field(7, ('i32',), tag='frugal:"7,default,i32"'), Field(8, ('string',), tag='thrift:"n,7"', name='Dup')])
    for idt in ['x1', '', '65536', '-1', '+1', '1.0', '0x10', '1_0', ' ', '99999999999999999999']:
        one('int32', 'int32', 'frugal:"%s,default,i32"' % idt)
    one('int32', 'int32', 'thrift:"onlyname"')
    # requiredness, options
    for rq in ['mandatory', 'Required', 'opt', '', 'i32']:
        one('int32', 'int32', 'frugal:"1,%s,i32"' % rq)
    for opts in ['zerocopy', 'nocopy,nocopy', 'NoCopy', '', 'nocopy,x']:
        one('string', 'string', 'frugal:"1,default,string,%s"' % opts)
    one('int32', 'int32', 'frugal:"1,default,i32,nocopy"')
    one('[]int32', '(slice int32)', 'frugal:"1,default,list<i32>,nocopy"')
    one('*Leaf', '(ptr (struct %d Leaf))' % lsid, 'frugal:"1,optional,Leaf,nocopy"')
    # valid definitions that reach an invalid one (registration prefetches nested structs)
    b = u.by_name['Bad1']
    for gt, mt, an in [('*Bad1', '(ptr (struct %d Bad1))' % b.sid, 'Bad1'), ('[]*Bad1', '(slice (ptr (struct %d Bad1)))' % b.sid, 'list<Bad1>'),
                       ('map[string]*Bad1', '(map string (ptr (struct %d Bad1)))' % b.sid, 'map<string:Bad1>'),
                       ('map[*Bad1]int32', '(map (ptr (struct %d Bad1)) int32)' % b.sid, 'map<Bad1:i32>'), ('Bad1', '(struct %d Bad1)' % b.sid, 'Bad1')]:
        bad([Field(1, None, go_text=gt, model_text=mt, tag='frugal:"1,optional,%s"' % an), Field(2, ('i32',))], group='invalid-nested')


def poison_defs(u, add):
    """mutually nested definitions that reach an invalid one: registration of any of them
    must fail, whatever was registered (or failed to register) before (C07 / C13)"""
    def bad(name, fields):
        add('poison', Struct(name, fields, invalid=True))
    # declared in an order that lets every Go type refer to the others: Go allows forward references
    cb = Struct('PCBad', [Field(1, None, go_text='uint32', model_text='(unsup 5)', tag='frugal:"1,default,i32"')], invalid=True)
    add('poison', cb)
    names = ['PA', 'PB', 'PQ', 'PX', 'PY', 'PZ']
    # sids are assigned in order of addition: reserve them first
    base = len(u.structs)
    sid = {n: base + i for i, n in enumerate(names)}
    sid['PCBad'] = cb.sid
    def P(n):
        return dict(go_text='*' + n, model_text='(ptr (struct %d %s))' % (sid[n], n), tag_an=n)
    def fld(fid, n, req='optional'):
        p = P(n)
        return Field(fid, None, go_text=p['go_text'], model_text=p['model_text'], tag='frugal:"%d,%s,%s"' % (fid, req, n))
    bad('PA', [fld(1, 'PB')])
    bad('PB', [fld(1, 'PA'), fld(2, 'PCBad')])
    bad('PQ', [fld(1, 'PA'), Field(2, ('i32',))])
    bad('PX', [fld(1, 'PY'), fld(2, 'PCBad')])
    bad('PY', [fld(1, 'PX')])
    # valid types next to an invalid one: a failed registration of POuter must not leave PInner behind
    add('poison-valid', Struct('PLeafV', [Field(1, ('i32',))]))
    add('poison-valid', Struct('PInner', [Field(1, ('ptr', ('struct', 'PLeafV')), 'optional'), Field(2, ('i32',))]))
    add('poison-valid', Struct('POther', [Field(1, ('ptr', ('struct', 'PInner')), 'optional')]))
    pin = u.by_name['PInner']
    bad('POuter', [Field(1, None, go_text='*PInner', model_text='(ptr (struct %d PInner))' % pin.sid, tag='frugal:"1,optional,PInner"'),
                   fld(2, 'PCBad')])
    bad('PZ', [Field(1, None, go_text='[]*PY', model_text='(slice (ptr (struct %d PY)))' % sid['PY'], tag='frugal:"1,default,list<PY>"')])


def zero_size(u, name, seen=None):
    """the Go struct occupies no memory: every field is a by-value zero-size struct (then all
    pointers to it are equal, and it cannot serve as a distinct map key)"""
    seen = seen or set()
    if name in seen:
        return False
    s = u.by_name[name]
    if s.holder:
        return False
    for f in s.fields:
        if f.go_text is not None:
            # fields with an explicit Go type (ignored fields, types outside the schema language)
            if f.go_text.replace(' ', '') in ('struct{}', '[0]byte', '[0]int'):
                continue
            return False
        if f.ty is None:
            return False
        if f.ty[0] != 'struct' or not zero_size(u, f.ty[1], seen | {name}):
            return False
    return True


def rand_type(rng, u, names, depth, pos):
    """pos: 'field' | 'elem' | 'key'"""
    if pos == 'key':
        r = rng.below(10)
        if r < 8:
            return rng.pick(KEY_KINDS)
        kn = [n for n in names if not zero_size(u, n)]   # pointers to zero-size structs are all equal: not usable as distinct keys
        return ('ptr', ('struct', rng.pick(kn))) if kn else ('i32',)
    r = rng.below(100)
    if r < 35 or depth <= 0:
        return rng.pick(ELEM_SCALARS + [('string',), ('binary',)])
    if r < 50:
        return (rng.pick(['list', 'set']), rand_type(rng, u, names, depth - 1, 'elem'))
    if r < 65:
        return ('map', rand_type(rng, u, names, depth - 1, 'key'), rand_type(rng, u, names, depth - 1, 'elem'))
    if r < 90 and names:
        return ('ptr', ('struct', rng.pick(names)))
    if names:
        return ('struct', rng.pick(names))
    return ('i32',)


def random_structs(u, rng, count, prefix='R'):
    names = ['Leaf', 'LeafReq', 'LeafOpt', 'Empty', 'Hold', 'Def']
    out = []
    for i in range(count):
        name = '%s%d' % (prefix, i)
        nf = rng.below(9)
        wide = rng.chance(1, 25)
        if wide:
            nf = rng.pick([63, 64, 65, 66, 130])     # more fields than one presence word / one index block
        ids = set()
        fields = []
        for _ in range(nf):
            fid = rng.pick([rng.below(16), rng.below(300), rng.below(65536)])
            if fid in ids:
                continue
            ids.add(fid)
            t = rand_type(rng, u, names, 3, 'field')
            if wide and not rng.chance(1, 8):
                t = rng.pick([('i32',), ('i64',), ('bool',), ('string',), ('i8',), ('double',), ('i16',)])
            req = rng.pick(['default', 'default', 'required', 'optional', 'optional'])
            if rng.chance(1, 6) and (is_scalar(t) or t[0] == 'string'):
                t = ('ptr', t)
                req = 'optional'
            nocopy = (t[0] in ('string', 'binary') or (t[0] == 'ptr' and t[1][0] in ('string', 'binary'))) and rng.chance(1, 4)
            fields.append(Field(fid, t, req, nocopy=nocopy))
        # self reference now and then
        if rng.chance(1, 6):
            fid = 70000
            while fid > 65535 or fid in ids:
                fid = rng.below(400)
            fields.append(Field(fid, ('ptr', ('struct', name)), 'optional'))
        init = None
        if rng.chance(1, 4):
            init = {}
            vg = ValGen(u, rng, big=False, max_depth=1)
            for f in fields:
                if rng.chance(1, 2) and (is_scalar(f.ty) or f.ty[0] in ('string', 'binary')):
                    init[f.name] = vg.val(f.ty, 3)
        rng2 = rng.fork(name)
        order = list(fields)
        # declaration order is not id order
        for j in range(len(order) - 1, 0, -1):
            k = rng2.below(j + 1)
            order[j], order[k] = order[k], order[j]
        # fields that are not part of the schema in between: they shift the Go offsets of the others
        if rng2.chance(1, 4):
            for j in range(1 + rng2.below(3)):
                gt, mt, ty = rng2.pick([('int8', 'int8', ('i8',)), ('bool', 'bool', ('bool',)), ('struct{}', '(unsup 25)', ('i32',)),
                                        ('[3]byte', '(unsup 17)', ('i32',)), ('uint16', '(unsup 9)', ('i32',)), ('string', 'string', ('string',)),
                                        ('*int64', '(ptr (int64 -))', ('i64',))])
                ig = Field(0, ty, go_text=gt, model_text=mt, name='Ig%d' % j, ignored=True)
                if rng2.chance(1, 3):
                    ig = Field(0, ty, go_text=gt, model_text=mt, name='ig%d' % j, exported=False, ignored=True, tag='frugal:"%d,default,i32"' % (900 + j))
                order.insert(rng2.below(len(order) + 1), ig)
        s = Struct(name, order, holder=rng.chance(1, 4), init=init)
        u.add(s)
        names.append(name)
        out.append(name)
    return out


def build_universe(seed, tier):
    u = Universe()
    groups = fixed_corpus(u)
    rng = Rng(seed).fork('types')
    n = 150 if tier == 'quick' else 1500
    groups['random'] = random_structs(u, rng, n)
    return u, groups
