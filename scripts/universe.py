"""The type universe of a run: fixed corpora that enumerate the finite shape
axes completely, plus randomly generated struct types."""
from gen import *

KEY_KINDS = [('bool',), ('i8',), ('i16',), ('i32',), ('i64',), ('double',), enum_t(), ('string',)]
ELEM_SCALARS = [('bool',), ('i8',), ('i16',), ('i32',), ('i64',), ('double',), enum_t()]


def kname(t):
    k = t[0]
    if k == 'ptr':
        return 'P' + kname(t[1])
    if k == 'struct':
        return t[1]
    if k in ('list', 'set'):
        return k.capitalize() + kname(t[1])
    if k == 'map':
        return 'Map' + kname(t[1]) + kname(t[2])
    return k.capitalize()


def fixed_corpus(u):
    """returns {group name: [struct names]}"""
    groups = {}

    def add(group, s):
        u.add(s)
        groups.setdefault(group, []).append(s.name)
        return s

    # leaf structs used as elements
    leaf = add('leaf', Struct('Leaf', [Field(1, ('i32',)), Field(2, ('string',), 'optional')]))
    add('leaf', Struct('LeafReq', [Field(1, ('i64',), 'required'), Field(3, ('binary',))]))
    add('leaf', Struct('LeafOpt', [Field(1, ('ptr', ('i32',)), 'optional'), Field(2, ('ptr', ('string',)), 'optional'),
                                  Field(3, ('double',), 'optional')]))
    add('leaf', Struct('Empty', []))
    PL = ('ptr', ('struct', 'Leaf'))
    VL_ = ('struct', 'Leaf')
    VO = ('struct', 'LeafOpt')

    # scalars x requiredness x pointer-ness
    for t in ELEM_SCALARS + [('string',), ('binary',)]:
        n = kname(t)
        add('scalars', Struct('Sc' + n, [Field(1, t, 'default'), Field(2, t, 'required'), Field(3, t, 'optional'),
                                         Field(4, ('ptr', t), 'optional')]))

    # lists and sets of every element form
    elems = ELEM_SCALARS + [('string',), ('binary',), PL, VL_, VO, ('list', ('i32',)), ('set', ('string',)),
                            ('map', ('i32',), ('string',)), ('list', PL), ('map', ('string',), PL)]
    for e in elems:
        n = kname(e)
        add('lists', Struct('Li' + n, [Field(1, ('list', e)), Field(2, ('set', e), 'optional'), Field(3, ('list', e), 'required')]))

    # maps: every key kind x every value form
    keys = KEY_KINDS + [PL]
    vals = ELEM_SCALARS + [('string',), ('binary',), PL, VL_, ('list', ('i32',)), ('set', ('i64',)), ('map', ('i16',), ('string',))]
    for k in keys:
        fs = []
        for i, v in enumerate(vals):
            fs.append(Field(i + 1, ('map', k, v), ['default', 'optional', 'required'][i % 3]))
        add('maps', Struct('Mp' + kname(k), fs))
    # one map per struct as well (single-field types make shrunk replays small)
    for k in keys:
        for v in vals:
            add('maps1', Struct('M1' + kname(k) + 'X' + kname(v), [Field(1, ('map', k, v))]))

    # struct fields: pointer / by value, each requiredness, recursion
    add('structs', Struct('StPtr', [Field(1, PL), Field(2, PL, 'required'), Field(3, PL, 'optional')]))
    add('structs', Struct('StVal', [Field(1, VL_), Field(2, VL_, 'required'), Field(3, VO, 'optional'), Field(4, ('i32',))]))
    add('structs', Struct('Rec', [Field(1, ('i32',)), Field(2, ('ptr', ('struct', 'Rec')), 'optional'),
                                  Field(3, ('list', ('ptr', ('struct', 'Rec')))),
                                  Field(4, ('map', ('string',), ('ptr', ('struct', 'Rec'))), 'optional')]))
    add('structs', Struct('MutA', [Field(1, ('ptr', ('struct', 'MutB')), 'optional'), Field(2, ('string',))]))
    add('structs', Struct('MutB', [Field(1, ('list', ('ptr', ('struct', 'MutA')))), Field(2, ('i64',), 'required')]))
    add('structs', Struct('RecKey', [Field(1, ('map', ('ptr', ('struct', 'RecKey')), ('i32',)), 'optional'), Field(2, ('i8',))]))

    # field ids on both sides of every boundary
    ids = [0, 1, 63, 64, 65, 127, 128, 255, 256, 32767, 32768, 65534, 65535]
    add('ids', Struct('Ids', [Field(i, ('i32',), 'required' if j % 2 == 0 else 'default') for j, i in enumerate(ids)]))
    add('ids', Struct('IdsReq', [Field(i, ('i16',), 'required') for i in [63, 64, 127, 128, 1023, 1024, 65535]]))
    add('ids', Struct('IdMax', [Field(65535, ('string',), 'required')]))
    add('ids', Struct('IdZero', [Field(0, ('i64',), 'required')]))

    # defaults
    add('defaults', Struct('Def', [
        Field(1, ('bool',), 'optional'), Field(2, ('i8',), 'optional'), Field(3, ('i16',), 'optional'),
        Field(4, ('i32',), 'optional'), Field(5, ('i64',), 'optional'), Field(6, ('double',), 'optional'),
        Field(7, enum_t(), 'optional'), Field(8, ('string',), 'optional'), Field(9, ('binary',), 'optional'),
        Field(10, ('i32',), 'default'), Field(11, ('string',), 'required'), Field(12, ('double',), 'optional'),
        Field(13, ('double',), 'optional'), Field(14, ('string',), 'optional'), Field(15, ('list', ('i32',)), 'optional'),
        Field(16, ('ptr', ('i32',)), 'optional'),
    ], init={'F1': ('s', 1), 'F2': ('s', 7), 'F3': ('s', 0xfffe), 'F4': ('s', 100), 'F5': ('s', MASK64), 'F6': ('s', f64bits(2.5)),
             'F7': ('s', 3), 'F8': ('b', b'dflt'), 'F9': ('b', b'bin'), 'F10': ('s', 9), 'F11': ('b', b'req'),
             'F12': ('s', 0), 'F13': ('s', 0x7ff8000000000001), 'F15': ('l', [('s', 1), ('s', 2)])}))
    add('defaults', Struct('DefHolder', [Field(1, ('ptr', ('struct', 'Def')), 'optional'), Field(2, ('list', ('ptr', ('struct', 'Def')))),
                                         Field(3, ('map', ('i32',), ('ptr', ('struct', 'Def')))), Field(4, ('struct', 'Def')),
                                         Field(5, ('list', ('struct', 'Def')), 'optional'),
                                         Field(6, ('map', ('string',), ('struct', 'Def')), 'optional')]))
    add('defaults', Struct('DefZero', [Field(1, ('i32',), 'optional'), Field(2, ('string',), 'optional'), Field(3, ('binary',), 'optional')],
                           init={}))

    # unknown-field holders
    add('holder', Struct('Hold', [Field(1, ('i32',)), Field(5, ('string',), 'optional')], holder=True))
    add('holder', Struct('HoldNest', [Field(1, ('ptr', ('struct', 'Hold')), 'optional'), Field(2, ('list', ('ptr', ('struct', 'Hold')))),
                                      Field(3, ('map', ('i32',), ('ptr', ('struct', 'Hold')))), Field(4, ('struct', 'Hold'))], holder=True))
    add('holder', Struct('NoHold', [Field(1, ('i32',)), Field(5, ('string',), 'optional')]))

    # nocopy
    add('nocopy', Struct('NoCopy', [Field(1, ('string',), nocopy=True), Field(2, ('binary',), nocopy=True),
                                    Field(3, ('string',)), Field(4, ('binary',), 'optional'),
                                    Field(5, ('ptr', ('string',)), 'optional', nocopy=True)]))
    add('nocopy', Struct('NoCopyNest', [Field(1, ('ptr', ('struct', 'NoCopy')), 'optional'), Field(2, ('list', ('ptr', ('struct', 'NoCopy'))))]))
    return groups


def rand_type(rng, u, names, depth, pos):
    """pos: 'field' | 'elem' | 'key'"""
    if pos == 'key':
        r = rng.below(10)
        if r < 8:
            return rng.pick(KEY_KINDS)
        kn = [n for n in names if u.by_name[n].fields or u.by_name[n].holder]   # pointers to zero-size structs are all equal: not usable as distinct keys
        return ('ptr', ('struct', rng.pick(kn))) if kn else ('i32',)
    r = rng.below(100)
    if r < 35 or depth <= 0:
        return rng.pick(ELEM_SCALARS + [('string',), ('binary',)])
    if r < 50:
        return (rng.pick(['list', 'set']), rand_type(rng, u, names, depth - 1, 'elem'))
    if r < 65:
        return ('map', rand_type(rng, u, names, depth - 1, 'key'), rand_type(rng, u, names, depth - 1, 'elem'))
    if r < 90 and names:
        return ('ptr', ('struct', rng.pick(names)))
    if names:
        return ('struct', rng.pick(names))
    return ('i32',)


def random_structs(u, rng, count, prefix='R'):
    names = ['Leaf', 'LeafReq', 'LeafOpt', 'Empty', 'Hold', 'Def']
    out = []
    for i in range(count):
        name = '%s%d' % (prefix, i)
        nf = rng.below(9)
        ids = set()
        fields = []
        for _ in range(nf):
            fid = rng.pick([rng.below(16), rng.below(300), rng.below(65536)])
            if fid in ids:
                continue
            ids.add(fid)
            t = rand_type(rng, u, names, 3, 'field')
            req = rng.pick(['default', 'default', 'required', 'optional', 'optional'])
            if rng.chance(1, 6) and (is_scalar(t) or t[0] == 'string'):
                t = ('ptr', t)
                req = 'optional'
            nocopy = t[0] in ('string', 'binary') and rng.chance(1, 8)
            fields.append(Field(fid, t, req, nocopy=nocopy))
        # self reference now and then
        if rng.chance(1, 6):
            fid = 70000
            while fid > 65535 or fid in ids:
                fid = rng.below(400)
            fields.append(Field(fid, ('ptr', ('struct', name)), 'optional'))
        init = None
        if rng.chance(1, 4):
            init = {}
            vg = ValGen(u, rng, big=False, max_depth=1)
            for f in fields:
                if rng.chance(1, 2) and (is_scalar(f.ty) or f.ty[0] in ('string', 'binary')):
                    init[f.name] = vg.val(f.ty, 3)
        rng2 = rng.fork(name)
        order = list(fields)
        # declaration order is not id order
        for j in range(len(order) - 1, 0, -1):
            k = rng2.below(j + 1)
            order[j], order[k] = order[k], order[j]
        s = Struct(name, order, holder=rng.chance(1, 4), init=init)
        u.add(s)
        names.append(name)
        out.append(name)
    return out


def build_universe(seed, tier):
    u = Universe()
    groups = fixed_corpus(u)
    rng = Rng(seed).fork('types')
    n = 150 if tier == 'quick' else 1500
    groups['random'] = random_structs(u, rng, n)
    return u, groups
