#!/bin/bash
# scripts/regress_seeded.sh [ids...] : every seeded change against the checks recorded in its meta.json
# (caught_by); uses $VERIF_REPO (default /repo): apply, run the quick checks, undo.  Prints one line per
# (seed, check): CAUGHT / MISSED.
cd "$(dirname "$0")/.."
repo=${VERIF_REPO:-/repo}
ids="$@"
[ -z "$ids" ] && ids=$(ls seeded)
rm -rf .cache/evidence.keep; cp -r evidence .cache/evidence.keep
trap 'rm -rf evidence; mv .cache/evidence.keep evidence; git -C $repo checkout -- . ; git -C $repo clean -fdq -- seeded_demo_test.go internal 2>/dev/null' EXIT
for id in $ids; do
  [ -f seeded/$id/patch.diff ] || continue
  props=$(python3 -c "import json;print(' '.join(json.load(open('seeded/$id/meta.json'))['caught_by']))")
  git -C $repo apply "$(pwd)/seeded/$id/patch.diff" || { echo "$id: patch does not apply"; continue; }
  for p in $props; do
    out=$(./scripts/check.sh "$p" quick 2>&1 | grep -E "^VIOLATION" | head -1)
    if [ -n "$out" ]; then echo "$id $p CAUGHT ${out#VIOLATION }"; else echo "$id $p MISSED"; fi
  done
  git -C $repo checkout -- . ; git -C $repo clean -fdq -- seeded_demo_test.go internal 2>/dev/null
done
