#!/bin/bash
# scripts/seed_verify.sh Cnn : confirm a seeded change produced in /tmp/mut/Cnn and store it under seeded/Cnn
set -u
id=$1
root=${2:-/tmp/mut}; sfx=${3:-}; wt=$root/$id
out=/verif/seeded/$id$sfx
export GOFLAGS=-mod=mod GOPROXY=off GOSUMDB=off GOTOOLCHAIN=local
mkdir -p $out
cd $wt || exit 2
git diff > $out/patch.diff
demos=$(git ls-files --others --exclude-standard | grep '_test.go$')
echo "demo files: $demos"
mkdir -p $out/demo
for d in $demos; do mkdir -p $out/demo/$(dirname $d); cp $d $out/demo/$d; done
cp SEEDED.md $out/SEEDED.md 2>/dev/null
# 1. existing tests with the change (demo files moved aside)
mkdir -p /tmp/mut/aside.$id; for d in $demos; do mkdir -p /tmp/mut/aside.$id/$(dirname $d); mv $d /tmp/mut/aside.$id/$d; done
t1=$( (go build ./... && go test -vet=off -count=1 ./... && (cd tests && go test -vet=off -count=1 ./...) && (cd fuzz && go test -vet=off -count=1 ./...)) 2>&1 | grep -E "^(FAIL|ok|---|panic)" | grep -v "^ok" | head -5)
for d in $demos; do mv /tmp/mut/aside.$id/$d $d; done
if [ -z "$t1" ]; then echo "existing tests with change: PASS"; else echo "existing tests with change: FAIL: $t1"; fi
# 2. demo with the change
pk=$(for d in $demos; do echo ./$(dirname $d); done | sort -u)
race=""; grep -q "race" SEEDED.md 2>/dev/null && [ "$id" = "C08" ] && race=""
r2=$(go test -vet=off -count=1 -run 'Seeded' $pk 2>&1 | grep -E "^(FAIL|ok|--- FAIL)" | head -3 | tr '\n' ' ')
echo "demo with change: $r2"
# 3. demo without the change
git stash -q
r3=$(go test -vet=off -count=1 -run 'Seeded' $pk 2>&1 | grep -E "^(FAIL|ok|--- FAIL)" | head -3 | tr '\n' ' ')
git stash pop -q
echo "demo without change: $r3"
