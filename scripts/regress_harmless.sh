#!/bin/bash
# scripts/regress_harmless.sh [ids...] : every behaviour-preserving change under harmless/<id>/ against
# ALL 18 quick checks; uses $VERIF_REPO (default /repo): apply, run, undo.  A line per alarm:
#   <id> <Cnn> ALARM failing-input | ALARM no-failing-input-found
# and "<id> clean" when no check objects.
cd "$(dirname "$0")/.."
repo=${VERIF_REPO:-/repo}
ids="$@"
[ -z "$ids" ] && ids=$(ls harmless)
rm -rf .cache/evidence.keep; cp -r evidence .cache/evidence.keep
trap 'rm -rf evidence; mv .cache/evidence.keep evidence; git -C $repo checkout -- . ; git -C $repo clean -fdq -- internal 2>/dev/null' EXIT
for id in $ids; do
  [ -f harmless/$id/patch.diff ] || continue
  git -C $repo apply "$(pwd)/harmless/$id/patch.diff" || { echo "$id: patch does not apply"; continue; }
  n=0
  for i in 01 02 03 04 05 06 07 08 09 10 11 12 13 14 15 16 17 18; do
    out=$(./scripts/check.sh "C$i" quick 2>&1 | grep -E "^VIOLATION" | head -1)
    if [ -n "$out" ]; then
      n=$((n+1))
      case "$out" in *no-failing-input-found*) echo "$id C$i ALARM no-failing-input-found";; *) echo "$id C$i ALARM failing-input ${out#VIOLATION }";; esac
    fi
  done
  [ $n -eq 0 ] && echo "$id clean"
  git -C $repo checkout -- . ; git -C $repo clean -fdq -- internal 2>/dev/null
done
