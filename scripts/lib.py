"""Build and execution plumbing shared by all checks."""
import hashlib
import json
import os
import shutil
import subprocess
import sys
import time
from concurrent.futures import ThreadPoolExecutor

VERIF = os.path.dirname(os.path.dirname(os.path.abspath(__file__)))
REPO = os.environ.get('VERIF_REPO', '/repo')
CACHE = os.path.join(VERIF, '.cache')
GOENV = dict(os.environ, GOFLAGS='-mod=mod', GOPROXY='off', GOSUMDB='off', GOTOOLCHAIN='local',
             CGO_ENABLED='0')
NPROC = os.cpu_count() or 4


def log(*a):
    print(*a, file=sys.stderr, flush=True)


def sh(cmd, cwd=None, env=None, timeout=1800, check=True):
    r = subprocess.run(cmd, cwd=cwd, env=env, timeout=timeout, shell=isinstance(cmd, str),
                       stdout=subprocess.PIPE, stderr=subprocess.STDOUT, text=True)
    if check and r.returncode != 0:
        raise RuntimeError('command failed (%d): %s\n%s' % (r.returncode, cmd, r.stdout[-4000:]))
    return r


def repo_hash():
    """hash of every Go source and go.mod/go.sum of /repo's working tree (test files excluded)"""
    h = hashlib.sha256()
    for root, dirs, files in os.walk(REPO):
        dirs[:] = sorted(d for d in dirs if d not in ('.git', 'tests', 'fuzz', 'testdata'))
        for f in sorted(files):
            if (f.endswith('.go') and not f.endswith('_test.go')) or f in ('go.mod', 'go.sum'):
                p = os.path.join(root, f)
                h.update(os.path.relpath(p, REPO).encode())
                with open(p, 'rb') as fh:
                    h.update(fh.read())
    return h.hexdigest()[:16]


def file_hash(*paths):
    h = hashlib.sha256()
    for p in paths:
        with open(p, 'rb') as fh:
            h.update(fh.read())
    return h.hexdigest()[:16]


def write_if_changed(path, content):
    if os.path.exists(path):
        with open(path) as fh:
            if fh.read() == content:
                return False
    os.makedirs(os.path.dirname(path), exist_ok=True)
    with open(path, 'w') as fh:
        fh.write(content)
    return True


# ------------------------------------------------------------------ harness

HOOKS_STATUS = {}


def build_harness(universe, tag, race=False):
    """compile the harness with the generated types of [universe] against /repo's working tree"""
    src = universe.go_source()
    key = hashlib.sha256((repo_hash() + src + file_hash(*harness_sources()) + str(race)).encode()).hexdigest()[:16]
    d = os.path.join(CACHE, 'harness', key)
    exe = os.path.join(d, 'verifharness')
    if os.path.exists(exe):
        return exe
    os.makedirs(d, exist_ok=True)
    for f in harness_sources() + [os.path.join(VERIF, 'harness', 'go.mod'), os.path.join(VERIF, 'harness', 'go.sum')]:
        shutil.copy(f, d)
    # the working tree's go.sum wins (dependencies may have changed)
    with open(os.path.join(REPO, 'go.sum')) as fh:
        repo_sum = fh.read()
    with open(os.path.join(d, 'go.sum'), 'a') as fh:
        fh.write(repo_sum)
    with open(os.path.join(d, 'types_gen.go'), 'w') as fh:
        fh.write(src)
    if REPO != '/repo':
        # VERIF_REPO: run against another checkout (scratch worktrees, background snapshots)
        with open(os.path.join(d, 'go.mod')) as fh:
            gm = fh.read()
        with open(os.path.join(d, 'go.mod'), 'w') as fh:
            fh.write(gm.replace('=> /repo', '=> ' + REPO))
    t0 = time.time()
    cmd = ['go', 'build', '-tags', 'verif', '-o', exe] + (['-race'] if race else []) + ['.']
    env = dict(GOENV)
    if race:
        env['CGO_ENABLED'] = '1'
    r = sh(cmd, cwd=d, env=env, check=False)
    if r.returncode != 0:
        # the tagged hooks do not compile against this tree: fall back to the public entry points
        # (component-level operations then answer "nohooks", which the judge reports)
        log('[build] harness with hooks failed, building without: ' + ' '.join(r.stdout.split())[-400:])
        cmd2 = [c for c in cmd if c not in ('-tags', 'verif')]
        r2 = sh(cmd2, cwd=d, env=env, check=False)
        if r2.returncode != 0:
            raise RuntimeError('harness build failed:\n' + r.stdout[-3000:] + '\nwithout hooks:\n' + r2.stdout[-3000:])
        HOOKS_STATUS['missing'] = ' '.join(r.stdout.split())[-600:]
    log('[build] harness %s (%s) in %.1fs' % (key, tag, time.time() - t0))
    prune(os.path.join(CACHE, 'harness'), keep=6)
    return exe


def harness_sources():
    d = os.path.join(VERIF, 'harness')
    return sorted(os.path.join(d, f) for f in os.listdir(d) if f.endswith('.go') and f != 'types_gen.go')


def prune(d, keep):
    ents = sorted((os.path.getmtime(os.path.join(d, e)), e) for e in os.listdir(d))
    for _, e in ents[:-keep]:
        shutil.rmtree(os.path.join(d, e), ignore_errors=True)


def _spawn(exe, inp, env, timeout, mem_mb):
    e = dict(os.environ if env is None else env)
    e.setdefault('GOMEMLIMIT', '%dMiB' % mem_mb)
    e.setdefault('GOTRACEBACK', 'single')
    e.setdefault('GORACE', 'halt_on_error=1')
    try:
        r = subprocess.run(['/bin/sh', '-c', 'ulimit -v %d; exec "$0"' % (mem_mb * 4 * 1024), exe],
                           input=inp, env=e, stdout=subprocess.PIPE, stderr=subprocess.PIPE,
                           text=True, timeout=timeout)
        return r.stdout, r.stderr, 'exit%d' % r.returncode
    except subprocess.TimeoutExpired as te:
        out = te.stdout.decode() if isinstance(te.stdout, bytes) else (te.stdout or '')
        return out, '', 'timeout'


def run_session(exe, lines, timeout=120, env=None, mem_mb=4096, independent=False):
    """run one harness process over the case lines ('id sexp').  Returns {id: observation}.
    A case on which the process died is observed as '(crash <how>)' and the remaining
    cases are run in a new process.  The time limit is for the whole batch, so running into it
    says the batch was slow, not that the case in progress hangs (a loaded machine does that):
    before a case is blamed it is given a second chance -- an independent case is run alone in a
    fresh process, a history is started over once with twice the limit."""
    obs = {}
    pending = list(lines)
    timeouts = 0
    restarted = False
    while pending:
        if timeouts >= 2:
            # the process keeps hanging: two hung cases are evidence enough, do not spend the
            # time limit again on each of the remaining ones
            for l in pending:
                obs[l.split(' ', 1)[0]] = '(not-run)'     # judged as a harness note, never as evidence
            break
        out, err, how = _spawn(exe, '\n'.join(pending) + '\n', env, timeout, mem_mb)
        started = None
        done = set()
        whole = out.split('\n')[:-1]      # a killed process may leave half a line behind
        for ln in whole:
            if ln.startswith('@ '):
                started = ln[2:]
            elif ln.startswith('= '):
                sp = ln.index(' ', 2)
                obs[ln[2:sp]] = ln[sp + 1:]
                done.add(ln[2:sp])
        rest = [l for l in pending if l.split(' ', 1)[0] not in done]
        if not rest:
            break
        # the process died on `started` (or before producing anything)
        victim = started if started is not None and started not in done else rest[0].split(' ', 1)[0]
        if how == 'timeout':
            if independent:
                vline = [l for l in rest if l.split(' ', 1)[0] == victim][:1]
                o2, e2, h2 = _spawn(exe, '\n'.join(vline) + '\n', env, max(min(timeout, 60), 20), mem_mb)
                got = [ln for ln in o2.split('\n')[:-1] if ln.startswith('= ' + victim + ' ')]
                if got:
                    # it was the batch, not the case
                    obs[victim] = got[0][len('= ' + victim + ' '):]
                    pending = [l for l in rest if l.split(' ', 1)[0] != victim]
                    continue
                if h2 != 'timeout':
                    err, how = e2, h2       # alone it dies otherwise: report that
            elif not restarted:
                restarted = True
                obs = {}
                pending = list(lines)
                timeout = timeout * 2
                continue
            if how == 'timeout':
                timeouts += 1
        first = [x for x in err.split('\n') if x.strip()][:1]
        if 'DATA RACE' in err:
            first = ['DATA RACE ' + ' | '.join(x.strip() for x in err.split('\n') if '.go:' in x)[:600]]
        msg = (how + ' ' + (first[0] if first else '')).strip()
        obs[victim] = '(crash %s)' % msg.encode().hex()
        pending = [l for l in rest if l.split(' ', 1)[0] != victim]
    return obs


def run_cases(exe, cases, shards=None, timeout=120, env=None):
    """cases: list of (id, sexp).  Independent cases are sharded over processes."""
    if not cases:
        return {}
    timeout = float(os.environ.get('VERIF_BATCH_TIMEOUT', timeout))   # for testing the slow-machine path
    shards = shards or min(NPROC, max(1, len(cases) // 50))
    chunks = [[] for _ in range(shards)]
    for i, (cid, sx) in enumerate(cases):
        chunks[i % shards].append('%s %s' % (cid, sx))
    obs = {}
    with ThreadPoolExecutor(max_workers=shards) as ex:
        for o in ex.map(lambda c: run_session(exe, c, timeout=timeout, env=env, independent=True), chunks):
            obs.update(o)
    return obs


# ------------------------------------------------------------------ judge

def judge_exe():
    return os.path.join(VERIF, 'ocaml', '_build', 'judge')


UNIVERSE_STATUS = {}


def run_judge(universe_sx, cases, obs, workdir, shards=None):
    """returns {id: ('ok',) | ('FAIL', [tags], detail)}; universe_sx holds the (env ...) and
    (gouniverse ...) forms; the judge's cross-check of the two lands in UNIVERSE_STATUS"""
    os.makedirs(workdir, exist_ok=True)
    upath = os.path.join(workdir, 'universe.sexp')
    with open(upath, 'w') as fh:
        fh.write(universe_sx)
    shards = shards or min(NPROC, max(1, len(cases) // 200))
    paths = []
    for s in range(shards):
        p = os.path.join(workdir, 'cases.%d.tsv' % s)
        with open(p, 'w') as fh:
            for i, (cid, sx) in enumerate(cases):
                if i % shards == s:
                    fh.write('%s\t%s\t%s\n' % (cid, sx, obs.get(cid, '(missing)')))
        paths.append(p)
    res = {}

    def one(p):
        return sh(['/bin/sh', '-c', 'ulimit -s unlimited 2>/dev/null || ulimit -s 1000000; exec "$0" "$1" "$2"', judge_exe(), upath, p], timeout=3600).stdout
    with ThreadPoolExecutor(max_workers=shards) as ex:
        for out in ex.map(one, paths):
            for ln in out.split('\n'):
                parts = ln.split('\t')
                if parts[0] == 'UNIVERSE':
                    UNIVERSE_STATUS[parts[1]] = parts[2] if len(parts) > 2 else ''
                    continue
                if len(parts) == 2 and parts[1] == 'ok':
                    res[parts[0]] = ('ok',)
                elif len(parts) >= 4 and parts[1] == 'FAIL':
                    res[parts[0]] = ('FAIL', parts[2].split(','), parts[3])
    return res


def run_sessions(exe, sessions, timeout=300, env=None, envs=None):
    """sessions: list of lists of (id, sexp); each session runs in a process of its own,
    sessions in parallel.  envs: optional per-session environment dicts."""
    obs = {}

    def one(i):
        e = None
        if envs is not None and envs[i] is not None:
            e = dict(os.environ)
            e.update(envs[i])
        elif env is not None:
            e = env
        return run_session(exe, ['%s %s' % (cid, sx) for cid, sx in sessions[i]], timeout=timeout, env=e)
    with ThreadPoolExecutor(max_workers=NPROC) as ex:
        for o in ex.map(one, range(len(sessions))):
            obs.update(o)
    return obs
