#!/bin/sh
# scripts/try_patch.sh [-R] <patch> <Cnn>...  : apply a patch to /repo, run the quick checks, undo.
rev=""
if [ "$1" = "-R" ]; then rev="-R"; shift; fi
patch="$(readlink -f "$1")"; shift
cd "$(dirname "$0")/.."
git -C /repo apply $rev "$patch" || { echo "patch does not apply"; exit 2; }
# evidence files describe the unchanged tree: keep them out of these trial runs
rm -rf .cache/evidence.keep; cp -r evidence .cache/evidence.keep
trap 'rm -rf evidence; mv .cache/evidence.keep evidence; git -C /repo checkout -- . ; git -C /repo clean -fdq -- seeded_demo_test.go internal 2>/dev/null' EXIT
for p in "$@"; do
  out=$(./scripts/check.sh "$p" quick 2>&1 | grep -E "^VIOLATION|^KNOWN|^C[0-9]+ quick" | cut -c1-260)
  echo "$out"
done
