package main

import (
	"fmt"
	"go/ast"
	"go/parser"
	"go/token"
	"os"
	"path/filepath"
	"sort"
	"strconv"
	"strings"
)

// ------------------------------------------------------------------ Legacy

// emptyFuncs: names of package-level functions with an empty body (a shared no-op returned by name
// is the same as an empty closure written in place)
var emptyFuncs = map[string]bool{}

func classifyBody(fd *ast.FuncDecl) string {
	if fd == nil || fd.Body == nil {
		return "BOther"
	}
	st := fd.Body.List
	nres := 0
	if fd.Type.Results != nil {
		nres = len(fd.Type.Results.List)
	}
	if len(st) == 0 && nres == 0 {
		return "BEmpty"
	}
	// `var zero T; return zero` is `return T{}`
	if len(st) == 2 {
		if ds, ok := st[0].(*ast.DeclStmt); ok {
			if gd, ok := ds.Decl.(*ast.GenDecl); ok && gd.Tok == token.VAR && len(gd.Specs) == 1 {
				if vs, ok := gd.Specs[0].(*ast.ValueSpec); ok && len(vs.Names) == 1 && len(vs.Values) == 0 {
					if ret, ok := st[1].(*ast.ReturnStmt); ok && len(ret.Results) == 1 && src(ret.Results[0]) == vs.Names[0].Name {
						return "BReturnsZeroStruct"
					}
				}
			}
		}
	}
	if len(st) != 1 {
		return "BOther"
	}
	ret, ok := st[0].(*ast.ReturnStmt)
	if !ok || len(ret.Results) != 1 {
		return "BOther"
	}
	switch e := ret.Results[0].(type) {
	case *ast.Ident:
		if e.Name == "nil" {
			return "BReturnsNil"
		}
		if emptyFuncs[e.Name] {
			return "BReturnsEmptyClosure"
		}
		// returns its (only) parameter
		if fd.Type.Params != nil && len(fd.Type.Params.List) == 1 && len(fd.Type.Params.List[0].Names) == 1 &&
			fd.Type.Params.List[0].Names[0].Name == e.Name {
			return "BReturnsArg"
		}
	case *ast.FuncLit:
		if len(e.Body.List) == 0 {
			return "BReturnsEmptyClosure"
		}
	case *ast.CompositeLit:
		if len(e.Elts) == 0 {
			return "BReturnsZeroStruct"
		}
	}
	return "BOther"
}

type goFile struct {
	path string // relative to repo
	f    *ast.File
}

func moduleFiles(repo string) []goFile {
	var out []goFile
	filepath.Walk(repo, func(p string, info os.FileInfo, err error) error {
		if err != nil {
			return nil
		}
		if info.IsDir() {
			n := info.Name()
			if n == ".git" || n == "tests" || n == "fuzz" || n == "testdata" {
				return filepath.SkipDir
			}
			return nil
		}
		if !strings.HasSuffix(p, ".go") || strings.HasSuffix(p, "_test.go") {
			return nil
		}
		srcb, err := os.ReadFile(p)
		if err != nil {
			return nil
		}
		if strings.Contains(string(srcb[:min(len(srcb), 400)]), "go:build verif") {
			return nil
		}
		f, err := parser.ParseFile(fset, p, srcb, 0)
		if err != nil {
			fatal("parse %s: %v", p, err)
		}
		rel, _ := filepath.Rel(repo, p)
		out = append(out, goFile{rel, f})
		return nil
	})
	sort.Slice(out, func(i, j int) bool { return out[i].path < out[j].path })
	return out
}

func findFunc(files []goFile, path, name string) *ast.FuncDecl {
	for _, gf := range files {
		if gf.path != path {
			continue
		}
		for _, d := range gf.f.Decls {
			if fd, ok := d.(*ast.FuncDecl); ok && fd.Recv == nil && fd.Name.Name == name {
				return fd
			}
		}
	}
	return nil
}

func imports(f *ast.File, path string) (string, bool) {
	for _, im := range f.Imports {
		p, _ := strconv.Unquote(im.Path.Value)
		if p == path {
			if im.Name != nil {
				return im.Name.Name, true
			}
			return filepath.Base(path), true
		}
	}
	return "", false
}

// accepted canonical bodies of parseOrDefault (filled from the tool: extract -canonopts)
var podCanon = map[string]bool{
	"{ifv4:=os.Getenv(v1);v4==\"\"{returnv2}elseifv5,v6:=strconv.ParseUint(v4,0,64);v6!=nil{panic(\"frugal:invalidvaluefor\"+v1)}elseifv7:=int(v5);v7<=v3{panic(\"frugal:valuetoosmallfor\"+v1)}else{returnv7}}": true,
	"{v4:=os.Getenv(v1)ifv4==\"\"{returnv2}v5,v6:=strconv.ParseUint(v4,0,64)ifv6!=nil{panic(\"frugal:invalidvaluefor\"+v1)}v7:=int(v5)ifv7<=v3{panic(\"frugal:valuetoosmallfor\"+v1)}returnv7}":                  true,
}

func genLegacy(repo, out string) {
	files := moduleFiles(repo)
	var b strings.Builder
	b.WriteString(header)
	b.WriteString("From Coq Require Import List NArith Bool.\nFrom Frugal Require Import LegacyDefs.\nImport ListNotations.\nOpen Scope N_scope.\n\n")
	fns := []struct{ coq, path, name string }{
		{"LPretouch", "frugal.go", "Pretouch"},
		{"LNoJIT", "options.go", "NoJIT"},
		{"LWithMaxInlineDepth", "options.go", "WithMaxInlineDepth"},
		{"LWithMaxInlineILSize", "options.go", "WithMaxInlineILSize"},
		{"LWithMaxPretouchDepth", "options.go", "WithMaxPretouchDepth"},
		{"LSetMaxInlineDepth", "options.go", "SetMaxInlineDepth"},
		{"LSetMaxInlineILSize", "options.go", "SetMaxInlineILSize"},
		{"LGetStats", "debug/debug.go", "GetStats"},
	}
	// package-level functions of the root package with an empty body and no results
	for _, gf := range files {
		if strings.Contains(gf.path, "/") {
			continue
		}
		for _, d := range gf.f.Decls {
			if fd, ok := d.(*ast.FuncDecl); ok && fd.Recv == nil && fd.Body != nil && len(fd.Body.List) == 0 && fd.Type.Results == nil {
				emptyFuncs[fd.Name.Name] = true
			}
		}
	}
	b.WriteString("Definition legacy_body (f : legacy_fn) : body :=\n  match f with\n")
	for _, fn := range fns {
		fmt.Fprintf(&b, "  | %s => %s   (* %s %s *)\n", fn.coq, classifyBody(findFunc(files, fn.path, fn.name)), fn.path, fn.name)
	}
	b.WriteString("  end.\n\n")

	const optsPath = "github.com/cloudwego/frugal/internal/opts"
	// who imports internal/opts, and how its identifiers are used there
	var importers []string
	usesOnlyType := true
	for _, gf := range files {
		alias, ok := imports(gf.f, optsPath)
		if !ok {
			continue
		}
		importers = append(importers, gf.path)
		ast.Inspect(gf.f, func(n ast.Node) bool {
			se, ok := n.(*ast.SelectorExpr)
			if !ok {
				return true
			}
			if id, ok := se.X.(*ast.Ident); ok && id.Name == alias && se.Sel.Name != "Options" {
				usesOnlyType = false
			}
			return true
		})
	}
	onlyOptionsGo := len(importers) == 0 || (len(importers) == 1 && importers[0] == "options.go")
	fmt.Fprintf(&b, "(* files importing internal/opts: %v *)\n", importers)
	fmt.Fprintf(&b, "Definition opts_imported_only_by_options_go : bool := %v.\n", onlyOptionsGo)
	fmt.Fprintf(&b, "Definition opts_used_only_as_type : bool := %v.\n", usesOnlyType)

	// os.Getenv / LookupEnv / Environ anywhere outside internal/opts
	envOutside := false
	var envKeys []string
	for _, gf := range files {
		alias, ok := imports(gf.f, "os")
		if !ok {
			continue
		}
		ast.Inspect(gf.f, func(n ast.Node) bool {
			ce, ok := n.(*ast.CallExpr)
			if !ok {
				return true
			}
			se, ok := ce.Fun.(*ast.SelectorExpr)
			if !ok {
				return true
			}
			if id, ok := se.X.(*ast.Ident); ok && id.Name == alias &&
				(se.Sel.Name == "Getenv" || se.Sel.Name == "LookupEnv" || se.Sel.Name == "Environ") {
				if !strings.HasPrefix(gf.path, "internal/opts/") {
					envOutside = true
				}
			}
			return true
		})
	}
	fmt.Fprintf(&b, "Definition env_read_outside_opts : bool := %v.\n", envOutside)

	// internal/opts: parseOrDefault and the two variables
	op := loadPkg(filepath.Join(repo, "internal", "opts"), false)
	pod := op.funcs["parseOrDefault"]
	podOK := pod != nil && (podCanon[canonBody(op, pod)] || src(pod.Body) == "{ifenv:=os.Getenv(key);env==\"\"{returndef}elseifval,err:=strconv.ParseUint(env,0,64);err!=nil{panic(\"frugal:invalidvaluefor\"+key)}elseifret:=int(val);ret<=min{panic(\"frugal:valuetoosmallfor\"+key)}else{returnret}}")
	fmt.Fprintf(&b, "Definition parseOrDefault_shape : bool := %v.\n", podOK)
	b.WriteString("(* (default, min) of each FRUGAL_MAX_INLINE_* variable *)\nDefinition env_vars : list (N * N) := [")
	first := true
	for _, v := range []string{"MaxInlineDepth", "MaxInlineILSize"} {
		e, ok := op.vars[v]
		if !ok {
			continue
		}
		ce, ok := e.(*ast.CallExpr)
		if !ok || len(ce.Args) != 3 || src(ce.Fun) != "parseOrDefault" {
			continue
		}
		if bl, ok := ce.Args[0].(*ast.BasicLit); ok {
			envKeys = append(envKeys, bl.Value)
		}
		d, ok1 := op.eval(ce.Args[1])
		m, ok2 := op.eval(ce.Args[2])
		if ok1 && ok2 {
			if !first {
				b.WriteString("; ")
			}
			first = false
			fmt.Fprintf(&b, "(%d, %d)", d, m)
		}
	}
	b.WriteString("].\n")
	fmt.Fprintf(&b, "(* environment keys: %s *)\n", strings.Join(envKeys, " "))
	// are MaxInlineDepth / MaxInlineILSize referenced anywhere outside internal/opts?
	refOutside := false
	for _, gf := range files {
		if strings.HasPrefix(gf.path, "internal/opts/") {
			continue
		}
		ast.Inspect(gf.f, func(n ast.Node) bool {
			if se, ok := n.(*ast.SelectorExpr); ok && (se.Sel.Name == "MaxInlineDepth" || se.Sel.Name == "MaxInlineILSize") {
				refOutside = true
			}
			return true
		})
	}
	fmt.Fprintf(&b, "Definition opts_vars_referenced_outside : bool := %v.\n", refOutside)
	writeIfChanged(filepath.Join(out, "Legacy.v"), b.String())
}

// ------------------------------------------------------------------ Access

// callees of a function (identifiers and method selectors called), by name
func callees(fd *ast.FuncDecl) map[string]bool {
	out := map[string]bool{}
	if fd.Body == nil {
		return out
	}
	ast.Inspect(fd.Body, func(n ast.Node) bool {
		switch x := n.(type) {
		case *ast.CallExpr:
			switch f := x.Fun.(type) {
			case *ast.Ident:
				out[f.Name] = true
			case *ast.SelectorExpr:
				out["."+f.Sel.Name] = true
			}
		case *ast.Ident:
			// a function value mentioned without a call (t.AppendFunc = appendStruct)
			out["&"+x.Name] = true
		}
		return true
	})
	return out
}

func mentions(fd *ast.FuncDecl, global string) (reads, writes bool) {
	if fd.Body == nil {
		return
	}
	isG := func(e ast.Expr) bool {
		for {
			switch x := e.(type) {
			case *ast.IndexExpr:
				e = x.X
			case *ast.ParenExpr:
				e = x.X
			case *ast.Ident:
				return x.Name == global && x.Obj == nil || (x.Name == global && x.Obj != nil && x.Obj.Kind == ast.Var && x.Obj.Decl != nil && isPkgLevel(x.Obj))
			default:
				return false
			}
		}
	}
	ast.Inspect(fd.Body, func(n ast.Node) bool {
		switch x := n.(type) {
		case *ast.AssignStmt:
			for _, l := range x.Lhs {
				if isG(l) {
					writes = true
				}
			}
		case *ast.CallExpr:
			if id, ok := x.Fun.(*ast.Ident); ok && id.Name == "delete" && len(x.Args) > 0 && isG(x.Args[0]) {
				writes = true
			}
		case *ast.Ident:
			if x.Name == global && (x.Obj == nil || isPkgLevel(x.Obj)) {
				reads = true
			}
		}
		return true
	})
	return
}

func isPkgLevel(o *ast.Object) bool {
	vs, ok := o.Decl.(*ast.ValueSpec)
	_ = vs
	return ok && o.Kind == ast.Var && o.Data == nil || ok
}

func coqStr(s string) string { return "\"" + strings.ReplaceAll(s, "\"", "\"\"") + "\"" }

func coqStrList(ss []string) string {
	var q []string
	for _, s := range ss {
		q = append(q, coqStr(s))
	}
	return "[" + strings.Join(q, "; ") + "]"
}

func genAccess(repo, out string) {
	r := loadPkg(filepath.Join(repo, "internal", "reflect"), false)
	var b strings.Builder
	b.WriteString(header)
	b.WriteString("From Coq Require Import List String Bool.\nImport ListNotations.\nOpen Scope string_scope.\n\n")

	var fnames []string
	for n := range r.funcs {
		fnames = append(fnames, n)
	}
	sort.Strings(fnames)

	// package-level variables and the functions that mention / assign them
	var gnames []string
	for n := range r.vars {
		gnames = append(gnames, n)
	}
	// uninitialised package-level vars (var x T) are not in r.vars: collect them too
	for _, f := range r.files {
		for _, d := range f.Decls {
			if gd, ok := d.(*ast.GenDecl); ok && gd.Tok == token.VAR {
				for _, s := range gd.Specs {
					for _, id := range s.(*ast.ValueSpec).Names {
						found := false
						for _, g := range gnames {
							if g == id.Name {
								found = true
							}
						}
						if !found {
							gnames = append(gnames, id.Name)
						}
					}
				}
			}
		}
	}
	sort.Strings(gnames)
	b.WriteString("(* package-level variables of internal/reflect: (name, functions assigning it or its elements, functions mentioning it) *)\n")
	b.WriteString("Definition globals : list (string * list string * list string) := [\n")
	for i, g := range gnames {
		var ws, rs []string
		for _, fn := range fnames {
			rd, wr := mentions(r.funcs[fn], g)
			if wr {
				ws = append(ws, fn)
			}
			if rd {
				rs = append(rs, fn)
			}
		}
		sep := ";"
		if i == len(gnames)-1 {
			sep = ""
		}
		fmt.Fprintf(&b, "  (%s, %s, %s)%s\n", coqStr(g), coqStrList(ws), coqStrList(rs), sep)
	}
	b.WriteString("].\n\n")

	// call graph (by name; method calls by selector name)
	b.WriteString("(* who calls whom inside internal/reflect (callee names; \".m\" = method call, \"&f\" = function value) *)\n")
	b.WriteString("Definition calls : list (string * list string) := [\n")
	for i, fn := range fnames {
		cs := callees(r.funcs[fn])
		var names []string
		for c := range cs {
			base := strings.TrimPrefix(strings.TrimPrefix(c, "."), "&")
			// keep only names of functions/methods of this package
			keep := false
			for _, f2 := range fnames {
				if f2 == base || strings.HasSuffix(f2, "."+base) {
					keep = true
				}
			}
			if keep {
				names = append(names, base)
			}
		}
		sort.Strings(names)
		names = uniq(names)
		sep := ";"
		if i == len(fnames)-1 {
			sep = ""
		}
		fmt.Fprintf(&b, "  (%s, %s)%s\n", coqStr(fn), coqStrList(names), sep)
	}
	b.WriteString("].\n\n")

	// shapes
	createOK := false
	if fd := r.funcs["createStructDesc"]; fd != nil {
		s := src(fd.Body)
		lock := strings.Index(s, "sdsmu.Lock()deferssdsmu.Unlock()")
		if lock < 0 {
			lock = strings.Index(s, "sdsmu.Lock()defersdsmu.Unlock()")
		}
		first := strings.Index(s, "newStructDescAndPrefetch(")
		set := strings.Index(s, "sds.Set(")
		createOK = lock >= 0 && first > lock && set > first && !strings.Contains(s[:lock], "sds.Set(") && !strings.Contains(s[:lock], "newStructDescAndPrefetch(")
		// nothing is deferred before the lock is taken (it would run after the unlock), and the
		// pending log is rolled back on failure / committed on success right after the build,
		// inside the locked region and unconditionally
		createOK = createOK && !strings.Contains(s[:lock], "defer") &&
			strings.Contains(s[lock:], "sd,err:=newStructDescAndPrefetch(rt)iferr!=nil{rollbackPending()returnnil,err}commitPending()sds.Set(abiType,sd)")
	}
	fmt.Fprintf(&b, "(* createStructDesc takes sdsmu (Lock; defer Unlock) before building and before sds.Set; build precedes Set *)\nDefinition create_locked_shape : bool := %v.\n", createOK)
	// Get: one atomic Load and a read-only scan; Set: copy into a fresh slice, modify the copy,
	// publish with one atomic Store -- in either of the accepted formulations (expectCanon)
	helperOK := func(name string) bool {
		fd := r.funcs[name]
		if fd == nil || fd.Body == nil {
			return false
		}
		if strings.Contains(src(fd.Body), "indexOfAbiType(") && !bodyIs(r, "indexOfAbiType") {
			return false
		}
		return bodyIs(r, name)
	}
	getOK := helperOK("mapStructDesc.Get")
	setOK := helperOK("mapStructDesc.Set")
	fmt.Fprintf(&b, "(* mapStructDesc.Get: one atomic Load, read-only scan *)\nDefinition descmap_get_shape : bool := %v.\n", getOK)
	fmt.Fprintf(&b, "(* mapStructDesc.Set: copy into a fresh slice, modify the copy, publish with one atomic Store *)\nDefinition descmap_set_shape : bool := %v.\n", setOK)
	slotsAtomic := false
	for _, f := range r.files {
		ast.Inspect(f, func(n ast.Node) bool {
			ts, ok := n.(*ast.TypeSpec)
			if ok && ts.Name.Name == "mapStructDesc" {
				slotsAtomic = strings.Contains(src(ts.Type), "slots[mapStructDescBuckets+1]atomic.Pointer[[]mapStructDescItem]")
			}
			return true
		})
	}
	fmt.Fprintf(&b, "Definition descmap_slots_atomic : bool := %v.\n", slotsAtomic)

	// functions that assign a .Sd field
	var sdWriters []string
	for _, fn := range fnames {
		fd := r.funcs[fn]
		if fd.Body == nil {
			continue
		}
		w := false
		ast.Inspect(fd.Body, func(n ast.Node) bool {
			if as, ok := n.(*ast.AssignStmt); ok {
				for _, l := range as.Lhs {
					if se, ok := l.(*ast.SelectorExpr); ok && se.Sel.Name == "Sd" {
						w = true
					}
				}
			}
			return true
		})
		if w {
			sdWriters = append(sdWriters, fn)
		}
	}
	fmt.Fprintf(&b, "(* functions assigning tType.Sd *)\nDefinition sd_writers : list string := %s.\n", coqStrList(sdWriters))

	// pool discipline: every X.Get() in a function is paired with X.Put of the same variable
	b.WriteString("(* sync.Pool use: (function, pool expression, paired with Put in the same function) *)\nDefinition pool_uses : list (string * string * bool) := [\n")
	var rows []string
	for _, fn := range fnames {
		fd := r.funcs[fn]
		if fd.Body == nil {
			continue
		}
		s := src(fd.Body)
		ast.Inspect(fd.Body, func(n ast.Node) bool {
			ce, ok := n.(*ast.CallExpr)
			if !ok {
				return true
			}
			se, ok := ce.Fun.(*ast.SelectorExpr)
			if !ok || se.Sel.Name != "Get" || len(ce.Args) != 0 {
				return true
			}
			pool := src(se.X)
			if !strings.Contains(strings.ToLower(pool), "pool") {
				return true
			}
			rows = append(rows, fmt.Sprintf("  (%s, %s, %v)", coqStr(fn), coqStr(pool), strings.Contains(s, pool+".Put(")))
			return true
		})
	}
	b.WriteString(strings.Join(rows, ";\n"))
	b.WriteString("\n].\n")
	writeIfChanged(filepath.Join(out, "Access.v"), b.String())
}

func uniq(ss []string) []string {
	var out []string
	for i, s := range ss {
		if i == 0 || s != ss[i-1] {
			out = append(out, s)
		}
	}
	return out
}
