package main

// gen/CacheKey.v: what the process-wide type-node cache of internal/reflect (ttypes, newTType)
// is keyed by, and what defs.(*Type).String() prints for every tag.

import (
	"fmt"
	"go/ast"
	"path/filepath"
	"sort"
	"strings"
)

func genCacheKey(repo, out string) {
	files := moduleFiles(repo)
	var b strings.Builder
	b.WriteString(header)
	b.WriteString("From Coq Require Import List String Bool.\nImport ListNotations.\nOpen Scope string_scope.\n\n")

	// ---- newTType: the key ----
	hasT, hasS, single, used := false, false, false, false
	var extra []string
	if fd := findFunc(files, "internal/reflect/ttype.go", "newTType"); fd != nil && fd.Body != nil {
		assigns := 0
		ast.Inspect(fd.Body, func(n ast.Node) bool {
			as, ok := n.(*ast.AssignStmt)
			if !ok {
				return true
			}
			for i, l := range as.Lhs {
				ls := src(l)
				if ls == "k" && i < len(as.Rhs) {
					assigns++
					if cl, ok := as.Rhs[i].(*ast.CompositeLit); ok && src(cl.Type) == "ttypesK" {
						for _, e := range cl.Elts {
							kv, ok := e.(*ast.KeyValueExpr)
							if !ok {
								extra = append(extra, src(e))
								continue
							}
							switch {
							case src(kv.Key) == "T" && src(kv.Value) == "x.String()":
								hasT = true
							case src(kv.Key) == "S" && src(kv.Value) == "x.S":
								hasS = true
							default:
								extra = append(extra, src(kv))
							}
						}
					} else {
						extra = append(extra, src(as))
					}
				} else if strings.HasPrefix(ls, "k.") {
					assigns++
					extra = append(extra, src(as))
				}
			}
			return true
		})
		single = assigns == 1
		s := src(fd.Body)
		used = strings.Contains(s, "ttypes[k];t!=nil{returnt}") && strings.Contains(s, "ttypes[k]=t")
	}
	fmt.Fprintf(&b, "(* newTType (internal/reflect/ttype.go): k := ttypesK{T: x.String(), S: x.S}, assigned once, used for the lookup and the store *)\n")
	fmt.Fprintf(&b, "Definition ttypes_key_has_T : bool := %v.\n", hasT)
	fmt.Fprintf(&b, "Definition ttypes_key_has_S : bool := %v.\n", hasS)
	fmt.Fprintf(&b, "Definition ttypes_key_single_assignment : bool := %v.\n", single)
	fmt.Fprintf(&b, "Definition ttypes_key_used : bool := %v.\n", used)
	fmt.Fprintf(&b, "Definition ttypes_key_other : list string := %s.\n\n", coqStrList(extra))

	// ---- the key type ----
	var kfields []string
	for _, gf := range files {
		if gf.path != "internal/reflect/ttype.go" {
			continue
		}
		ast.Inspect(gf.f, func(n ast.Node) bool {
			ts, ok := n.(*ast.TypeSpec)
			if ok && ts.Name.Name == "ttypesK" {
				if st, ok := ts.Type.(*ast.StructType); ok {
					for _, f := range st.Fields.List {
						for _, nm := range f.Names {
							kfields = append(kfields, nm.Name+":"+src(f.Type))
						}
					}
				}
			}
			return true
		})
	}
	fmt.Fprintf(&b, "Definition ttypes_key_fields : list string := %s.\n\n", coqStrList(kfields))

	// ---- defs.(*Type).String(): one case per tag ----
	var rows []string
	for _, gf := range files {
		if gf.path != "internal/defs/types.go" {
			continue
		}
		for _, d := range gf.f.Decls {
			fd, ok := d.(*ast.FuncDecl)
			if !ok || fd.Name.Name != "String" || fd.Recv == nil || len(fd.Recv.List) != 1 || fd.Body == nil || src(fd.Recv.List[0].Type) != "*Type" {
				continue
			}
			ast.Inspect(fd.Body, func(n ast.Node) bool {
				cc, ok := n.(*ast.CaseClause)
				if !ok {
					return true
				}
				body := ""
				for _, st := range cc.Body {
					body += src(st)
				}
				if cc.List == nil {
					rows = append(rows, fmt.Sprintf("  (%s, %s)", coqStr("default"), coqStr(body)))
				}
				for _, e := range cc.List {
					rows = append(rows, fmt.Sprintf("  (%s, %s)", coqStr(src(e)), coqStr(body)))
				}
				return true
			})
		}
	}
	sort.Strings(rows)
	b.WriteString("(* String method of defs.Type: (tag, statement) *)\nDefinition type_string_cases : list (string * string) := [\n")
	b.WriteString(strings.Join(rows, ";\n"))
	b.WriteString("\n].\n")
	writeIfChanged(filepath.Join(out, "CacheKey.v"), b.String())
}
