// Command extract re-reads the Go sources of cloudwego/frugal (and the gopkg
// dependency selected by its go.mod) and writes the generated part of the Coq
// model: constants and lookup tables (Params.v), the fast-path dispatch
// tables with a classification of every routine body (Tables.v), the bodies
// of the legacy JIT controls (Legacy.v) and the access discipline of the
// package-level state (Access.v).  It uses go/parser, go/ast and go/printer
// only.  The reading is deliberately shape based: a body that does not match
// the expected shape is emitted as "bad", which makes the corresponding Coq
// side condition evaluate to false.
//
// usage: extract REPO GOPKGDIR OUTDIR
package main

import (
	"bytes"
	"fmt"
	"go/ast"
	"go/parser"
	"go/printer"
	"go/token"
	"os"
	"path/filepath"
	"regexp"
	"sort"
	"strconv"
	"strings"
)

var fset = token.NewFileSet()

type pkg struct {
	files map[string]*ast.File
	funcs map[string]*ast.FuncDecl
	consts map[string]int64
	vars  map[string]ast.Expr // package-level var name -> initialiser
}

func loadPkg(dir string, includeTests bool) *pkg {
	p := &pkg{files: map[string]*ast.File{}, funcs: map[string]*ast.FuncDecl{}, consts: map[string]int64{}, vars: map[string]ast.Expr{}}
	ents, err := os.ReadDir(dir)
	if err != nil {
		fatal("read %s: %v", dir, err)
	}
	var names []string
	for _, e := range ents {
		n := e.Name()
		if !strings.HasSuffix(n, ".go") || (!includeTests && strings.HasSuffix(n, "_test.go")) {
			continue
		}
		names = append(names, n)
	}
	sort.Strings(names)
	for _, n := range names {
		src, err := os.ReadFile(filepath.Join(dir, n))
		if err != nil {
			fatal("%v", err)
		}
		// files guarded by the verif build tag are hooks, not the code under study
		if bytes.Contains(src[:min(len(src), 400)], []byte("go:build verif")) {
			continue
		}
		f, err := parser.ParseFile(fset, filepath.Join(dir, n), src, parser.ParseComments)
		if err != nil {
			fatal("parse %s: %v", n, err)
		}
		p.files[n] = f
	}
	// two passes so that constants may refer to each other in any order
	for pass := 0; pass < 3; pass++ {
		for _, n := range names {
			f := p.files[n]
			if f == nil {
				continue
			}
			for _, d := range f.Decls {
				switch d := d.(type) {
				case *ast.FuncDecl:
					name := d.Name.Name
					if d.Recv != nil && len(d.Recv.List) == 1 {
						name = recvName(d.Recv.List[0].Type) + "." + name
					}
					if name == "init" {
						name = fmt.Sprintf("init@%s", n)
					}
					p.funcs[name] = d
				case *ast.GenDecl:
					for _, s := range d.Specs {
						vs, ok := s.(*ast.ValueSpec)
						if !ok {
							continue
						}
						for i, id := range vs.Names {
							if i >= len(vs.Values) {
								continue
							}
							if d.Tok == token.CONST {
								if v, ok := p.eval(vs.Values[i]); ok {
									p.consts[id.Name] = v
								}
							} else if d.Tok == token.VAR {
								p.vars[id.Name] = vs.Values[i]
							}
						}
					}
				}
			}
		}
	}
	return p
}

func min(a, b int) int {
	if a < b {
		return a
	}
	return b
}

func recvName(e ast.Expr) string {
	switch e := e.(type) {
	case *ast.StarExpr:
		return recvName(e.X)
	case *ast.Ident:
		return e.Name
	}
	return "?"
}

func (p *pkg) eval(e ast.Expr) (int64, bool) {
	switch e := e.(type) {
	case *ast.BasicLit:
		if e.Kind == token.INT {
			v, err := strconv.ParseInt(e.Value, 0, 64)
			return v, err == nil
		}
	case *ast.Ident:
		v, ok := p.consts[e.Name]
		return v, ok
	case *ast.ParenExpr:
		return p.eval(e.X)
	case *ast.CallExpr: // conversion like ttype(3)
		if len(e.Args) == 1 {
			return p.eval(e.Args[0])
		}
	case *ast.BinaryExpr:
		a, ok1 := p.eval(e.X)
		b, ok2 := p.eval(e.Y)
		if !ok1 || !ok2 {
			return 0, false
		}
		switch e.Op {
		case token.ADD:
			return a + b, true
		case token.SUB:
			return a - b, true
		case token.MUL:
			return a * b, true
		case token.SHL:
			return a << uint(b), true
		case token.QUO:
			if b != 0 {
				return a / b, true
			}
		}
	}
	return 0, false
}

func fatal(f string, a ...interface{}) {
	fmt.Fprintf(os.Stderr, "extract: "+f+"\n", a...)
	os.Exit(2)
}

// src prints a node without any whitespace
func src(n interface{}) string {
	var b bytes.Buffer
	printer.Fprint(&b, fset, n)
	return strings.Join(strings.Fields(b.String()), "")
}

// keyed composite literal [256]T{key: v} -> sorted (key, value) pairs
func (p *pkg) table(name string) ([][2]int64, bool) {
	e, ok := p.vars[name]
	if !ok {
		return nil, false
	}
	cl, ok := e.(*ast.CompositeLit)
	if !ok {
		return nil, false
	}
	var out [][2]int64
	for _, el := range cl.Elts {
		kv, ok := el.(*ast.KeyValueExpr)
		if !ok {
			return nil, false
		}
		k, ok1 := p.eval(kv.Key)
		var v int64
		ok2 := true
		if id, isID := kv.Value.(*ast.Ident); isID && (id.Name == "true" || id.Name == "false") {
			if id.Name == "true" {
				v = 1
			}
		} else {
			v, ok2 = p.eval(kv.Value)
		}
		if !ok1 || !ok2 {
			return nil, false
		}
		out = append(out, [2]int64{k, v})
	}
	return out, true
}

func pairs(t [][2]int64) string {
	var s []string
	for _, kv := range t {
		s = append(s, fmt.Sprintf("(%d, %d)", kv[0], kv[1]))
	}
	return "[" + strings.Join(s, "; ") + "]"
}

func keysTrue(t [][2]int64) string {
	var s []string
	for _, kv := range t {
		if kv[1] != 0 {
			s = append(s, fmt.Sprintf("%d", kv[0]))
		}
	}
	return "[" + strings.Join(s, "; ") + "]"
}

const header = "(* GENERATED by /verif/tools/extract from the Go sources -- do not edit. *)\n"

// ------------------------------------------------------------------ Params

func genParams(r, g *pkg) string {
	var b strings.Builder
	b.WriteString(header)
	b.WriteString("From Coq Require Import List NArith.\nImport ListNotations.\nOpen Scope N_scope.\n\n")
	c := func(coqName string, p *pkg, goName string) {
		v, ok := p.consts[goName]
		if !ok {
			fmt.Fprintf(&b, "(* constant %s not found *)\nDefinition %s : N := 0.\n", goName, coqName)
			return
		}
		fmt.Fprintf(&b, "Definition %s : N := %d.\n", coqName, v)
	}
	b.WriteString("(* internal/reflect/ttype.go *)\n")
	for _, n := range []string{"tSTOP", "tBOOL", "tBYTE", "tDOUBLE", "tI16", "tI32", "tI64", "tSTRING", "tSTRUCT", "tMAP", "tSET", "tLIST", "tENUM",
		"fieldHeaderLen", "mapHeaderLen", "listHeaderLen", "strHeaderLen"} {
		c(n, r, n)
	}
	t := func(coqName string, p *pkg, goName string, boolTab bool) {
		tab, ok := p.table(goName)
		if !ok {
			if boolTab {
				fmt.Fprintf(&b, "(* table %s not understood *)\nDefinition %s : list N := [].\n", goName, coqName)
			} else {
				fmt.Fprintf(&b, "(* table %s not understood *)\nDefinition %s : list (N * N) := [].\n", goName, coqName)
			}
			return
		}
		if boolTab {
			fmt.Fprintf(&b, "Definition %s : list N := %s.\n", coqName, keysTrue(tab))
		} else {
			fmt.Fprintf(&b, "Definition %s : list (N * N) := %s.\n", coqName, pairs(tab))
		}
	}
	t("simpleTypes_tab", r, "simpleTypes", true)
	b.WriteString("(* internal/reflect/desc.go *)\n")
	t("containerTypes_tab", r, "containerTypes", true)
	t("typeToSize_tab", r, "typeToSize", false)
	b.WriteString("(* internal/reflect/decoder.go *)\n")
	c("maxDepthLimit", r, "maxDepthLimit")
	t("minWireSize_tab", r, "minWireSize", false)
	b.WriteString("(* internal/reflect/span.go *)\n")
	c("defaultDecoderMemSize", r, "defaultDecoderMemSize")
	b.WriteString("(* internal/reflect/descmap.go *)\n")
	c("mapStructDescBuckets", r, "mapStructDescBuckets")
	b.WriteString("(* github.com/cloudwego/gopkg protocol/thrift *)\n")
	c("gk_defaultRecursionDepth", g, "defaultRecursionDepth")
	t("gk_typeToSize_tab", g, "typeToSize", false)
	for _, n := range []string{"STRING", "STRUCT", "MAP", "SET", "LIST", "STOP"} {
		c("gk_"+n, g, n)
	}
	return b.String()
}

// ------------------------------------------------------------------ Tables

type routine struct {
	name  string
	iter  string
	key   string
	val   string
	shape bool
}

var castOf = map[string][]string{
	"WrBool": {"bool"},
	"WrByte": {"byte", "uint8", "int8"},
	"WrU16":  {"uint16", "int16"},
	"WrU32":  {"uint32", "int32"},
	"WrU64":  {"uint64", "int64"},
	"WrEnum": {"int64"},
	"WrStr":  {"string"},
}

func castOK(w, cast string) bool {
	for _, c := range castOf[w] {
		if c == cast {
			return true
		}
	}
	return false
}

// matchWrite consumes the statements that write one operand X (already
// without whitespace) and returns the writer.  ptr: X is an unsafe.Pointer
// to the operand (iterator form), else X is the operand itself (range form).
// tsel is "t.K", "t.V" (maps) or "t" (lists).
func matchWrite(st []string, x string, ptr bool, tsel string) (string, int) {
	if len(st) == 0 {
		return "WrBad", 0
	}
	q := regexp.QuoteMeta
	if !ptr {
		switch {
		case st[0] == "b=appendMapBool(b,"+x+")":
			return "WrBool", 1
		case st[0] == "b=append(b,"+x+")":
			return "WrByte", 1
		case st[0] == "b=appendUint16(b,"+x+")":
			return "WrU16", 1
		case st[0] == "b=appendUint32(b,"+x+")":
			return "WrU32", 1
		case st[0] == "b=appendUint64(b,"+x+")":
			return "WrU64", 1
		case st[0] == "b=appendUint32(b,uint32("+x+"))":
			return "WrEnum", 1
		case len(st) >= 2 && st[0] == "b=appendUint32(b,uint32(len("+x+")))" && st[1] == "b=append(b,"+x+"...)":
			return "WrStr", 2
		}
		return "WrBad", 0
	}
	deref := func(ty string) string { return "*((*" + ty + ")(" + x + "))" }
	switch {
	case st[0] == "b=append(b,"+deref("byte")+")":
		return "WrByte", 1
	case st[0] == "b=appendUint16(b,"+deref("uint16")+")":
		return "WrU16", 1
	case st[0] == "b=appendUint32(b,"+deref("uint32")+")":
		return "WrU32", 1
	case st[0] == "b=appendUint64(b,"+deref("uint64")+")":
		return "WrU64", 1
	case st[0] == "b=appendUint32(b,uint32("+deref("int64")+"))":
		return "WrEnum", 1
	case len(st) >= 3 && st[0] == "s="+deref("string") && st[1] == "b=appendUint32(b,uint32(len(s)))" && st[2] == "b=append(b,s...)":
		return "WrStr", 3
	}
	errchk := "iferr!=nil{returnb,err}"
	if len(st) >= 2 && st[1] == errchk {
		fn := regexp.MustCompile("^if" + q(tsel) + `\.IsPointer\{b,err=` + q(tsel) + `\.AppendFunc\(` + q(tsel) + `,b,\*\(\*unsafe\.Pointer\)\(` + q(x) + `\)\)\}else\{b,err=` + q(tsel) + `\.AppendFunc\(` + q(tsel) + `,b,` + q(x) + `\)\}$`)
		if fn.MatchString(st[0]) {
			return "WrFunc", 2
		}
		if st[0] == "b,err=appendAny("+tsel+",b,"+x+")" {
			return "WrAny", 2
		}
	}
	return "WrBad", 0
}

func stmts(list []ast.Stmt) []string {
	var out []string
	for _, s := range list {
		out = append(out, src(s))
	}
	return out
}

var rangeRe = regexp.MustCompile(`^\*\(\*map\[(\w+)\](\w+)\)\(p\)$`)

func classifyMap(fd *ast.FuncDecl) routine {
	r := routine{name: fd.Name.Name, iter: "ItBad", key: "WrBad", val: "WrBad"}
	if fd.Body == nil || src(fd.Type) != "func(t*tType,b[]byte,punsafe.Pointer)([]byte,error)" {
		return r
	}
	body := fd.Body.List
	st := stmts(body)
	// prologue
	if len(st) < 4 || st[0] != "b,n:=appendMapHeader(t,b,p)" || st[1] != "ifn==0{returnb,nil}" {
		return r
	}
	if st[len(st)-1] != "returnb,checkMapN(n)" {
		return r
	}
	i := 2
	for i < len(st) && (st[i] == "varerrerror" || st[i] == "varsstring") {
		i++
	}
	var loopBody []ast.Stmt
	kx, vx := "", ""
	ptr := false
	kcast, vcast := "", ""
	switch {
	case i < len(st) && st[i] == "it:=newMapIter(rvWithPtr(t.RV,p))":
		i++
		fs, ok := body[i].(*ast.ForStmt)
		if !ok || src(fs.Init) != "kp,vp:=it.Next()" || src(fs.Cond) != "kp!=nil" || src(fs.Post) != "kp,vp=it.Next()" {
			return r
		}
		loopBody = fs.Body.List
		kx, vx, ptr = "kp", "vp", true
		r.iter = "ItReflect"
	default:
		rs, ok := body[i].(*ast.RangeStmt)
		if !ok || rs.Tok != token.DEFINE || src(rs.Key) != "k" || rs.Value == nil || src(rs.Value) != "v" {
			return r
		}
		m := rangeRe.FindStringSubmatch(src(rs.X))
		if m == nil {
			return r
		}
		kcast, vcast = m[1], m[2]
		loopBody = rs.Body.List
		kx, vx = "k", "v"
		r.iter = "ItRange"
	}
	if i != len(st)-2 {
		return r
	}
	ls := stmts(loopBody)
	if len(ls) < 3 || ls[0] != "n--" {
		return r
	}
	kw, n1 := matchWrite(ls[1:], kx, ptr, "t.K")
	vw, n2 := matchWrite(ls[1+n1:], vx, ptr, "t.V")
	if kw == "WrBad" || vw == "WrBad" || 1+n1+n2 != len(ls) {
		return r
	}
	if !ptr && (!castOK(kw, kcast) || !castOK(vw, vcast)) {
		return r
	}
	r.key, r.val, r.shape = kw, vw, true
	return r
}

func classifyList(fd *ast.FuncDecl) routine {
	r := routine{name: fd.Name.Name, key: "WrBad"}
	if fd.Body == nil || src(fd.Type) != "func(t*tType,b[]byte,punsafe.Pointer)([]byte,error)" {
		return r
	}
	body := fd.Body.List
	st := stmts(body)
	if len(st) < 5 || st[0] != "t=t.V" || st[1] != "b,n,vp:=appendListHeader(t,b,p)" || st[2] != "ifn==0{returnb,nil}" || st[len(st)-1] != "returnb,nil" {
		return r
	}
	i := 3
	for i < len(st) && (st[i] == "varerrerror" || st[i] == "varsstring") {
		i++
	}
	if i != len(st)-2 {
		return r
	}
	fs, ok := body[i].(*ast.ForStmt)
	if !ok || src(fs.Init) != "i:=uint32(0)" || src(fs.Cond) != "i<n" || src(fs.Post) != "i++" {
		return r
	}
	ls := stmts(fs.Body.List)
	if len(ls) < 2 || ls[0] != "ifi!=0{vp=unsafe.Add(vp,t.Size)}" {
		return r
	}
	w, n := matchWrite(ls[1:], "vp", true, "t")
	if w == "WrBad" || 1+n != len(ls) {
		return r
	}
	r.key, r.shape = w, true
	return r
}

// expected bodies (whitespace removed) of the small shared helpers; a
// difference makes the corresponding flag false
var expectBody = map[string]string{
	"appendListHeader": "{if*(*unsafe.Pointer)(p)==nil{returnappend(b,byte(t.WT),0,0,0,0),0,nil}h:=(*sliceHeader)(p)n:=uint32(h.Len)returnappend(b,byte(t.WT),byte(n>>24),byte(n>>16),byte(n>>8),byte(n)),n,h.Data}",
	"appendMapHeader":  "{varnuint32if*(*unsafe.Pointer)(p)!=nil{n=uint32(maplen(*(*unsafe.Pointer)(p)))}returnappend(b,byte(t.K.WT),byte(t.V.WT),byte(n>>24),byte(n>>16),byte(n>>8),byte(n)),n}",
	"checkMapN":        "{ifn==0{returnnil}returnerrors.New(\"mapsizechangedduringencoding\")}",
	"appendMapBool":    "{ifv{returnappend(b,1)}returnappend(b,0)}",
	"appendUint16":     "{returnappend(b,byte(v>>8),byte(v),)}",
	"appendUint32":     "{returnappend(b,byte(v>>24),byte(v>>16),byte(v>>8),byte(v),)}",
	"appendUint64":     "{returnappend(b,byte(v>>56),byte(v>>48),byte(v>>40),byte(v>>32),byte(v>>24),byte(v>>16),byte(v>>8),byte(v),)}",
	"registerMapAppendFunc":  "{mapAppendFuncs[struct{k,vttype}{k:k,v:v}]=f}",
	"registerListAppendFunc": "{listAppendFuncs[t]=f}",
	"updateListAppendFunc":   "{ift.T!=tLIST&&t.T!=tSET{panic(\"[bug]typemismatch,got:\"+ttype2str(t.T))}f,ok:=listAppendFuncs[t.V.T]ifok{t.AppendFunc=freturn}t.AppendFunc=appendListAny}",
}

func bodyIs(p *pkg, name string) bool {
	fd := p.funcs[name]
	if fd == nil || fd.Body == nil {
		return false
	}
	return src(fd.Body) == expectBody[name]
}

var simpleCase = map[string]string{
	"b=append(b,*(*byte)(p))":                           "WrByte",
	"b=appendUint16(b,*((*uint16)(p)))":                 "WrU16",
	"b=appendUint32(b,*((*uint32)(p)))":                 "WrU32",
	"b=appendUint32(b,uint32(*((*int64)(p))))":          "WrEnum",
	"b=appendUint64(b,*((*uint64)(p)))":                 "WrU64",
	"s:=*((*string)(p))b=appendUint32(b,uint32(len(s)))b=append(b,s...)": "WrStr",
}

// the switch t.T { ... } over simple types found inside fn: kind -> writer
func simpleSwitch(p *pkg, fn string) (map[int64]string, bool) {
	fd := p.funcs[fn]
	if fd == nil {
		return nil, false
	}
	var sw *ast.SwitchStmt
	ast.Inspect(fd.Body, func(n ast.Node) bool {
		if s, ok := n.(*ast.SwitchStmt); ok && sw == nil && s.Tag != nil && src(s.Tag) == "t.T" {
			sw = s
		}
		return true
	})
	if sw == nil {
		return nil, false
	}
	out := map[int64]string{}
	for _, c := range sw.Body.List {
		cc := c.(*ast.CaseClause)
		var bs string
		for _, s := range cc.Body {
			bs += src(s)
		}
		w, ok := simpleCase[bs]
		if !ok {
			return nil, false
		}
		for _, e := range cc.List {
			k, ok := p.eval(e)
			if !ok {
				return nil, false
			}
			out[k] = w
		}
	}
	return out, true
}

func genTables(r *pkg) string {
	var b strings.Builder
	b.WriteString(header)
	b.WriteString("From Coq Require Import List NArith.\nFrom Frugal Require Import Routines.\nImport ListNotations.\nOpen Scope N_scope.\n\n")

	// registrations, in source order over every init function of the package
	type mrow struct{ k, v int64; f string }
	type lrow struct{ k int64; f string }
	var mrows []mrow
	var lrows []lrow
	var fnames []string
	for n := range r.funcs {
		if strings.HasPrefix(n, "init@") {
			fnames = append(fnames, n)
		}
	}
	sort.Strings(fnames)
	regOK := true
	for _, n := range fnames {
		ast.Inspect(r.funcs[n].Body, func(x ast.Node) bool {
			ce, ok := x.(*ast.CallExpr)
			if !ok {
				return true
			}
			id, ok := ce.Fun.(*ast.Ident)
			if !ok {
				return true
			}
			switch id.Name {
			case "registerMapAppendFunc":
				k, ok1 := r.eval(ce.Args[0])
				v, ok2 := r.eval(ce.Args[1])
				f, ok3 := ce.Args[2].(*ast.Ident)
				if !ok1 || !ok2 || !ok3 {
					regOK = false
					return true
				}
				mrows = append(mrows, mrow{k, v, f.Name})
			case "registerListAppendFunc":
				k, ok1 := r.eval(ce.Args[0])
				f, ok3 := ce.Args[1].(*ast.Ident)
				if !ok1 || !ok3 {
					regOK = false
					return true
				}
				lrows = append(lrows, lrow{k, f.Name})
			}
			return true
		})
	}
	// later registrations overwrite earlier ones (Go map assignment): keep the last
	mlast := map[[2]int64]string{}
	var morder [][2]int64
	for _, m := range mrows {
		key := [2]int64{m.k, m.v}
		if _, seen := mlast[key]; !seen {
			morder = append(morder, key)
		}
		mlast[key] = m.f
	}
	llast := map[int64]string{}
	var lorder []int64
	for _, l := range lrows {
		if _, seen := llast[l.k]; !seen {
			lorder = append(lorder, l.k)
		}
		llast[l.k] = l.f
	}

	// map routines
	mids := map[string]int{}
	var mlist []routine
	addM := func(name string) int {
		if id, ok := mids[name]; ok {
			return id
		}
		fd := r.funcs[name]
		rt := routine{name: name, iter: "ItBad", key: "WrBad", val: "WrBad"}
		if fd != nil {
			rt = classifyMap(fd)
		}
		mids[name] = len(mlist)
		mlist = append(mlist, rt)
		return mids[name]
	}
	for _, key := range morder {
		addM(mlast[key])
	}
	// default routine and the []byte guard in updateMapAppendFunc
	mdefault := "?"
	binGuard := false
	if fd := r.funcs["updateMapAppendFunc"]; fd != nil && fd.Body != nil {
		s := src(fd.Body)
		guard := "ift.V.Tag==defs.T_binary{ok=false}"
		if strings.Contains(s, guard) {
			binGuard = true
			s = strings.Replace(s, guard, "", 1)
		}
		re := regexp.MustCompile(`^\{ift\.T!=tMAP\{panic\("\[bug\]typemismatch,got:"\+ttype2str\(t\.T\)\)\}f,ok:=mapAppendFuncs\[struct\{k,vttype\}\{k:t\.K\.T,v:t\.V\.T\}\]ifok\{t\.AppendFunc=freturn\}t\.AppendFunc=(\w+)\}$`)
		if m := re.FindStringSubmatch(s); m != nil {
			mdefault = m[1]
		}
	}
	mdefID := addM(mdefault)
	helpers := bodyIs(r, "appendMapHeader") && bodyIs(r, "checkMapN") && bodyIs(r, "appendMapBool") &&
		bodyIs(r, "appendUint16") && bodyIs(r, "appendUint32") && bodyIs(r, "appendUint64") && bodyIs(r, "registerMapAppendFunc") && regOK
	b.WriteString("Definition map_routines : list (N * mroutine) := [\n")
	for i, rt := range mlist {
		sep := ";"
		if i == len(mlist)-1 {
			sep = ""
		}
		fmt.Fprintf(&b, "  (%d, mkMR %s %s %s %v)%s (* %s *)\n", i, rt.iter, rt.key, rt.val, rt.shape && helpers, sep, rt.name)
	}
	b.WriteString("].\n")
	fmt.Fprintf(&b, "(* append_map.go updateMapAppendFunc: `if t.V.Tag == defs.T_binary { ok = false }` present: %v *)\n", binGuard)
	fmt.Fprintf(&b, "Definition map_binary_generic : bool := %v.\n", binGuard)
	fmt.Fprintf(&b, "Definition map_default : N := %d.\n", mdefID)
	b.WriteString("Definition map_dispatch_tab : list (N * N * N) := [\n")
	for i, key := range morder {
		sep := ";"
		if i == len(morder)-1 {
			sep = ""
		}
		fmt.Fprintf(&b, "  (%d, %d, %d)%s\n", key[0], key[1], mids[mlast[key]], sep)
	}
	b.WriteString("].\n\n")

	// list routines
	lids := map[string]int{}
	var llist []routine
	addL := func(name string) int {
		if id, ok := lids[name]; ok {
			return id
		}
		fd := r.funcs[name]
		rt := routine{name: name, key: "WrBad"}
		if fd != nil {
			rt = classifyList(fd)
		}
		lids[name] = len(llist)
		llist = append(llist, rt)
		return lids[name]
	}
	for _, k := range lorder {
		addL(llast[k])
	}
	ldefault := "?"
	if bodyIs(r, "updateListAppendFunc") {
		ldefault = "appendListAny"
	}
	ldefID := addL(ldefault)
	lhelpers := bodyIs(r, "appendListHeader") && bodyIs(r, "appendUint16") && bodyIs(r, "appendUint32") && bodyIs(r, "appendUint64") &&
		bodyIs(r, "registerListAppendFunc") && regOK
	b.WriteString("Definition list_routines : list (N * lroutine) := [\n")
	for i, rt := range llist {
		sep := ";"
		if i == len(llist)-1 {
			sep = ""
		}
		fmt.Fprintf(&b, "  (%d, mkLR %s %v)%s (* %s *)\n", i, rt.key, rt.shape && lhelpers, sep, rt.name)
	}
	b.WriteString("].\n")
	fmt.Fprintf(&b, "Definition list_default : N := %d.\n", ldefID)
	b.WriteString("Definition list_dispatch_tab : list (N * N) := [\n")
	for i, k := range lorder {
		sep := ";"
		if i == len(lorder)-1 {
			sep = ""
		}
		fmt.Fprintf(&b, "  (%d, %d)%s\n", k, lids[llast[k]], sep)
	}
	b.WriteString("].\n\n")

	// simple-type switch of appendAny, and its inlined copy in appendStruct
	sa, ok1 := simpleSwitch(r, "appendAny")
	ss, ok2 := simpleSwitch(r, "appendStruct")
	same := ok1 && ok2 && len(sa) == len(ss)
	if same {
		for k, v := range sa {
			if ss[k] != v {
				same = false
			}
		}
	}
	var ks []int64
	for k := range sa {
		ks = append(ks, k)
	}
	sort.Slice(ks, func(i, j int) bool { return ks[i] < ks[j] })
	b.WriteString("(* append.go: switch t.T of appendAny; appendStruct's inlined copy is identical: ")
	fmt.Fprintf(&b, "%v *)\n", same)
	b.WriteString("Definition simple_wr_tab : list (N * wr) := [")
	for i, k := range ks {
		if i > 0 {
			b.WriteString("; ")
		}
		w := sa[k]
		if !same {
			w = "WrBad"
		}
		fmt.Fprintf(&b, "(%d, %s)", k, w)
	}
	b.WriteString("].\n")
	return b.String()
}

func writeIfChanged(path, content string) {
	old, err := os.ReadFile(path)
	if err == nil && string(old) == content {
		return
	}
	if err := os.MkdirAll(filepath.Dir(path), 0o755); err != nil {
		fatal("%v", err)
	}
	if err := os.WriteFile(path, []byte(content), 0o644); err != nil {
		fatal("%v", err)
	}
	fmt.Fprintf(os.Stderr, "extract: wrote %s\n", path)
}

func main() {
	if len(os.Args) != 4 {
		fatal("usage: extract REPO GOPKGDIR OUTDIR")
	}
	repo, gopkg, out := os.Args[1], os.Args[2], os.Args[3]
	r := loadPkg(filepath.Join(repo, "internal", "reflect"), false)
	g := loadPkg(filepath.Join(gopkg, "protocol", "thrift"), false)
	writeIfChanged(filepath.Join(out, "Params.v"), genParams(r, g))
	writeIfChanged(filepath.Join(out, "Tables.v"), genTables(r))
	genLegacy(repo, out)
	genAccess(repo, out)
	genCacheKey(repo, out)
	genDiscipline(repo, out)
}
