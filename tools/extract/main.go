// Command extract re-reads the Go sources of cloudwego/frugal (and the gopkg
// dependency selected by its go.mod) and writes the generated part of the Coq
// model: constants and lookup tables (Params.v), the fast-path dispatch
// tables with a classification of every routine body (Tables.v), the bodies
// of the legacy JIT controls (Legacy.v) and the access discipline of the
// package-level state (Access.v).  It uses go/parser, go/ast and go/printer
// only.  The reading is deliberately shape based: a body that does not match
// the expected shape is emitted as "bad", which makes the corresponding Coq
// side condition evaluate to false.
//
// usage: extract REPO GOPKGDIR OUTDIR
package main

import (
	"bytes"
	"fmt"
	"go/ast"
	"go/parser"
	"go/printer"
	"go/token"
	"os"
	"path/filepath"
	"regexp"
	"sort"
	"strconv"
	"strings"
)

var fset = token.NewFileSet()

type pkg struct {
	files  map[string]*ast.File
	funcs  map[string]*ast.FuncDecl
	consts map[string]int64
	vars   map[string]ast.Expr // package-level var name -> initialiser
}

func loadPkg(dir string, includeTests bool) *pkg {
	p := &pkg{files: map[string]*ast.File{}, funcs: map[string]*ast.FuncDecl{}, consts: map[string]int64{}, vars: map[string]ast.Expr{}}
	ents, err := os.ReadDir(dir)
	if err != nil {
		fatal("read %s: %v", dir, err)
	}
	var names []string
	for _, e := range ents {
		n := e.Name()
		if !strings.HasSuffix(n, ".go") || (!includeTests && strings.HasSuffix(n, "_test.go")) {
			continue
		}
		names = append(names, n)
	}
	sort.Strings(names)
	for _, n := range names {
		src, err := os.ReadFile(filepath.Join(dir, n))
		if err != nil {
			fatal("%v", err)
		}
		// files guarded by the verif build tag are hooks, not the code under study
		if bytes.Contains(src[:min(len(src), 400)], []byte("go:build verif")) {
			continue
		}
		f, err := parser.ParseFile(fset, filepath.Join(dir, n), src, 0)
		if err != nil {
			fatal("parse %s: %v", n, err)
		}
		p.files[n] = f
	}
	// two passes so that constants may refer to each other in any order
	for pass := 0; pass < 3; pass++ {
		for _, n := range names {
			f := p.files[n]
			if f == nil {
				continue
			}
			for _, d := range f.Decls {
				switch d := d.(type) {
				case *ast.FuncDecl:
					name := d.Name.Name
					if d.Recv != nil && len(d.Recv.List) == 1 {
						name = recvName(d.Recv.List[0].Type) + "." + name
					}
					if name == "init" {
						name = fmt.Sprintf("init@%s", n)
					}
					p.funcs[name] = d
				case *ast.GenDecl:
					for _, s := range d.Specs {
						vs, ok := s.(*ast.ValueSpec)
						if !ok {
							continue
						}
						for i, id := range vs.Names {
							if i >= len(vs.Values) {
								continue
							}
							if d.Tok == token.CONST {
								if v, ok := p.eval(vs.Values[i]); ok {
									p.consts[id.Name] = v
								}
							} else if d.Tok == token.VAR {
								p.vars[id.Name] = vs.Values[i]
								// an initialiser that calls something or holds a closure (sync.Pool.New) is code
								// that runs outside every declared function: a pseudo function "var@name"
								has := false
								ast.Inspect(vs.Values[i], func(n ast.Node) bool {
									switch n.(type) {
									case *ast.FuncLit, *ast.CallExpr:
										has = true
									}
									return !has
								})
								if has {
									p.funcs["var@"+id.Name] = &ast.FuncDecl{
										Name: ast.NewIdent("var@" + id.Name),
										Type: &ast.FuncType{Params: &ast.FieldList{}},
										Body: &ast.BlockStmt{List: []ast.Stmt{&ast.ExprStmt{X: vs.Values[i]}}},
									}
								}
							}
						}
					}
				}
			}
		}
	}
	return p
}

func min(a, b int) int {
	if a < b {
		return a
	}
	return b
}

func recvName(e ast.Expr) string {
	switch e := e.(type) {
	case *ast.StarExpr:
		return recvName(e.X)
	case *ast.Ident:
		return e.Name
	}
	return "?"
}

func (p *pkg) eval(e ast.Expr) (int64, bool) {
	switch e := e.(type) {
	case *ast.BasicLit:
		if e.Kind == token.INT {
			v, err := strconv.ParseInt(e.Value, 0, 64)
			return v, err == nil
		}
	case *ast.Ident:
		v, ok := p.consts[e.Name]
		return v, ok
	case *ast.ParenExpr:
		return p.eval(e.X)
	case *ast.CallExpr: // conversion like ttype(3)
		if len(e.Args) == 1 {
			return p.eval(e.Args[0])
		}
	case *ast.BinaryExpr:
		a, ok1 := p.eval(e.X)
		b, ok2 := p.eval(e.Y)
		if !ok1 || !ok2 {
			return 0, false
		}
		switch e.Op {
		case token.ADD:
			return a + b, true
		case token.SUB:
			return a - b, true
		case token.MUL:
			return a * b, true
		case token.SHL:
			return a << uint(b), true
		case token.QUO:
			if b != 0 {
				return a / b, true
			}
		}
	}
	return 0, false
}

func fatal(f string, a ...interface{}) {
	fmt.Fprintf(os.Stderr, "extract: "+f+"\n", a...)
	os.Exit(2)
}

// src prints a node without any whitespace
func src(n interface{}) string {
	var b bytes.Buffer
	printer.Fprint(&b, fset, n)
	return strings.Join(strings.Fields(b.String()), "")
}

// keyed composite literal [256]T{key: v} -> sorted (key, value) pairs
func (p *pkg) table(name string) ([][2]int64, bool) {
	e, ok := p.vars[name]
	if !ok {
		return nil, false
	}
	cl, ok := e.(*ast.CompositeLit)
	if !ok {
		return nil, false
	}
	var out [][2]int64
	for _, el := range cl.Elts {
		kv, ok := el.(*ast.KeyValueExpr)
		if !ok {
			return nil, false
		}
		k, ok1 := p.eval(kv.Key)
		var v int64
		ok2 := true
		if id, isID := kv.Value.(*ast.Ident); isID && (id.Name == "true" || id.Name == "false") {
			if id.Name == "true" {
				v = 1
			}
		} else {
			v, ok2 = p.eval(kv.Value)
		}
		if !ok1 || !ok2 {
			return nil, false
		}
		out = append(out, [2]int64{k, v})
	}
	return out, true
}

func pairs(t [][2]int64) string {
	var s []string
	for _, kv := range t {
		s = append(s, fmt.Sprintf("(%d, %d)", kv[0], kv[1]))
	}
	return "[" + strings.Join(s, "; ") + "]"
}

func keysTrue(t [][2]int64) string {
	var s []string
	for _, kv := range t {
		if kv[1] != 0 {
			s = append(s, fmt.Sprintf("%d", kv[0]))
		}
	}
	return "[" + strings.Join(s, "; ") + "]"
}

const header = "(* GENERATED by /verif/tools/extract from the Go sources -- do not edit. *)\n"

// ------------------------------------------------------------------ Params

func genParams(r, g *pkg) string {
	var b strings.Builder
	b.WriteString(header)
	b.WriteString("From Coq Require Import List NArith.\nImport ListNotations.\nOpen Scope N_scope.\n\n")
	c := func(coqName string, p *pkg, goName string) {
		v, ok := p.consts[goName]
		if !ok {
			fmt.Fprintf(&b, "(* constant %s not found *)\nDefinition %s : N := 0.\n", goName, coqName)
			return
		}
		fmt.Fprintf(&b, "Definition %s : N := %d.\n", coqName, v)
	}
	b.WriteString("(* internal/reflect/ttype.go *)\n")
	for _, n := range []string{"tSTOP", "tBOOL", "tBYTE", "tDOUBLE", "tI16", "tI32", "tI64", "tSTRING", "tSTRUCT", "tMAP", "tSET", "tLIST", "tENUM",
		"fieldHeaderLen", "mapHeaderLen", "listHeaderLen", "strHeaderLen"} {
		c(n, r, n)
	}
	t := func(coqName string, p *pkg, goName string, boolTab bool) {
		tab, ok := p.table(goName)
		if !ok {
			if boolTab {
				fmt.Fprintf(&b, "(* table %s not understood *)\nDefinition %s : list N := [].\n", goName, coqName)
			} else {
				fmt.Fprintf(&b, "(* table %s not understood *)\nDefinition %s : list (N * N) := [].\n", goName, coqName)
			}
			return
		}
		if boolTab {
			fmt.Fprintf(&b, "Definition %s : list N := %s.\n", coqName, keysTrue(tab))
		} else {
			fmt.Fprintf(&b, "Definition %s : list (N * N) := %s.\n", coqName, pairs(tab))
		}
	}
	t("simpleTypes_tab", r, "simpleTypes", true)
	b.WriteString("(* internal/reflect/desc.go *)\n")
	t("containerTypes_tab", r, "containerTypes", true)
	t("typeToSize_tab", r, "typeToSize", false)
	b.WriteString("(* internal/reflect/decoder.go *)\n")
	c("maxDepthLimit", r, "maxDepthLimit")
	t("minWireSize_tab", r, "minWireSize", false)
	b.WriteString("(* internal/reflect/span.go *)\n")
	c("defaultDecoderMemSize", r, "defaultDecoderMemSize")
	b.WriteString("(* internal/reflect/descmap.go *)\n")
	c("mapStructDescBuckets", r, "mapStructDescBuckets")
	b.WriteString("(* github.com/cloudwego/gopkg protocol/thrift *)\n")
	c("gk_defaultRecursionDepth", g, "defaultRecursionDepth")
	t("gk_typeToSize_tab", g, "typeToSize", false)
	for _, n := range []string{"STRING", "STRUCT", "MAP", "SET", "LIST", "STOP"} {
		c("gk_"+n, g, n)
	}
	return b.String()
}

// ------------------------------------------------------------------ Tables

type routine struct {
	name  string
	iter  string
	key   string
	val   string
	shape bool
}

var castOf = map[string][]string{
	"WrBool": {"bool"},
	"WrByte": {"byte", "uint8", "int8"},
	"WrU16":  {"uint16", "int16"},
	"WrU32":  {"uint32", "int32"},
	"WrU64":  {"uint64", "int64"},
	"WrEnum": {"int64"},
	"WrStr":  {"string"},
}

func castOK(w, cast string) bool {
	for _, c := range castOf[w] {
		if c == cast {
			return true
		}
	}
	return false
}

// matchWrite consumes the statements that write one operand X (already
// without whitespace) and returns the writer.  ptr: X is an unsafe.Pointer
// to the operand (iterator form), else X is the operand itself (range form).
// tsel is "t.K", "t.V" (maps) or "t" (lists).
func matchWrite(st []string, x string, ptr bool, tsel string) (string, int) {
	if len(st) == 0 {
		return "WrBad", 0
	}
	q := regexp.QuoteMeta
	if !ptr {
		switch {
		case st[0] == "b=appendMapBool(b,"+x+")":
			return "WrBool", 1
		case st[0] == "b=append(b,"+x+")":
			return "WrByte", 1
		case st[0] == "b=appendUint16(b,"+x+")":
			return "WrU16", 1
		case st[0] == "b=appendUint32(b,"+x+")":
			return "WrU32", 1
		case st[0] == "b=appendUint64(b,"+x+")":
			return "WrU64", 1
		case st[0] == "b=appendUint32(b,uint32("+x+"))":
			return "WrEnum", 1
		case len(st) >= 2 && st[0] == "b=appendUint32(b,uint32(len("+x+")))" && st[1] == "b=append(b,"+x+"...)":
			return "WrStr", 2
		}
		return "WrBad", 0
	}
	// *((*T)(x)) and *(*T)(x) are the same expression; `s := ...` inside the loop is the same as
	// `var s string` before it and `s = ...` inside
	is := func(stmt, pre, ty, post string) bool {
		return stmt == pre+"*((*"+ty+")("+x+"))"+post || stmt == pre+"*(*"+ty+")("+x+")"+post
	}
	switch {
	case is(st[0], "b=append(b,", "byte", ")"):
		return "WrByte", 1
	case is(st[0], "b=appendUint16(b,", "uint16", ")"):
		return "WrU16", 1
	case is(st[0], "b=appendUint32(b,", "uint32", ")"):
		return "WrU32", 1
	case is(st[0], "b=appendUint64(b,", "uint64", ")"):
		return "WrU64", 1
	case is(st[0], "b=appendUint32(b,uint32(", "int64", "))"):
		return "WrEnum", 1
	case len(st) >= 3 && (is(st[0], "s=", "string", "") || is(st[0], "s:=", "string", "")) && st[1] == "b=appendUint32(b,uint32(len(s)))" && st[2] == "b=append(b,s...)":
		return "WrStr", 3
	}
	errchk := "iferr!=nil{returnb,err}"
	// "pick the element pointer, then one call" reads the same as the two-armed call
	if len(st) >= 4 && st[3] == errchk {
		m := regexp.MustCompile(`^(\w+):=` + q(x) + `$`).FindStringSubmatch(st[0])
		if m != nil && st[1] == "if"+tsel+".IsPointer{"+m[1]+"=*(*unsafe.Pointer)("+x+")}" && st[2] == "b,err="+tsel+".AppendFunc("+tsel+",b,"+m[1]+")" {
			return "WrFunc", 4
		}
	}
	if len(st) >= 2 && st[1] == errchk {
		fn := regexp.MustCompile("^if" + q(tsel) + `\.IsPointer\{b,err=` + q(tsel) + `\.AppendFunc\(` + q(tsel) + `,b,\*\(\*unsafe\.Pointer\)\(` + q(x) + `\)\)\}else\{b,err=` + q(tsel) + `\.AppendFunc\(` + q(tsel) + `,b,` + q(x) + `\)\}$`)
		if fn.MatchString(st[0]) {
			return "WrFunc", 2
		}
		if st[0] == "b,err=appendAny("+tsel+",b,"+x+")" {
			return "WrAny", 2
		}
		if m := regexp.MustCompile(`^b,err=(\w+)\(` + q(tsel) + `,b,` + q(x) + `\)$`).FindStringSubmatch(st[0]); m != nil && elemHelpers[m[1]] {
			return "WrFunc", 2
		}
	}
	return "WrBad", 0
}

func stmts(list []ast.Stmt) []string {
	var out []string
	for _, s := range list {
		out = append(out, src(s))
	}
	return out
}

var rangeRe = regexp.MustCompile(`^\*\(\*map\[(\w+)\](\w+)\)\(p\)$`)

func classifyMap(fd *ast.FuncDecl) routine {
	r := routine{name: fd.Name.Name, iter: "ItBad", key: "WrBad", val: "WrBad"}
	if fd.Body == nil || src(fd.Type) != "func(t*tType,b[]byte,punsafe.Pointer)([]byte,error)" {
		return r
	}
	body := fd.Body.List
	st := stmts(body)
	// prologue
	if len(st) < 4 || st[0] != "b,n:=appendMapHeader(t,b,p)" || st[1] != "ifn==0{returnb,nil}" {
		return r
	}
	if st[len(st)-1] != "returnb,checkMapN(n)" {
		return r
	}
	i := 2
	for i < len(st) && (st[i] == "varerrerror" || st[i] == "varsstring") {
		i++
	}
	var loopBody []ast.Stmt
	kx, vx := "", ""
	ptr := false
	kcast, vcast := "", ""
	switch {
	case i < len(st) && st[i] == "it:=newMapIter(rvWithPtr(t.RV,p))":
		i++
		fs, ok := body[i].(*ast.ForStmt)
		if !ok || src(fs.Init) != "kp,vp:=it.Next()" || src(fs.Cond) != "kp!=nil" || src(fs.Post) != "kp,vp=it.Next()" {
			return r
		}
		loopBody = fs.Body.List
		kx, vx, ptr = "kp", "vp", true
		r.iter = "ItReflect"
	default:
		rs, ok := body[i].(*ast.RangeStmt)
		if !ok || rs.Tok != token.DEFINE || src(rs.Key) != "k" || rs.Value == nil || src(rs.Value) != "v" {
			return r
		}
		m := rangeRe.FindStringSubmatch(src(rs.X))
		if m == nil {
			return r
		}
		kcast, vcast = m[1], m[2]
		loopBody = rs.Body.List
		kx, vx = "k", "v"
		r.iter = "ItRange"
	}
	if i != len(st)-2 {
		return r
	}
	ls := stmts(loopBody)
	if len(ls) < 3 || ls[0] != "n--" {
		return r
	}
	kw, n1 := matchWrite(ls[1:], kx, ptr, "t.K")
	vw, n2 := matchWrite(ls[1+n1:], vx, ptr, "t.V")
	if kw == "WrBad" || vw == "WrBad" || 1+n1+n2 != len(ls) {
		return r
	}
	if !ptr && (!castOK(kw, kcast) || !castOK(vw, vcast)) {
		return r
	}
	r.key, r.val, r.shape = kw, vw, true
	return r
}

func classifyList(fd *ast.FuncDecl) routine {
	r := routine{name: fd.Name.Name, key: "WrBad"}
	if fd.Body == nil || src(fd.Type) != "func(t*tType,b[]byte,punsafe.Pointer)([]byte,error)" {
		return r
	}
	body := fd.Body.List
	// `et := t.V` and then et throughout reads the same as `t = t.V` and then t
	if len(body) > 0 {
		if as, ok := body[0].(*ast.AssignStmt); ok && as.Tok == token.DEFINE && len(as.Lhs) == 1 && len(as.Rhs) == 1 && src(as.Rhs[0]) == "t.V" {
			if id, ok := as.Lhs[0].(*ast.Ident); ok && id.Obj != nil {
				obj := id.Obj
				var touched []*ast.Ident
				var saved []string
				ast.Inspect(fd.Body, func(n ast.Node) bool {
					if x, ok := n.(*ast.Ident); ok && x.Obj == obj {
						touched = append(touched, x)
						saved = append(saved, x.Name)
					}
					return true
				})
				for _, x := range touched {
					x.Name = "t"
				}
				as.Tok = token.ASSIGN
				defer func() {
					for i, x := range touched {
						x.Name = saved[i]
					}
					as.Tok = token.DEFINE
				}()
			}
		}
	}
	st := stmts(body)
	if len(st) < 5 || st[0] != "t=t.V" || st[1] != "b,n,vp:=appendListHeader(t,b,p)" || st[2] != "ifn==0{returnb,nil}" || st[len(st)-1] != "returnb,nil" {
		return r
	}
	i := 3
	for i < len(st) && (st[i] == "varerrerror" || st[i] == "varsstring") {
		i++
	}
	if i != len(st)-2 {
		return r
	}
	fs, ok := body[i].(*ast.ForStmt)
	if !ok || src(fs.Init) != "i:=uint32(0)" || src(fs.Cond) != "i<n" || src(fs.Post) != "i++" {
		return r
	}
	ls := stmts(fs.Body.List)
	if len(ls) < 2 || ls[0] != "ifi!=0{vp=unsafe.Add(vp,t.Size)}" {
		return r
	}
	w, n := matchWrite(ls[1:], "vp", true, "t")
	if w == "WrBad" || 1+n != len(ls) {
		return r
	}
	r.key, r.shape = w, true
	return r
}

// expected bodies (whitespace removed) of the small shared helpers; a
// difference makes the corresponding flag false

// typeAliases: package-level `type X = T` declarations, X -> T (white space removed)
func typeAliases(p *pkg) map[string]string {
	out := map[string]string{}
	for _, f := range p.files {
		for _, d := range f.Decls {
			gd, ok := d.(*ast.GenDecl)
			if !ok || gd.Tok != token.TYPE {
				continue
			}
			for _, sp := range gd.Specs {
				if ts, ok := sp.(*ast.TypeSpec); ok && ts.Assign.IsValid() {
					out[ts.Name.Name] = src(ts.Type)
				}
			}
		}
	}
	return out
}

// canonBody prints the body of fd with its parameters and local variables renamed v1, v2, ... in
// order of first appearance and the package's type aliases expanded: renaming a local, a parameter
// or introducing an alias for a type does not change it
func canonBody(p *pkg, fd *ast.FuncDecl) string {
	if fd == nil || fd.Body == nil {
		return "<missing>"
	}
	names := map[*ast.Object]string{}
	var touched []*ast.Ident
	var saved []string
	// first collect (Object.Pos looks the declaring identifier up by name, so nothing may be
	// renamed before every identifier has been classified)
	collect := func(n ast.Node) bool {
		id, ok := n.(*ast.Ident)
		if !ok || id.Obj == nil || id.Obj.Kind != ast.Var || id.Name == "_" {
			return true
		}
		o := id.Obj
		if _, isField := o.Decl.(*ast.Field); isField {
			// parameters are fields of fd.Type; fields of struct types written inside the body are not variables
			inSig := false
			for _, fl := range []*ast.FieldList{fd.Type.Params, fd.Type.Results, fd.Recv} {
				if fl == nil {
					continue
				}
				for _, f := range fl.List {
					if f == o.Decl {
						inSig = true
					}
				}
			}
			if !inSig {
				return true
			}
		}
		if o.Pos() < fd.Pos() || o.Pos() > fd.End() {
			return true
		}
		if _, ok := names[o]; !ok {
			names[o] = fmt.Sprintf("v%d", len(names)+1)
		}
		touched = append(touched, id)
		saved = append(saved, id.Name)
		return true
	}
	ast.Inspect(fd.Type, collect)
	ast.Inspect(fd.Body, collect)
	for _, id := range touched {
		id.Name = names[id.Obj]
	}
	out := src(fd.Body)
	for i, id := range touched {
		id.Name = saved[i]
	}
	for a, t := range typeAliases(p) {
		out = regexp.MustCompile(`\b`+regexp.QuoteMeta(a)+`\b`).ReplaceAllString(out, t)
	}
	// package-level integer constants by value: naming a magic number does not change it
	out = regexp.MustCompile(`[A-Za-z_][A-Za-z_0-9]*`).ReplaceAllStringFunc(out, func(w string) string {
		if v, ok := p.consts[w]; ok {
			return fmt.Sprint(v)
		}
		return w
	})
	return out
}

// bodyIs: the function reads as expected, up to the names of its parameters and locals, type
// aliases, and the listed equivalent formulations
// canonical bodies (canonBody) of the small shared helpers, with the equivalent formulations seen
// so far; anything else makes the corresponding flag false
var expectCanon = map[string][]string{
	"mapStructDesc.Get":      {"{v2:=v3.slots[v1&65535].Load()ifv2==nil{returnnil}forv4:=range*v2{if(*v2)[v4].abiType==v1{return(*v2)[v4].sd}}returnnil}", "{v2:=v3.slots[v1&65535].Load()ifv2==nil{returnnil}ifv4:=indexOfAbiType(*v2,v1);v4>=0{return(*v2)[v4].sd}returnnil}"},
	"mapStructDesc.Set":      {"{ifv3.Get(v1)==v2{return}v4:=v1&mapStructDescBucketsvarv5[]mapStructDescItemifv6:=v3.slots[v4].Load();v6!=nil{v5=*v6}v7:=make([]mapStructDescItem,len(v5),len(v5)+1)copy(v7,v5)forv8:=rangev7{ifv7[v8].abiType==v1{v7[v8].sd=v2v3.slots[v4].Store(&v7)return}}v7=append(v7,mapStructDescItem{v1:v1,v2:v2})v3.slots[v4].Store(&v7)}", "{ifv3.Get(v1)==v2{return}v4:=&v3.slots[v1&65535]varv5[]mapStructDescItemifv6:=v4.Load();v6!=nil{v5=*v6}v7:=make([]mapStructDescItem,len(v5),len(v5)+1)copy(v7,v5)ifv8:=indexOfAbiType(v7,v1);v8>=0{v7[v8].sd=v2}else{v7=append(v7,mapStructDescItem{v1:v1,v2:v2})}v4.Store(&v7)}"},
	"indexOfAbiType":         {"{forv3:=rangev1{ifv1[v3].abiType==v2{returnv3}}return-1}"},
	"appendListHeader":       {"{if*(*unsafe.Pointer)(v3)==nil{returnappend(v2,byte(v1.WT),0,0,0,0),0,nil}v4:=(*sliceHeader)(v3)v5:=uint32(v4.Len)returnappend(v2,byte(v1.WT),byte(v5>>24),byte(v5>>16),byte(v5>>8),byte(v5)),v5,v4.Data}"},
	"appendMapHeader":        {"{varv4uint32if*(*unsafe.Pointer)(v3)!=nil{v4=uint32(maplen(*(*unsafe.Pointer)(v3)))}returnappend(v2,byte(v1.K.WT),byte(v1.V.WT),byte(v4>>24),byte(v4>>16),byte(v4>>8),byte(v4)),v4}"},
	"checkMapN":              {"{ifv1==0{returnnil}returnerrors.New(\"mapsizechangedduringencoding\")}", "{ifv1!=0{returnerrors.New(\"mapsizechangedduringencoding\")}returnnil}"},
	"appendMapBool":          {"{ifv2{returnappend(v1,1)}returnappend(v1,0)}", "{varv3byteifv2{v3=1}returnappend(v1,v3)}"},
	"appendUint16":           {"{returnappend(v1,byte(v2>>8),byte(v2),)}"},
	"appendUint32":           {"{returnappend(v1,byte(v2>>24),byte(v2>>16),byte(v2>>8),byte(v2),)}"},
	"appendUint64":           {"{returnappend(v1,byte(v2>>56),byte(v2>>48),byte(v2>>40),byte(v2>>32),byte(v2>>24),byte(v2>>16),byte(v2>>8),byte(v2),)}"},
	"registerMapAppendFunc":  {"{mapAppendFuncs[struct{k,vttype}{v1:v1,v2:v2}]=v3}"},
	"registerListAppendFunc": {"{listAppendFuncs[v1]=v2}"},
	"updateListAppendFunc":   {"{ifv1.T!=15&&v1.T!=14{panic(\"[bug]typemismatch,got:\"+ttype2str(v1.T))}v2,v3:=listAppendFuncs[v1.V.T]ifv3{v1.AppendFunc=v2return}v1.AppendFunc=appendListAny}", "{ifv1.T!=15&&v1.T!=14{panic(\"[bug]typemismatch,got:\"+ttype2str(v1.T))}ifv2,v3:=listAppendFuncs[v1.V.T];v3{v1.AppendFunc=v2}else{v1.AppendFunc=appendListAny}}"},
}

func bodyIs(p *pkg, name string) bool {
	fd := p.funcs[name]
	if fd == nil || fd.Body == nil {
		return false
	}
	c := canonBody(p, fd)
	for _, e := range expectCanon[name] {
		if c == e {
			return true
		}
	}
	return false
}

var simpleCase = map[string]string{
	"b=append(b,*(*byte)(p))":                                            "WrByte",
	"b=appendUint16(b,*((*uint16)(p)))":                                  "WrU16",
	"b=appendUint32(b,*((*uint32)(p)))":                                  "WrU32",
	"b=appendUint32(b,uint32(*((*int64)(p))))":                           "WrEnum",
	"b=appendUint64(b,*((*uint64)(p)))":                                  "WrU64",
	"s:=*((*string)(p))b=appendUint32(b,uint32(len(s)))b=append(b,s...)": "WrStr",
}

// the switch t.T { ... } over simple types found inside fn: kind -> writer
func simpleSwitch(p *pkg, fn string) (map[int64]string, bool) {
	fd := p.funcs[fn]
	if fd == nil {
		return nil, false
	}
	var sw *ast.SwitchStmt
	ast.Inspect(fd.Body, func(n ast.Node) bool {
		if s, ok := n.(*ast.SwitchStmt); ok && sw == nil && s.Tag != nil && regexp.MustCompile(`^\w+\.T$`).MatchString(src(s.Tag)) {
			sw = s
		}
		return true
	})
	if sw == nil {
		return nil, false
	}
	out := map[int64]string{}
	for _, c := range sw.Body.List {
		cc := c.(*ast.CaseClause)
		var bs string
		for _, s := range cc.Body {
			bs += src(s)
		}
		w, ok := simpleCase[bs]
		if !ok {
			return nil, false
		}
		for _, e := range cc.List {
			k, ok := p.eval(e)
			if !ok {
				return nil, false
			}
			out[k] = w
		}
	}
	return out, true
}

// delegate: a routine whose whole body is `return g(t, b, p)` with its own three parameters, in
// order, is g
func delegate(p *pkg, fd *ast.FuncDecl) *ast.FuncDecl {
	for hops := 0; hops < 8 && fd != nil && fd.Body != nil; hops++ {
		if len(fd.Body.List) != 1 || fd.Type.Params == nil {
			return fd
		}
		var ps []string
		for _, f := range fd.Type.Params.List {
			for _, n := range f.Names {
				ps = append(ps, n.Name)
			}
		}
		rs, ok := fd.Body.List[0].(*ast.ReturnStmt)
		if !ok || len(rs.Results) != 1 || len(ps) != 3 {
			return fd
		}
		ce, ok := rs.Results[0].(*ast.CallExpr)
		if !ok || len(ce.Args) != 3 {
			return fd
		}
		g, ok := ce.Fun.(*ast.Ident)
		if !ok {
			return fd
		}
		for i, a := range ce.Args {
			id, ok := a.(*ast.Ident)
			if !ok || id.Name != ps[i] {
				return fd
			}
		}
		next := p.funcs[g.Name]
		if next == nil || src(next.Type) != src(fd.Type) {
			return fd
		}
		fd = next
	}
	return fd
}

// elemHelpers: package functions that are the two-armed element call
// `if t.IsPointer { return t.AppendFunc(t, b, *(*unsafe.Pointer)(p)) }; return t.AppendFunc(t, b, p)`
var elemHelpers = map[string]bool{}

func findElemHelpers(p *pkg) {
	elemHelpers = map[string]bool{}
	for n, fd := range p.funcs {
		if fd == nil || fd.Body == nil || fd.Recv != nil || src(fd.Type) != "func(t*tType,b[]byte,vpunsafe.Pointer)([]byte,error)" && src(fd.Type) != "func(t*tType,b[]byte,punsafe.Pointer)([]byte,error)" {
			continue
		}
		c := canonBody(p, fd)
		if c == "{ifv1.IsPointer{returnv1.AppendFunc(v1,v2,*(*unsafe.Pointer)(v3))}returnv1.AppendFunc(v1,v2,v3)}" ||
			c == "{ifv1.IsPointer{v3=*(*unsafe.Pointer)(v3)}returnv1.AppendFunc(v1,v2,v3)}" {
			elemHelpers[n] = true
		}
	}
}

func genTables(r *pkg) string {
	var b strings.Builder
	findElemHelpers(r)
	b.WriteString(header)
	b.WriteString("From Coq Require Import List NArith.\nFrom Frugal Require Import Routines.\nImport ListNotations.\nOpen Scope N_scope.\n\n")

	// registrations, in source order over every init function of the package
	type mrow struct {
		k, v int64
		f    string
	}
	type lrow struct {
		k int64
		f string
	}
	var mrows []mrow
	var lrows []lrow
	var fnames []string
	for n := range r.funcs {
		if strings.HasPrefix(n, "init@") {
			fnames = append(fnames, n)
		}
	}
	sort.Strings(fnames)
	regOK := true
	// a registration inside `for _, k := range [...]ttype{A, B, ...}` (constant elements) reads the
	// same as the unrolled sequence: the body is visited once per element with k bound
	evalEnv := func(e ast.Expr, env map[string]int64) (int64, bool) {
		if id, ok := e.(*ast.Ident); ok {
			if v, ok := env[id.Name]; ok {
				return v, true
			}
		}
		return r.eval(e)
	}
	// a registration under a condition, in a loop that is not unrolled, in a closure, or in an init
	// function with a return/break/continue/goto is not the unconditional sequence the tables assume
	var visit func(n ast.Node, env map[string]int64, cond bool)
	regs, jumps := 0, 0
	visit = func(n ast.Node, env map[string]int64, cond bool) {
		ast.Inspect(n, func(x ast.Node) bool {
			switch y := x.(type) {
			case *ast.BranchStmt, *ast.ReturnStmt:
				jumps++
			case *ast.IfStmt, *ast.SwitchStmt, *ast.TypeSwitchStmt, *ast.SelectStmt, *ast.ForStmt, *ast.FuncLit, *ast.GoStmt, *ast.DeferStmt:
				if !cond && x != n {
					visit(y, env, true)
					return false
				}
			}
			if rs, ok := x.(*ast.RangeStmt); ok && rs.Tok == token.DEFINE && rs.Value != nil {
				cl, okc := rs.X.(*ast.CompositeLit)
				vid, okv := rs.Value.(*ast.Ident)
				kid, okk := rs.Key.(*ast.Ident)
				if okc && okv && okk && (kid.Name == "_" || kid.Name != vid.Name) {
					var vals []int64
					all := true
					for _, el := range cl.Elts {
						v, ok := r.eval(el)
						if !ok {
							all = false
							break
						}
						vals = append(vals, v)
					}
					if all {
						// the loop variables must not be assigned, redeclared or have their address taken in the body
						ast.Inspect(rs.Body, func(z ast.Node) bool {
							bad := func(e ast.Expr) {
								if id, ok := e.(*ast.Ident); ok && (id.Name == vid.Name || (kid.Name != "_" && id.Name == kid.Name)) {
									regOK = false
								}
							}
							switch w := z.(type) {
							case *ast.AssignStmt:
								for _, l := range w.Lhs {
									bad(l)
								}
							case *ast.IncDecStmt:
								bad(w.X)
							case *ast.UnaryExpr:
								if w.Op == token.AND {
									bad(w.X)
								}
							case *ast.ValueSpec:
								for _, nm := range w.Names {
									bad(nm)
								}
							case *ast.RangeStmt:
								if w.Key != nil {
									bad(w.Key)
								}
								if w.Value != nil {
									bad(w.Value)
								}
							}
							return true
						})
						for i, v := range vals {
							env2 := map[string]int64{}
							for k, w := range env {
								env2[k] = w
							}
							env2[vid.Name] = v
							if kid.Name != "_" {
								env2[kid.Name] = int64(i)
							}
							visit(rs.Body, env2, cond)
						}
						return false
					}
				}
			}
			if rs, ok := x.(*ast.RangeStmt); ok && !cond && x != n {
				visit(rs, env, true)
				return false
			}
			ce, ok := x.(*ast.CallExpr)
			if !ok {
				return true
			}
			id, ok := ce.Fun.(*ast.Ident)
			if !ok {
				return true
			}
			if id.Name == "registerMapAppendFunc" || id.Name == "registerListAppendFunc" {
				regs++
				if cond {
					regOK = false
				}
			}
			switch id.Name {
			case "registerMapAppendFunc":
				k, ok1 := evalEnv(ce.Args[0], env)
				v, ok2 := evalEnv(ce.Args[1], env)
				f, ok3 := ce.Args[2].(*ast.Ident)
				if !ok1 || !ok2 || !ok3 {
					regOK = false
					return true
				}
				mrows = append(mrows, mrow{k, v, f.Name})
			case "registerListAppendFunc":
				k, ok1 := evalEnv(ce.Args[0], env)
				f, ok3 := ce.Args[1].(*ast.Ident)
				if !ok1 || !ok3 {
					regOK = false
					return true
				}
				lrows = append(lrows, lrow{k, f.Name})
			}
			return true
		})
	}
	for _, n := range fnames {
		regs, jumps = 0, 0
		visit(r.funcs[n].Body, map[string]int64{}, false)
		if regs > 0 && jumps > 0 {
			regOK = false
		}
	}
	// later registrations overwrite earlier ones (Go map assignment): keep the last
	mlast := map[[2]int64]string{}
	var morder [][2]int64
	for _, m := range mrows {
		key := [2]int64{m.k, m.v}
		if _, seen := mlast[key]; !seen {
			morder = append(morder, key)
		}
		mlast[key] = m.f
	}
	llast := map[int64]string{}
	var lorder []int64
	for _, l := range lrows {
		if _, seen := llast[l.k]; !seen {
			lorder = append(lorder, l.k)
		}
		llast[l.k] = l.f
	}

	// map routines
	mids := map[string]int{}
	var mlist []routine
	addM := func(name string) int {
		if id, ok := mids[name]; ok {
			return id
		}
		fd := delegate(r, r.funcs[name])
		rt := routine{name: name, iter: "ItBad", key: "WrBad", val: "WrBad"}
		if fd != nil {
			rt = classifyMap(fd)
			rt.name = name
		}
		mids[name] = len(mlist)
		mlist = append(mlist, rt)
		return mids[name]
	}
	for _, key := range morder {
		addM(mlast[key])
	}
	// default routine and the []byte guard in updateMapAppendFunc
	mdefault := "?"
	binGuard := false
	if fd := r.funcs["updateMapAppendFunc"]; fd != nil && fd.Body != nil {
		s := canonBody(r, fd)
		// the []byte guard, before the lookup result is used: either formulation
		for _, g := range [][2]string{
			{"ifv1.V.Tag==defs.T_binary{v3=false}ifv3{v1.AppendFunc=v2return}", "ifv3{v1.AppendFunc=v2return}"},
			{"ifv3&&v1.V.Tag!=defs.T_binary{v1.AppendFunc=v2return}", "ifv3{v1.AppendFunc=v2return}"},
		} {
			if strings.Contains(s, g[0]) {
				binGuard = true
				s = strings.Replace(s, g[0], g[1], 1)
				break
			}
		}
		re := regexp.MustCompile(`^\{ifv1\.T!=13\{panic\("\[bug\]typemismatch,got:"\+ttype2str\(v1\.T\)\)\}v2,v3:=mapAppendFuncs\[struct\{k,vttype\}\{k:v1\.K\.T,v:v1\.V\.T\}\]ifv3\{v1\.AppendFunc=v2return\}v1\.AppendFunc=(\w+)\}$`)
		if m := re.FindStringSubmatch(s); m != nil {
			mdefault = m[1]
		}
	}
	mdefID := addM(mdefault)
	helpers := bodyIs(r, "appendMapHeader") && bodyIs(r, "checkMapN") && bodyIs(r, "appendMapBool") &&
		bodyIs(r, "appendUint16") && bodyIs(r, "appendUint32") && bodyIs(r, "appendUint64") && bodyIs(r, "registerMapAppendFunc") && regOK
	b.WriteString("Definition map_routines : list (N * mroutine) := [\n")
	for i, rt := range mlist {
		sep := ";"
		if i == len(mlist)-1 {
			sep = ""
		}
		fmt.Fprintf(&b, "  (%d, mkMR %s %s %s %v)%s (* %s *)\n", i, rt.iter, rt.key, rt.val, rt.shape && helpers, sep, rt.name)
	}
	b.WriteString("].\n")
	fmt.Fprintf(&b, "(* append_map.go updateMapAppendFunc: `if t.V.Tag == defs.T_binary { ok = false }` present: %v *)\n", binGuard)
	fmt.Fprintf(&b, "Definition map_binary_generic : bool := %v.\n", binGuard)
	fmt.Fprintf(&b, "Definition map_default : N := %d.\n", mdefID)
	b.WriteString("Definition map_dispatch_tab : list (N * N * N) := [\n")
	for i, key := range morder {
		sep := ";"
		if i == len(morder)-1 {
			sep = ""
		}
		fmt.Fprintf(&b, "  (%d, %d, %d)%s\n", key[0], key[1], mids[mlast[key]], sep)
	}
	b.WriteString("].\n\n")

	// list routines
	lids := map[string]int{}
	var llist []routine
	addL := func(name string) int {
		if id, ok := lids[name]; ok {
			return id
		}
		fd := delegate(r, r.funcs[name])
		rt := routine{name: name, key: "WrBad"}
		if fd != nil {
			rt = classifyList(fd)
			rt.name = name
		}
		lids[name] = len(llist)
		llist = append(llist, rt)
		return lids[name]
	}
	for _, k := range lorder {
		addL(llast[k])
	}
	ldefault := "?"
	if bodyIs(r, "updateListAppendFunc") {
		ldefault = "appendListAny"
	}
	ldefID := addL(ldefault)
	lhelpers := bodyIs(r, "appendListHeader") && bodyIs(r, "appendUint16") && bodyIs(r, "appendUint32") && bodyIs(r, "appendUint64") &&
		bodyIs(r, "registerListAppendFunc") && regOK
	b.WriteString("Definition list_routines : list (N * lroutine) := [\n")
	for i, rt := range llist {
		sep := ";"
		if i == len(llist)-1 {
			sep = ""
		}
		fmt.Fprintf(&b, "  (%d, mkLR %s %v)%s (* %s *)\n", i, rt.key, rt.shape && lhelpers, sep, rt.name)
	}
	b.WriteString("].\n")
	fmt.Fprintf(&b, "Definition list_default : N := %d.\n", ldefID)
	b.WriteString("Definition list_dispatch_tab : list (N * N) := [\n")
	for i, k := range lorder {
		sep := ";"
		if i == len(lorder)-1 {
			sep = ""
		}
		fmt.Fprintf(&b, "  (%d, %d)%s\n", k, lids[llast[k]], sep)
	}
	b.WriteString("].\n\n")

	// simple-type switch of appendAny, and its inlined copy in appendStruct
	sa, ok1 := simpleSwitch(r, "appendAny")
	ss, ok2 := simpleSwitch(r, "appendStruct")
	same := ok1 && ok2 && len(sa) == len(ss)
	if same {
		for k, v := range sa {
			if ss[k] != v {
				same = false
			}
		}
	}
	var ks []int64
	for k := range sa {
		ks = append(ks, k)
	}
	sort.Slice(ks, func(i, j int) bool { return ks[i] < ks[j] })
	b.WriteString("(* append.go: switch t.T of appendAny; appendStruct's inlined copy is identical: ")
	fmt.Fprintf(&b, "%v *)\n", same)
	b.WriteString("Definition simple_wr_tab : list (N * wr) := [")
	for i, k := range ks {
		if i > 0 {
			b.WriteString("; ")
		}
		w := sa[k]
		if !same {
			w = "WrBad"
		}
		fmt.Fprintf(&b, "(%d, %s)", k, w)
	}
	b.WriteString("].\n")
	return b.String()
}

func writeIfChanged(path, content string) {
	old, err := os.ReadFile(path)
	if err == nil && string(old) == content {
		return
	}
	if err := os.MkdirAll(filepath.Dir(path), 0o755); err != nil {
		fatal("%v", err)
	}
	if err := os.WriteFile(path, []byte(content), 0o644); err != nil {
		fatal("%v", err)
	}
	fmt.Fprintf(os.Stderr, "extract: wrote %s\n", path)
}

func main() {
	if len(os.Args) >= 3 && os.Args[1] == "-canon" {
		// extract -canon REPO name...: canonical bodies, for maintaining expectCanon
		r := loadPkg(filepath.Join(os.Args[2], "internal", "reflect"), false)
		for _, n := range os.Args[3:] {
			fmt.Printf("%s\t%q\n", n, canonBody(r, r.funcs[n]))
		}
		return
	}
	if len(os.Args) == 3 && os.Args[1] == "-canonopts" {
		op := loadPkg(filepath.Join(os.Args[2], "internal", "opts"), false)
		fmt.Printf("%q\n", canonBody(op, op.funcs["parseOrDefault"]))
		return
	}
	if len(os.Args) != 4 {
		fatal("usage: extract REPO GOPKGDIR OUTDIR")
	}
	repo, gopkg, out := os.Args[1], os.Args[2], os.Args[3]
	r := loadPkg(filepath.Join(repo, "internal", "reflect"), false)
	g := loadPkg(filepath.Join(gopkg, "protocol", "thrift"), false)
	writeIfChanged(filepath.Join(out, "Params.v"), genParams(r, g))
	writeIfChanged(filepath.Join(out, "Tables.v"), genTables(r))
	genLegacy(repo, out)
	genAccess(repo, out)
	genCacheKey(repo, out)
	genDiscipline(repo, out)
}
