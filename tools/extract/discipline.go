package main

// gen/Discipline.v: small structural facts about the decoder and the default-value comparison that
// the hand-written model builds in: how pooled objects are returned, what tType.Equal compares for
// each kind, and how the depth budget is passed down.

import (
	"fmt"
	"go/ast"
	"path/filepath"
	"sort"
	"strings"
)

func methodDecl(files []goFile, path, recv, name string) *ast.FuncDecl {
	for _, gf := range files {
		if gf.path != path {
			continue
		}
		for _, d := range gf.f.Decls {
			fd, ok := d.(*ast.FuncDecl)
			if ok && fd.Name.Name == name && fd.Recv != nil && len(fd.Recv.List) == 1 && src(fd.Recv.List[0].Type) == recv {
				return fd
			}
		}
	}
	return nil
}

func genDiscipline(repo, out string) {
	files := moduleFiles(repo)
	var b strings.Builder
	b.WriteString(header)
	b.WriteString("From Coq Require Import List String Bool.\nImport ListNotations.\nOpen Scope string_scope.\n\n")

	// ---- pools: (function, pool, how it is returned) ----
	var rows []string
	for _, gf := range files {
		if !strings.HasPrefix(gf.path, "internal/reflect/") {
			continue
		}
		for _, d := range gf.f.Decls {
			fd, ok := d.(*ast.FuncDecl)
			if !ok || fd.Body == nil {
				continue
			}
			fn := fd.Name.Name
			if fd.Recv != nil && len(fd.Recv.List) == 1 {
				fn = strings.TrimPrefix(src(fd.Recv.List[0].Type), "*") + "." + fn
			}
			pools := map[string]bool{}
			ast.Inspect(fd.Body, func(n ast.Node) bool {
				ce, ok := n.(*ast.CallExpr)
				if !ok {
					return true
				}
				se, ok := ce.Fun.(*ast.SelectorExpr)
				if ok && se.Sel.Name == "Get" && len(ce.Args) == 0 && strings.Contains(strings.ToLower(src(se.X)), "pool") {
					pools[src(se.X)] = true
				}
				return true
			})
			for pool := range pools {
				mode := "none"
				ast.Inspect(fd.Body, func(n ast.Node) bool {
					switch st := n.(type) {
					case *ast.DeferStmt:
						if strings.HasPrefix(src(st.Call), pool+".Put(") {
							mode = "defer"
						}
					case *ast.ExprStmt:
						if strings.HasPrefix(src(st.X), pool+".Put(") && mode == "none" {
							mode = "stmt"
						}
					}
					return true
				})
				rows = append(rows, fmt.Sprintf("  (%s, %s, %s)", coqStr(fn), coqStr(pool), coqStr(mode)))
			}
		}
	}
	sort.Strings(rows)
	b.WriteString("(* sync.Pool objects: (function, pool, returned by a deferred Put / a plain statement / not at all) *)\n")
	b.WriteString("Definition pool_modes : list (string * string * string) := [\n" + strings.Join(rows, ";\n") + "\n].\n\n")

	// ---- tType.Equal: what is compared for each kind ----
	rows = nil
	if fd := methodDecl(files, "internal/reflect/ttype.go", "*tType", "Equal"); fd != nil && fd.Body != nil {
		ast.Inspect(fd.Body, func(n ast.Node) bool {
			cc, ok := n.(*ast.CaseClause)
			if !ok {
				return true
			}
			body := ""
			for _, st := range cc.Body {
				body += src(st)
			}
			for _, e := range cc.List {
				rows = append(rows, fmt.Sprintf("  (%s, %s)", coqStr(src(e)), coqStr(body)))
			}
			return true
		})
	}
	sort.Strings(rows)
	b.WriteString("(* Equal method of tType: (kind, statement) *)\n")
	b.WriteString("Definition equal_cases : list (string * string) := [\n" + strings.Join(rows, ";\n") + "\n].\n\n")

	// ---- depth budget ----
	var calls, guards, assigned []string
	for _, name := range []string{"Decode", "decodeType"} {
		fd := methodDecl(files, "internal/reflect/decoder.go", "*tDecoder", name)
		if fd == nil || fd.Body == nil {
			continue
		}
		g := false
		if len(fd.Body.List) > 0 {
			g = src(fd.Body.List[0]) == "ifmaxdepth==0{return0,errDepthLimitExceeded}"
		}
		guards = append(guards, fmt.Sprintf("  (%s, %v)", coqStr(name), g))
		ast.Inspect(fd.Body, func(n ast.Node) bool {
			switch x := n.(type) {
			case *ast.CallExpr:
				if se, ok := x.Fun.(*ast.SelectorExpr); ok && src(se.X) == "d" && (se.Sel.Name == "Decode" || se.Sel.Name == "decodeType") && len(x.Args) > 0 {
					calls = append(calls, fmt.Sprintf("  (%s, %s, %s)", coqStr(name), coqStr(se.Sel.Name), coqStr(src(x.Args[len(x.Args)-1]))))
				}
			case *ast.AssignStmt:
				for _, l := range x.Lhs {
					if src(l) == "maxdepth" {
						assigned = append(assigned, name)
					}
				}
			case *ast.IncDecStmt:
				if src(x.X) == "maxdepth" {
					assigned = append(assigned, name)
				}
			}
			return true
		})
	}
	sort.Strings(calls)
	b.WriteString("(* tDecoder.Decode / decodeType: the first statement is the zero test; (caller, callee, depth argument) of every recursive call; who assigns maxdepth *)\n")
	b.WriteString("Definition depth_guards : list (string * bool) := [\n" + strings.Join(guards, ";\n") + "\n].\n")
	b.WriteString("Definition depth_calls : list (string * string * string) := [\n" + strings.Join(calls, ";\n") + "\n].\n")
	fmt.Fprintf(&b, "Definition depth_assigned : list string := %s.\n\n", coqStrList(uniq(assigned)))

	// ---- the once-per-type computations of desc.go, verbatim (white space removed) ----
	rows = nil
	for _, m := range [][2]string{{"*structDesc", "GetField"}, {"*structDesc", "fromDefsFields"}, {"*tField", "EncodedSize"}, {"*tField", "fromDefsField"}} {
		body := "<missing>"
		if fd := methodDecl(files, "internal/reflect/desc.go", m[0], m[1]); fd != nil && fd.Body != nil {
			body = src(fd.Body)
		}
		rows = append(rows, fmt.Sprintf("  (%s, %s)", coqStr(strings.TrimPrefix(m[0], "*")+"."+m[1]), coqStr(body)))
	}
	for _, gf := range files {
		if gf.path != "internal/reflect/desc.go" {
			continue
		}
		ast.Inspect(gf.f, func(n ast.Node) bool {
			vs, ok := n.(*ast.ValueSpec)
			if ok && len(vs.Names) == 1 && vs.Names[0].Name == "containerTypes" && len(vs.Values) == 1 {
				rows = append(rows, fmt.Sprintf("  (%s, %s)", coqStr("containerTypes"), coqStr(src(vs.Values[0]))))
			}
			return true
		})
	}
	b.WriteString("(* desc.go: how a struct descriptor and its fields are computed from the resolved tags *)\n")
	b.WriteString("Definition desc_bodies : list (string * string) := [\n" + strings.Join(rows, ";\n") + "\n].\n")
	writeIfChanged(filepath.Join(out, "Discipline.v"), b.String())
}
