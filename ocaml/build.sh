#!/bin/sh
# builds the judge from the extracted model (ocaml/gen/model.ml) and judge.ml
set -e
cd "$(dirname "$0")"
mkdir -p _build
cp gen/model.ml gen/model.mli judge.ml _build/
cd _build
ocamlfind ocamlopt -O3 -package zarith -linkpkg -w -a model.mli model.ml judge.ml -o judge 2>/dev/null || \
ocamlfind ocamlopt -package zarith -linkpkg -w -a model.mli model.ml judge.ml -o judge
