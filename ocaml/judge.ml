(* judge.ml -- runs the extracted Coq model (Model) on the cases the Go harness
   executed and compares the projections the properties constrain.
   usage: judge UNIVERSE CASES   (CASES lines: ID <tab> CASE-sexp <tab> OBSERVATION)
   output: ID <tab> ok | ID <tab> FAIL <tab> tags <tab> detail *)
module ZA = Z   (* zarith; the extracted model has its own module Z since EnvParse uses ZArith *)
open Model
(* Model defines Coq's string (used by the access tables); here string is OCaml's *)
type string = Stdlib.String.t

(* ------------------------------------------------------------ s-expressions *)
type sx = A of string | L of sx list

let parse_sx (s : string) : sx list =
  let n = String.length s in
  let pos = ref 0 in
  let rec skip () = if !pos < n && (s.[!pos] = ' ' || s.[!pos] = '\t' || s.[!pos] = '\n') then (incr pos; skip ()) in
  let rec item () =
    skip ();
    if !pos >= n then failwith "sexp: eof";
    if s.[!pos] = '(' then begin
      incr pos;
      let acc = ref [] in
      let rec loop () =
        skip ();
        if !pos >= n then failwith "sexp: unclosed";
        if s.[!pos] = ')' then incr pos else (acc := item () :: !acc; loop ()) in
      loop ();
      L (List.rev !acc)
    end else begin
      let st = !pos in
      while !pos < n && not (List.mem s.[!pos] [' '; '('; ')'; '\t'; '\n']) do incr pos done;
      if !pos = st then failwith "sexp: unexpected )";
      A (String.sub s st (!pos - st))
    end in
  let acc = ref [] in
  let rec top () = skip (); if !pos < n then (acc := item () :: !acc; top ()) in
  top ();
  List.rev !acc

(* ------------------------------------------------------------ numbers, bytes *)
let rec pos_of_z (z : ZA.t) : positive =
  if ZA.equal z ZA.one then XH
  else if ZA.testbit z 0 then XI (pos_of_z (ZA.shift_right z 1))
  else XO (pos_of_z (ZA.shift_right z 1))

let n_of_z (z : ZA.t) : n = if ZA.sign z <= 0 then N0 else Npos (pos_of_z z)
let n_of_int (i : int) : n = n_of_z (ZA.of_int i)

let rec z_of_pos = function
  | XH -> ZA.one
  | XO p -> ZA.shift_left (z_of_pos p) 1
  | XI p -> ZA.succ (ZA.shift_left (z_of_pos p) 1)
let z_of_n = function N0 -> ZA.zero | Npos p -> z_of_pos p
let int_of_n x = ZA.to_int (z_of_n x)
let n_of_string s = n_of_z (ZA.of_string s)
let string_of_n x = ZA.to_string (z_of_n x)

let rec nat_of_int i = if i <= 0 then O else S (nat_of_int (i - 1))
let rec int_of_nat = function O -> 0 | S k -> 1 + int_of_nat k

let byte_tab = Array.init 256 n_of_int

let bytes_of_hex (h : string) : n list =
  if h = "-" then [] else begin
    let l = String.length h / 2 in
    List.init l (fun i -> byte_tab.(int_of_string ("0x" ^ String.sub h (2 * i) 2)))
  end

let hex_of_bytes (bs : n list) : string =
  let b = Buffer.create 64 in
  List.iter (fun x -> Buffer.add_string b (Printf.sprintf "%02x" (int_of_n x land 255))) bs;
  if Buffer.length b = 0 then "-" else Buffer.contents b

let string_of_hex h =
  if h = "-" then "" else
    String.init (String.length h / 2) (fun i -> Char.chr (int_of_string ("0x" ^ String.sub h (2 * i) 2)))

(* ------------------------------------------------------------ universe *)
let rec ty_of_sx = function
  | A "bool" -> TBool | A "i8" -> TI8 | A "i16" -> TI16 | A "i32" -> TI32 | A "i64" -> TI64
  | A "double" -> TDouble | A "enum" -> TEnum | A "string" -> TString | A "binary" -> TBinary
  | L [A "list"; e] -> TList (false, ty_of_sx e)
  | L [A "set"; e] -> TList (true, ty_of_sx e)
  | L [A "map"; k; v] -> TMap (ty_of_sx k, ty_of_sx v)
  | L [A "struct"; A sid] -> TStruct (n_of_string sid)
  | L [A "ptr"; t] -> TPtr (ty_of_sx t)
  | _ -> failwith "bad type"

let rec val_of_sx = function
  | L [A "s"; A x] -> VS (n_of_string x)
  | L [A "b"] -> VB (false, [])
  | L [A "b"; A h] -> VB (false, bytes_of_hex h)
  | L [A "bn"] -> VB (true, [])
  | L [A "ln"] -> VL None
  | L (A "l" :: es) -> VL (Some (List.map val_of_sx es))
  | L [A "mn"] -> VM None
  | L (A "m" :: es) ->
      let rec pairs = function
        | k :: v :: r -> (val_of_sx k, val_of_sx v) :: pairs r
        | [] -> []
        | _ -> failwith "odd map" in
      VM (Some (pairs es))
  | L [A "pn"] -> VP None
  | L [A "p"; v] -> VP (Some (val_of_sx v))
  | L (A "t" :: A h :: fs) -> VT (List.map val_of_sx fs, bytes_of_hex h)
  | _ -> failwith "bad value"

let rec sx_of_val (b : Buffer.t) (v : val0) : unit =
  match v with
  | VS x -> Buffer.add_string b "(s "; Buffer.add_string b (string_of_n x); Buffer.add_char b ')'
  | VB (true, _) -> Buffer.add_string b "(bn)"
  | VB (false, []) -> Buffer.add_string b "(b)"
  | VB (false, s) -> Buffer.add_string b "(b "; Buffer.add_string b (hex_of_bytes s); Buffer.add_char b ')'
  | VL None -> Buffer.add_string b "(ln)"
  | VL (Some l) -> Buffer.add_string b "(l"; List.iter (fun e -> Buffer.add_char b ' '; sx_of_val b e) l; Buffer.add_char b ')'
  | VM None -> Buffer.add_string b "(mn)"
  | VM (Some m) ->
      Buffer.add_string b "(m";
      List.iter (fun (k, v) -> Buffer.add_char b ' '; sx_of_val b k; Buffer.add_char b ' '; sx_of_val b v) m;
      Buffer.add_char b ')'
  | VP None -> Buffer.add_string b "(pn)"
  | VP (Some v) -> Buffer.add_string b "(p "; sx_of_val b v; Buffer.add_char b ')'
  | VT (fs, h) ->
      Buffer.add_string b "(t "; Buffer.add_string b (hex_of_bytes h);
      List.iter (fun e -> Buffer.add_char b ' '; sx_of_val b e) fs; Buffer.add_char b ')'

let str_of_val v = let b = Buffer.create 256 in sx_of_val b v; Buffer.contents b

(* canonical form: map entries sorted by their printed form; a nil holder and
   an empty holder are the same observation *)
let rec canon_val (v : val0) : val0 =
  match v with
  | VL (Some l) -> VL (Some (List.map canon_val l))
  | VM (Some m) ->
      let m' = List.map (fun (k, v) -> (canon_val k, canon_val v)) m in
      let keyed = List.map (fun (k, v) -> ((str_of_val k, str_of_val v), (k, v))) m' in
      VM (Some (List.map snd (List.sort (fun (a, _) (b, _) -> compare a b) keyed)))
  | VP (Some v) -> VP (Some (canon_val v))
  | VT (fs, h) -> VT (List.map canon_val fs, h)
  | _ -> v

let req_of = function "default" -> RDefault | "required" -> RRequired | "optional" -> ROptional | _ -> failwith "req"

type uni = { env : senv; names : (string, int) Hashtbl.t; fnames : string list array;
             gu : gostruct list; intended : senv; valid : bool Lazy.t array; invalid : string list }

let str_of_string (s : string) : n list = List.init (String.length s) (fun i -> byte_tab.(Char.code s.[i]))
let string_of_str (l : n list) : string = String.concat "" (List.map (fun x -> String.make 1 (Char.chr (int_of_n x land 255))) l)

let rec gotype_of_sx = function
  | A "bool" -> GBool | A "int" -> GInt | A "int8" -> GInt8 | A "int16" -> GInt16 | A "int32" -> GInt32
  | L [A "int64"; A "-"] -> GInt64 [] | L [A "int64"; A nm] -> GInt64 (str_of_string nm)
  | A "float64" -> GFloat64 | A "string" -> GString | A "uint8" -> GUint8
  | L [A "slice"; e] -> GSlice (gotype_of_sx e)
  | L [A "map"; k; v] -> GMap (gotype_of_sx k, gotype_of_sx v)
  | L [A "ptr"; t] -> GPtr (gotype_of_sx t)
  | L [A "struct"; A sid; A nm] -> GStruct (n_of_string sid, if nm = "-" then [] else str_of_string nm)
  | L [A "unsup"; A k] -> GUnsup (n_of_string k)
  | _ -> failwith "bad gotype"

let load_universe (file : string) : uni =
  let ic = open_in_bin file in
  let s = really_input_string ic (in_channel_length ic) in
  close_in ic;
  let names = Hashtbl.create 64 in
  let items = parse_sx s in
  let envx = List.find (function L (A "env" :: _) -> true | _ -> false) items in
  let gux = List.find (function L (A "gouniverse" :: _) -> true | _ -> false) items in
  let sds = match envx with L (_ :: l) -> l | _ -> [] in
  let fnames = Array.make (List.length sds) [] in
  let intended = List.mapi (fun i sd ->
    match sd with
    | L (A "sd" :: A name :: A holder :: init :: fs) ->
        Hashtbl.replace names name i;
        let sinit = match init with
          | A "noinit" -> None
          | L (A "init" :: asg) ->
              Some (List.map (function L [A i; v] -> (nat_of_int (int_of_string i), val_of_sx v) | _ -> failwith "asg") asg)
          | _ -> failwith "init" in
        let fields = List.map (function
          | L [A "f"; A id; t; A r; A nc; d; A fname] ->
              fnames.(i) <- fnames.(i) @ [fname];
              { fid = n_of_string id; fty = ty_of_sx t; freq = req_of r; fnocopy = (nc = "1");
                fdflt = (match d with A "nodflt" -> None | v -> Some (val_of_sx v)) }
          | _ -> failwith "field") fs in
        { sfields = fields; sholder = (holder = "1"); sinit }
    | _ -> failwith "sd") sds in
  let gu = match gux with
    | L (_ :: l) -> List.map (function
        | L (A "gs" :: A name :: init :: fs) ->
            let gs_init = match init with
              | A "noinit" -> None
              | L (A "init" :: asg) ->
                  Some (List.map (function L [A i; v] -> (nat_of_int (int_of_string i), val_of_sx v) | _ -> failwith "asg") asg)
              | _ -> failwith "ginit" in
            { gs_name = str_of_string name; gs_init;
              gs_fields = List.map (function
                | L [A "gf"; A nm; t; A tag; A ex; A an] ->
                    { gf_name = str_of_string nm; gf_type = gotype_of_sx t;
                      gf_tag = (if tag = "-" then [] else bytes_of_hex tag);
                      gf_exported = (ex = "1"); gf_anonymous = (an = "1") }
                | _ -> failwith "gf") fs }
        | _ -> failwith "gs") l
    | _ -> [] in
  (* the environment the judge uses is the one the MODEL's tag parser builds *)
  let env = build_env gu in
  let ru = lazy (resolve_universe gu) in
  let valid = Array.of_list (List.mapi (fun i _ -> lazy (accepted_with (Lazy.force ru) (n_of_int i))) gu) in
  let invalid = match List.find_opt (function L (A "invalid" :: _) -> true | _ -> false) items with
    | Some (L (_ :: l)) -> List.map (function A x -> x | _ -> "?") l | _ -> [] in
  { env; names; fnames; gu; intended; valid; invalid }

(* ------------------------------------------------------------ wire canon *)
let rec canon_tv (w : tv) : tv =
  match w with
  | WStruct (fs, raw) -> WStruct (List.map (fun (i, v) -> (i, canon_tv v)) fs, raw)
  | WList (s, c, es) -> WList (s, c, List.map canon_tv es)
  | WMap (kc, vc, es) ->
      let es' = List.map (fun (k, v) -> (canon_tv k, canon_tv v)) es in
      let keyed = List.map (fun (k, v) -> ((hex_of_bytes (put k), hex_of_bytes (put v)), (k, v))) es' in
      WMap (kc, vc, List.map snd (List.sort (fun (a, _) (b, _) -> compare a b) keyed))
  | _ -> w

let depth_fuel = nat_of_int 4096

(* canonical bytes of a struct message, or None if it does not parse exactly *)
let canon_bytes (bs : n list) : string option =
  match parse_struct depth_fuel bs with
  | POk (w, []) ->
      if put w = bs then Some (hex_of_bytes (put (canon_tv w))) else None
  | _ -> None

(* ------------------------------------------------------------ observations *)
let has_sub (s : string) (sub : string) : bool =
  let n = String.length s and m = String.length sub in
  let rec go i = i + m <= n && (String.sub s i m = sub || go (i + 1)) in
  m = 0 || go 0

type verdict = { mutable tags : string list; mutable detail : string list }
let fail v tag d = v.tags <- tag :: v.tags; v.detail <- d :: v.detail

let derr_name = function
  | EShort -> "short" | ENegSize -> "negsize" | ESizeExceeds -> "sizeexceeds" | ETypeMismatch -> "typemismatch"
  | EDepth -> "depth" | ERequired i -> "required:" ^ string_of_n i | ESkip SkDepth -> "skip-depth"
  | ESkip SkShort -> "skip-short" | ESkip SkDataLength -> "skip-datalength" | ESkip SkUnknownType -> "skip-unknowntype"
  | EUnknownType -> "unknowntype" | EInternal -> "internal"

(* Go names of the fields with this id, in any struct of the universe (the
   missing required field may belong to a nested struct) *)
let field_names (u : uni) (id : n) : string list =
  List.concat (List.mapi (fun sid sd ->
    let rec go fs ns = match fs, ns with
      | f :: fr, nm :: nr -> if f.fid = id then nm :: go fr nr else go fr nr
      | _ -> [] in
    go sd.sfields u.fnames.(sid)) u.env)

(* compare a decode observation with the model's outcome *)
let check_decode (u : uni) (v : verdict) (sid : int) (model : (val0 * n) dres) (obs : sx) (pfx : string) : unit =
  match model, obs with
  | DOk ((mv, mn), _), L [A "ok"; A gn; gv] ->
      if string_of_n mn <> gn then fail v (pfx ^ "n") (Printf.sprintf "consumed: model %s impl %s" (string_of_n mn) gn);
      let gs = str_of_val (canon_val (val_of_sx gv)) and ms = str_of_val (canon_val mv) in
      if gs <> ms then fail v (pfx ^ "value") (Printf.sprintf "value: model %s impl %s" ms gs)
  | DOk ((mv, _), _), L (A "err" :: A cls :: _) ->
      fail v (pfx ^ "err-vs-ok") (Printf.sprintf "impl error (%s), model ok %s" cls (str_of_val mv))
  | DErr e, L [A "ok"; _; _] ->
      fail v (pfx ^ "ok-vs-err") (Printf.sprintf "impl ok, model error %s" (derr_name e))
  | DErr e, L [A "err"; A cls; A msg] ->
      (match e with
       | ERequired id ->
           let nms = field_names u id in
           if cls <> "pe1" then fail v (pfx ^ "errclass") ("required: impl class " ^ cls);
           if not (List.exists (fun nm -> has_sub (string_of_hex msg) ("\"" ^ nm ^ "\"")) nms) then
             fail v (pfx ^ "errfield") (Printf.sprintf "required: model names field id %s, impl says %s" (string_of_n id) (string_of_hex msg))
       | EDepth | ESkip SkDepth -> if cls <> "pe6" then fail v (pfx ^ "errclass") ("depth: impl class " ^ cls)
       | _ -> ())
  | _, L (A "panic" :: A msg :: _) ->
      fail v "panic" ("impl panic: " ^ string_of_hex msg ^ (match model with DOk _ -> " (model ok)" | DErr e -> " (model " ^ derr_name e ^ ")" | DPanic -> " (model panic)" | DFuel -> " (model fuel)"))
  | DPanic, _ -> fail v "model-panic" "model reaches a panic outcome"
  | DFuel, _ -> fail v "model-fuel" "model ran out of fuel"
  | _, L (A "crash" :: A msg :: _) -> fail v "crash" ("impl process died: " ^ string_of_hex msg)
  | _, _ -> fail v "harness" "unparsable observation"

let sid_of (u : uni) (name : string) : int =
  try Hashtbl.find u.names name with Not_found -> failwith ("unknown type " ^ name)

let rec judge_case (u : uni) (case : sx) (obs : sx list) : verdict =
  let v = { tags = []; detail = [] } in
  (match obs with
   | [L (A "crash" :: A msg :: _)] -> fail v "crash" ("impl process died: " ^ string_of_hex msg)
   | _ ->
  match case with
   | L (A "enc" :: A tname :: A _mode :: vx :: _) ->
       let sid = sid_of u tname in
       let nsid = n_of_int sid in
       let mv = val_of_sx vx in
       if not (has_type u.env (TStruct nsid) mv) then fail v "gen-illtyped" "generated value is not well-typed in the model";
       let ib = append_struct u.env nsid mv in         (* implementation-shaped model (generated tables) *)
       let mb = encode_spec u.env nsid mv in            (* the reference: put (denote v) *)
       let ms = n_of_int (List.length mb) in
       if ib <> mb then fail v "model-encode-ne-spec" "model: append_struct (generated tables) differs from put (denote v)";
       if int_of_n (encoded_size u.env nsid mv) <> List.length mb then fail v "model-size-ne-len" "model: encoded_size differs from the length of put (denote v)";
       (match obs with
        | L [A "size"; A gs] :: L [A "ok"; A gn; A gh] :: A guard :: A same :: second :: _ ->
            if gs <> gn then fail v "prop-size" (Printf.sprintf "EncodedSize %s but EncodeObject wrote %s" gs gn);
            if gs <> string_of_n ms then fail v "corr-size" (Printf.sprintf "size: model %s impl %s" (string_of_n ms) gs);
            let gb = bytes_of_hex gh in
            (match canon_bytes gb, canon_bytes mb with
             | Some g, Some m -> if g <> m then fail v "corr-bytes" (Printf.sprintf "bytes: model %s impl %s" (hex_of_bytes mb) gh)
             | None, _ -> fail v "prop-malformed" ("encoder output is not a well-formed struct: " ^ gh)
             | _, None -> fail v "model-malformed" "model output does not parse");
            if guard <> "guard-ok" then fail v "prop-guard" guard;
            if same <> "value-same" then fail v "prop-mutated" "value changed by EncodedSize/EncodeObject";
            (match second with
             | L [A "ok"; _; A gh2] ->
                 if canon_bytes (bytes_of_hex gh2) <> canon_bytes gb then fail v "prop-repeat" "second encoding differs"
             | _ -> fail v "prop-repeat" "second encoding failed")
        | L [A "sizepanic"; A m] :: _ -> fail v "corr-sizepanic" ("EncodedSize panicked: " ^ string_of_hex m)
        | L [A "size"; _] :: L (A "err" :: A cls :: A m :: _) :: _ -> fail v "corr-encerr" ("EncodeObject error " ^ cls ^ ": " ^ string_of_hex m)
        | L [A "size"; _] :: L (A "panic" :: A m :: _) :: _ -> fail v "panic" ("EncodeObject panicked: " ^ string_of_hex m)
        | _ -> fail v "harness" ("unparsable observation"))
   | L [A "encbuf"; A tname; A _mode; vx; A blen; A _spare] ->
       let sid = sid_of u tname in
       let nsid = n_of_int sid in
       let mv = val_of_sx vx in
       let mb = encode_spec u.env nsid mv in
       let need = List.length mb and blen = int_of_string blen in
       (match obs with
        | L [A "ok"; A gn; A gh] :: A guard :: _ ->
            if need > blen then fail v "prop-short-accepted" (Printf.sprintf "buffer of %d accepted for a %d-byte message" blen need)
            else begin
              if int_of_string gn <> need then fail v "corr-n" (Printf.sprintf "n: model %d impl %s" need gn);
              if canon_bytes (bytes_of_hex gh) <> canon_bytes mb then fail v "corr-bytes" "bytes differ"
            end;
            if guard <> "guard-ok" then fail v "prop-guard" guard
        | L (A "err" :: _) :: A guard :: _ ->
            if need <= blen then fail v "prop-fit-rejected" (Printf.sprintf "buffer of %d rejected for a %d-byte message" blen need);
            if guard <> "guard-ok" then fail v "prop-guard" guard
        | L (A "panic" :: A m :: _) :: _ -> fail v "panic" ("EncodeObject panicked: " ^ string_of_hex m)
        | _ -> fail v "harness" ("unparsable observation"))
   | L (A "hammer" :: A tname :: A _mode :: A _ms :: vxs) ->
       let nsid = n_of_int (sid_of u tname) in
       let want = List.map (fun vx -> List.length (encode_spec u.env nsid (val_of_sx vx))) vxs in
       (match obs with
        | [L (A "ref" :: rs); L [A "badsize"; A bs]; L [A "badbytes"; A bb]; L [A "errors"; A er]; L [A "panics"; A pn]; L [A "calls"; A _]] ->
            let got = List.map (function A x -> int_of_string x | _ -> -1) rs in
            if got <> want then fail v "corr-size" "sequential reference sizes differ from the model";
            if bs <> "0" then fail v "prop-size" (Printf.sprintf "%s concurrent EncodedSize calls returned a wrong size" bs);
            if bb <> "0" then fail v "corr-bytes" (Printf.sprintf "%s concurrent EncodeObject calls wrote wrong bytes" bb);
            if bs <> "0" || bb <> "0" then fail v "prop-repeat" "encoding the same unmodified value again gave another result (concurrent callers of the same type)";
            if er <> "0" then fail v "prop-fit-rejected" (Printf.sprintf "%s concurrent EncodeObject calls failed on a sufficient buffer" er);
            if pn <> "0" then fail v "panic" (Printf.sprintf "%s concurrent calls panicked" pn)
        | _ -> fail v "harness" "unparsable observation")
   | L [A "rt"; A tname; A _mode; vx] ->
       let sid = sid_of u tname in
       let nsid = n_of_int sid in
       let mv = val_of_sx vx in
       if not (has_type u.env (TStruct nsid) mv) then fail v "gen-illtyped" "generated value is not well-typed in the model";
       let mb = encode_spec u.env nsid mv in
       (match obs with
        | [L [A "size"; _]; L [A "ok"; _; A gh]; dobs] ->
            let gb = bytes_of_hex gh in
            (* correspondence: the model decodes the very bytes the implementation produced *)
            let md = decode_object u.env [] nsid gb (fresh u.env nsid) in
            check_decode u v sid md dobs "corr-";
            (* property: the result is the model's round trip of the value *)
            let mr = decode_object u.env [] nsid mb (fresh u.env nsid) in
            (* model-side test of the C01 statement: under its hypotheses the round trip is norm_top v *)
            let t0 = TStruct nsid in
            if holders_empty mv && enums32 u.env t0 mv && req_complete u.env t0 mv then begin
              match mr with
              | DOk ((rv, rn), _) ->
                  if not (val_eqb rv (norm_top u.env nsid mv)) then
                    fail v "model-rt-ne-norm" (Printf.sprintf "decode(encode v) %s, norm v %s" (str_of_val rv) (str_of_val (norm_top u.env nsid mv)));
                  if int_of_n rn <> List.length mb then fail v "model-rt-n" "model round trip does not consume the message"
              | _ -> fail v "model-rt-fail" "model round trip fails although the value meets the hypotheses of C01"
            end;
            (match mr, dobs with
             | DOk ((rv, _), _), L [A "ok"; A gn; gv] ->
                 if int_of_string gn <> List.length gb then fail v "prop-rt-n" "decode did not consume the encoded length";
                 if str_of_val (canon_val rv) <> str_of_val (canon_val (val_of_sx gv)) then
                   fail v "prop-rt-value" (Printf.sprintf "round trip: expected %s got %s" (str_of_val (canon_val rv)) (str_of_val (canon_val (val_of_sx gv))))
             | DOk _, _ -> fail v "prop-rt-fail" "round trip failed in the implementation"
             | DErr (ERequired _), L (A "err" :: _) -> ()   (* value lacks a required nested struct: both reject *)
             | _, _ -> fail v "model-rt-fail" "model round trip fails")
        | L [A "sizepanic"; A m] :: _ -> fail v "corr-sizepanic" ("EncodedSize panicked: " ^ string_of_hex m)
        | [L [A "size"; _]; L (A "err" :: A cls :: A m :: _)] -> fail v "corr-encerr" ("EncodeObject error " ^ cls ^ ": " ^ string_of_hex m)
        | [L [A "size"; _]; L (A "panic" :: A m :: _)] -> fail v "panic" ("EncodeObject panicked: " ^ string_of_hex m)
        | _ -> fail v "harness" ("unparsable observation"))
   | L [A "dec"; A tname; dst; A hx] ->
       let sid = sid_of u tname in
       let nsid = n_of_int sid in
       let bs = bytes_of_hex hx in
       let d = match dst with
         | A "fresh" -> fresh u.env nsid
         | A "zero" -> zero_of u.env (TStruct nsid)
         | x -> val_of_sx x in
       let md = decode_object u.env [] nsid bs d in
       (* model-side: the reference decoder agrees with the implementation-shaped one on
          every input that is a well-formed message within the depth budgets *)
       (match (if List.length bs > 20000 then PErr else parse_struct depth_fuel bs) with
        | POk (w, rest) when wf w ->
            let nd = int_of_nat (need u.env (TStruct nsid) w) - 1 and sk = int_of_nat (skipped_depth u.env (TStruct nsid) w) in
            if nd <= int_of_n maxDepthLimit && sk <= 64 then begin
              let consumed = List.length bs - List.length rest in
              (* the implementation against the REFERENCE decoder (independent of the generated
                 constants): a well-formed message must be read as the reference reads it *)
              (match absorb_top u.env nsid w d, obs with
               | AOk av, dobs :: _ -> check_decode u v sid (DOk ((av, n_of_int consumed), [])) dobs "ref-"
               | AMissing i, dobs :: _ -> check_decode u v sid (DErr (ERequired i)) dobs "ref-"
               | AMismatch, dobs :: _ -> check_decode u v sid (DErr ETypeMismatch) dobs "ref-"
               | _ -> ());
              (match absorb_top u.env nsid w d, md with
               | AOk av, DOk ((mv, mn), _) ->
                   if not (val_eqb av mv) then fail v "model-absorb-ne-decode" (Printf.sprintf "absorb %s decode %s" (str_of_val av) (str_of_val mv));
                   if int_of_n mn <> consumed then fail v "model-absorb-n" "consumed length differs from the parse"
               | (AMismatch | AMissing _), DErr _ -> ()
               | a, _ -> fail v "model-absorb-ne-decode" (Printf.sprintf "absorb %s but decode %s"
                           (match a with AOk _ -> "ok" | AMismatch -> "mismatch" | AMissing _ -> "missing" | ABad -> "bad")
                           (match md with DOk _ -> "ok" | DErr e -> derr_name e | DPanic -> "panic" | DFuel -> "fuel")))
            end
        | _ -> ());
       (match obs with
        | dobs :: A same :: _ ->
            check_decode u v sid md dobs "corr-";
            if same <> "input-same" then fail v "prop-input-mutated" "DecodeObject modified its input"
        | _ -> fail v "harness" ("unparsable observation"))
   | L [A "hop"; A tname; A hx] ->
       let sid = sid_of u tname in
       let nsid = n_of_int sid in
       let bs = bytes_of_hex hx in
       let md = decode_object u.env [] nsid bs (fresh u.env nsid) in
       (match obs with
        | dobs :: rest ->
            check_decode u v sid md dobs "corr-";
            (match md, rest with
             | DOk ((mv, _), _), [L [A "size"; A gs]; L [A "ok"; A gn; A gh]] ->
                 let mb = encode_spec u.env nsid mv in
                 if gs <> gn then fail v "prop-size" (Printf.sprintf "EncodedSize %s but EncodeObject wrote %s" gs gn);
                 if int_of_string gn <> List.length mb then fail v "corr-size" (Printf.sprintf "re-encoded size: model %d impl %s" (List.length mb) gn);
                 (match canon_bytes (bytes_of_hex gh), canon_bytes mb with
                  | Some g, Some m -> if g <> m then fail v "corr-bytes" (Printf.sprintf "re-encoded bytes: model %s impl %s" (hex_of_bytes mb) gh)
                  | None, _ -> fail v "prop-malformed" ("re-encoded output is not a well-formed struct: " ^ gh)
                  | _, None -> fail v "model-malformed" "model output does not parse")
             | DOk _, _ -> fail v "corr-hop" "re-encoding failed in the implementation"
             | _, _ -> ())
        | _ -> fail v "harness" "unparsable observation")
   | L (A "desc" :: A tname :: probes) ->
       (* the once-per-type computation of desc.go against the model's reading of the schema *)
       let sid = sid_of u tname in
       let sd = List.nth u.env sid in
       let b2s b = if b then "1" else "0" in
       let model =
         String.concat "" (List.map (fun (f : field) ->
           let fx = field_fixed_size f in
           Printf.sprintf "(f %s %s %s %s %s)" (string_of_n f.fid) (b2s (can_skip_nil f)) (b2s (can_skip_default f)) (b2s f.fnocopy)
             (if fx = N0 then "-1" else string_of_n fx)) sd.sfields)
         ^ "(req" ^ String.concat "" (List.map (fun i -> " " ^ string_of_n i) (required_ids sd)) ^ ")"
         ^ "(get" ^ String.concat "" (List.map (function
             | A p -> (match get_field sd (n_of_string p) with Some (_, f) -> " " ^ string_of_n f.fid | None -> " -1")
             | _ -> " ?") probes) ^ ")"
         ^ "(holder " ^ b2s sd.sholder ^ ")" in
       let render l =
         let rec r = function A a -> a | L l -> "(" ^ String.concat " " (List.map r l) ^ ")" in
         String.concat "" (List.map r l) in
       (match obs with
        | [L (A "ok" :: l)] ->
            let impl = render l in
            if impl <> model then fail v "corr-desc" (Printf.sprintf "descriptor: model %s impl %s" model impl)
        | [L (A "panic" :: A m :: _)] -> fail v "panic" ("descriptor construction panicked: " ^ string_of_hex m)
        | _ -> fail v "harness" "unparsable observation")
   | L [A "resolve"; A tname] ->
       let sid = sid_of u tname in
       let gs = List.nth u.gu sid in
       let rec dstr (DT (t, k, v, sidn)) =
         let sub = function Some d -> dstr d | None -> "?" in
         match t with
         | DBool -> "bool" | DI8 -> "i8" | DDouble -> "double" | DI16 -> "i16" | DI32 -> "i32" | DI64 -> "i64"
         | DString -> "string" | DEnum -> "enum" | DBinary -> "binary"
         | DStruct -> string_of_str (List.nth u.gu (int_of_n sidn)).gs_name
         | DMap -> "map<" ^ sub k ^ ":" ^ sub v ^ ">"
         | DSet -> "set<" ^ sub v ^ ">" | DList -> "list<" ^ sub v ^ ">"
         | DPointer -> "*" ^ sub v in
       let model = match resolve_fields gs with
         | RErr -> None
         | ROk dfs -> Some (String.concat "" (List.map (fun d ->
             Printf.sprintf "(f %s %s %d %s)" (string_of_n d.d_id)
               (match d.d_req with RDefault -> "default" | RRequired -> "required" | ROptional -> "optional")
               (if d.d_nocopy then 1 else 0) (dstr d.d_type)) dfs)) in
       let render l = String.concat "" (List.map (function
         | L [A "f"; A a; A b; A c; A d] -> Printf.sprintf "(f %s %s %s %s)" a b c d
         | _ -> "?") l) in
       (match model, obs with
        | Some m, [L (A "ok" :: l)] -> if render l <> m then fail v "corr-resolve" (Printf.sprintf "schema: model %s impl %s" m (render l))
        | None, [L (A "err" :: _)] -> ()
        | Some m, [L (A "err" :: _ :: A msg :: _)] -> fail v "corr-resolve-rejected" ("impl rejects (" ^ string_of_hex msg ^ "), model accepts " ^ m)
        | None, [L (A "ok" :: l)] -> fail v "corr-resolve-accepted" ("impl accepts an invalid definition: " ^ render l)
        | _, [L (A "panic" :: A msg :: _)] -> fail v "panic" ("resolver panicked: " ^ string_of_hex msg)
        | _ -> fail v "harness" "unparsable observation")
   | L [A "api3"; A tname] ->
       let sid = sid_of u tname in
       let okk = Lazy.force u.valid.(sid) in
       (match obs with
        | [A s1; A e1; A d1; A s2; A e2; A d2] ->
            if okk then begin
              let base x = List.hd (String.split_on_char '+' x) in
              (* the probe message need not fit the type (required fields): decoding may fail, but not panic *)
              if List.map base [s1; e1; s2; e2] <> ["ok"; "ok"; "ok"; "ok"] || base d1 <> base d2 || base d1 = "panic" || base d1 = "other" then
                fail v "prop-valid-rejected" (String.concat " " [s1; e1; d1; s2; e2; d2])
            end else begin
              (* EncodedSize: ordinary panic; EncodeObject / DecodeObject: error; nothing written; same on every call *)
              if s1 <> "panic" || s2 <> "panic" then fail v "prop-invalid-size" (s1 ^ " " ^ s2);
              if e1 <> "err" || e2 <> "err" then fail v "prop-invalid-enc" (e1 ^ " " ^ e2);
              if d1 <> "err" || d2 <> "err" then fail v "prop-invalid-dec" (d1 ^ " " ^ d2)
            end
        | _ -> fail v "harness" "unparsable observation")
   | L [A "badarg"; A kind] ->
       (match obs with
        | [A sz; A e; A d] ->
            let shape = match kind with
              | "nil" -> AInvalid
              | "nilptr" -> APtr (true, AStruct)
              | "ptr" -> APtr (false, AStruct)
              | "struct" -> AStruct
              | "ptrptr" -> APtr (false, APtr (false, AStruct))
              | "nilptrptr" -> APtr (true, APtr (false, AStruct))
              | "ptrint" | "ptrslice" | "ptrmap" | "ptriface" -> APtr (false, AOther)
              | "nilptrint" -> APtr (true, AOther)
              | _ -> AOther in
            (* a call that passes the argument checks runs on a zero Leaf: size and encode succeed,
               decoding the one byte 00 succeeds *)
            let cls_size = function ArgProceed -> "ok" | ArgError -> "err" | ArgPanic -> "panic" in
            let want = (cls_size (size_arg shape), cls_size (encode_arg shape), cls_size (decode_arg shape)) in
            if (sz, e, d) <> want then fail v "prop-badarg" (Printf.sprintf "%s: got %s %s %s" kind sz e d)
        | _ -> fail v "harness" "unparsable observation")
   | L (A "span" :: reqs) ->
       let rq = List.map (function L [A n; A a] -> (n_of_string n, n_of_string a) | _ -> failwith "span req") reqs in
       let model = List.map (fun g -> (int_of_n g.rg_blk, int_of_n g.rg_off)) (span_run span_init rq) in
       (match obs with
        | [L (A "ok" :: rs)] ->
            let impl = List.map (function L [A b; A o; A _] -> (int_of_string b, int_of_string o) | _ -> (-1, -1)) rs in
            if impl <> model then fail v "corr-span" (Printf.sprintf "span: model %s impl %s"
              (String.concat " " (List.map (fun (b, o) -> Printf.sprintf "%d:%d" b o) model))
              (String.concat " " (List.map (fun (b, o) -> Printf.sprintf "%d:%d" b o) impl)))
        | _ -> fail v "harness" "unparsable observation")
   | L (A "bitset" :: ops) ->
       let os = List.map (function L [A o; A i] -> (n_of_string o, n_of_string i) | _ -> failwith "bitset op") ops in
       let model = List.map (fun b -> if b then "1" else "0") (bs_run bs_zero os) in
       (match obs with
        | [L (A "ok" :: rs)] ->
            let impl = List.map (function A x -> x | _ -> "?") rs in
            if impl <> model then fail v "corr-bitset" (Printf.sprintf "bitset: model %s impl %s" (String.concat "" model) (String.concat "" impl))
        | _ -> fail v "harness" "unparsable observation")
   | L (A "descmap" :: ops) ->
       let os = List.map (function
         | L [A o; A k; A x] -> ((n_of_string o, n_of_string k), n_of_string x)
         | L [A o; A k] -> ((n_of_string o, n_of_string k), N0)
         | _ -> failwith "descmap op") ops in
       let model = List.map string_of_n (dm_run dm_empty os) in
       (match obs with
        | [L (A "ok" :: rs)] ->
            let impl = List.map (function A x -> x | _ -> "?") rs in
            if impl <> model then fail v "corr-descmap" (Printf.sprintf "descmap: model %s impl %s" (String.concat " " model) (String.concat " " impl))
        | _ -> fail v "harness" "unparsable observation")
   | L (A "unknown" :: A hx :: adds) ->
       let b = string_of_hex hx in
       let model = String.concat "" (List.map (function
         | L [A o; A z] -> (try String.sub b (int_of_string o) (int_of_string z) with _ -> "<out-of-range>")
         | _ -> "") adds) in
       (match obs with
        | [L [A "ok"; A h]] -> if string_of_hex h <> model then fail v "corr-unknown" "unknown-field copy differs"
        | _ -> fail v "harness" "unparsable observation")
   | L (A "unknownops" :: A hx :: ops) ->
       let b = bytes_of_hex hx in
       let os = List.map (function
         | L [A o; A x; A y] -> (n_of_string o, (n_of_string x, n_of_string y))
         | L [A o] -> (n_of_string o, (N0, N0))
         | _ -> failwith "unknownops op") ops in
       let model = uf_run uf_new b os in
       (match obs with
        | [L (A "ok" :: rs)] ->
            let rec cmp ms rs = match ms, rs with
              | [], [] -> ()
              | UPanic :: _, [A "panic"] -> ()
              | UBytes g :: mr, A h :: rr ->
                  if bytes_of_hex h <> g then fail v "corr-unknown" "recorder copy differs from the recorded extents" else cmp mr rr
              | UNum n :: mr, A h :: rr ->
                  if string_of_hex h <> string_of_n n then fail v "corr-unknown" ("recorder size: model " ^ string_of_n n ^ " impl " ^ string_of_hex h) else cmp mr rr
              | UJunk :: _, _ -> fail v "harness" "generated operations expose the allocation (generator error)"
              | _, _ -> fail v "corr-unknown" "recorder outputs differ in number or kind" in
            if List.mem UPanic model then begin
              (* the hook's outputs are lost when the Copy panics *)
              if rs <> [A "panic"] then fail v "corr-unknown" "an extent beyond the input must panic (slice bounds), not read"
            end else cmp model rs
        | _ -> fail v "harness" "unparsable observation")
   | L [A "dispatch"] ->
       (match obs with
        | [L [A "ok"; A joined]] ->
            let ents = List.filter (fun x -> x <> "") (String.split_on_char ';' joined) in
            let clean x = List.filter (fun y -> y <> "") (String.split_on_char '_' x) in
            let maps = List.filter_map (fun e -> match clean e with "map" :: k :: vv :: name -> Some ((int_of_string k, int_of_string vv), String.concat "_" name) | _ -> None) ents in
            let lists = List.filter_map (fun e -> match clean e with "list" :: k :: name -> Some (int_of_string k, String.concat "_" name) | _ -> None) ents in
            let mtab = List.map (fun ((k, vv), r) -> ((int_of_n k, int_of_n vv), int_of_n r)) map_dispatch_tab in
            let ltab = List.map (fun (k, r) -> (int_of_n k, int_of_n r)) list_dispatch_tab in
            let keys l = List.sort compare (List.map fst l) in
            if keys maps <> keys mtab then fail v "corr-dispatch" "registered map (key,value) kinds differ from gen/Tables.v";
            if keys lists <> keys ltab then fail v "corr-dispatch" "registered list element kinds differ from gen/Tables.v";
            (* two kind pairs share a routine in the implementation iff they share one in the table *)
            let same_part a b = List.for_all (fun (k1, x1) -> List.for_all (fun (k2, x2) ->
              (x1 = x2) = (List.assoc k1 b = List.assoc k2 b)) a) a in
            if keys maps = keys mtab && not (same_part maps mtab) then fail v "corr-dispatch" "map routine sharing differs from gen/Tables.v";
            if keys lists = keys ltab && not (same_part lists ltab) then fail v "corr-dispatch" "list routine sharing differs from gen/Tables.v"
        | _ -> fail v "harness" "unparsable observation")
   | L [A ("mem" | "keep" as op); A tname; A hx] ->
       let sid = sid_of u tname in
       let nsid = n_of_int sid in
       let bs = bytes_of_hex hx in
       let md = decode_object u.env [] nsid bs (fresh u.env nsid) in
       (match obs with
        | dobs :: L (A "problems" :: probs) :: rest ->
            check_decode u v sid md dobs "corr-";
            List.iter (function A p -> fail v "prop-memory" p | _ -> ()) probs;
            if op = "mem" then begin
              match md, rest with
              | DOk ((mv, _), _), [L (A "inbuf" :: inb); A flipout; L (A "flips" :: flips)] ->
                  (* expected: exactly the non-empty nocopy string/binary fields view the buffer *)
                  let tok p = if p = "" then "-" else
                    String.map (fun c -> match c with ' ' -> '_' | '(' -> '<' | ')' -> '>' | c -> c) p in
                  let exp = ref [] in
                  let may = ref [] in   (* equal to the field's InitDefault value: decoded or left alone, both fine *)
                  let content = ref [] in
                  let rec walk ?(dflt : val0 option) (t : ty) (x : val0) (path : string) (nc : bool) =
                    match t, x with
                    | TPtr t', VP (Some x') -> walk t' x' (path ^ "*") nc
                    | (TString | TBinary), VB (_, s) ->
                        if nc && s <> [] then begin
                          content := (tok path, s) :: !content;
                          match dflt with
                          | Some (VB (_, s')) when s' = s -> may := (tok path, List.length s) :: !may
                          | _ -> exp := (tok path, List.length s) :: !exp
                        end
                    | TList (_, e), VL (Some l) -> List.iteri (fun i y -> walk e y (Printf.sprintf "%s[%d]" path i) false) l
                    | TMap (kt, vt), VM (Some m) ->
                        List.iter (fun (k, y) ->
                          let ks = str_of_val (canon_val k) in
                          walk kt k (path ^ "{k:" ^ ks ^ "}") false; walk vt y (path ^ "{v:" ^ ks ^ "}") false) m
                    | TStruct s', VT (fs, _) ->
                        let sd = List.nth u.env (int_of_n s') in
                        let rec go fds vs ns = match fds, vs, ns with
                          | f :: fr, y :: vr, nm :: nr -> walk ?dflt:f.fdflt f.fty y (path ^ "." ^ nm) f.fnocopy; go fr vr nr
                          | _ -> () in
                        go sd.sfields fs u.fnames.(int_of_n s')
                    | _ -> () in
                  walk (TStruct nsid) mv "" false;
                  let got = List.filter_map (function L [A p; A _; A ln; A cp] -> Some (p, int_of_string ln, int_of_string cp) | _ -> None) inb in
                  let expected = List.sort compare !exp in
                  let gotpl = List.sort compare (List.filter (fun pl -> not (List.mem pl !may)) (List.map (fun (p, l, _) -> (p, l)) got)) in
                  if gotpl <> expected then
                    fail v "prop-nocopy-set" (Printf.sprintf "pieces viewing the input: expected [%s] got [%s]"
                      (String.concat " " (List.map (fun (p, l) -> Printf.sprintf "%s:%d" p l) expected))
                      (String.concat " " (List.map (fun (p, l) -> Printf.sprintf "%s:%d" p l) gotpl)));
                  List.iter (fun (p, l, c) -> if l <> c then fail v "prop-nocopy-cap" (Printf.sprintf "%s len %d cap %d" p l c)) got;
                  (* exactly: the view starts where this value's payload is encoded -- the bytes there are
                     the value and the four bytes before them are its length *)
                  let inp = Array.of_list (List.map int_of_n bs) in
                  List.iter (function
                    | L [A p; A off; A ln; A _] ->
                        let off = int_of_string off and ln = int_of_string ln in
                        (* several values can share a path (pointer map keys that print alike): any of them may be the one *)
                        let cands = List.filter_map (fun (q, sb) -> if q = p then Some (List.map int_of_n sb) else None) !content in
                        let here = if off >= 0 && off + ln <= Array.length inp then Array.to_list (Array.sub inp off ln) else [] in
                        if cands <> [] then begin
                          if not (List.mem here cands) then fail v "prop-nocopy-view" (Printf.sprintf "%s: the input at offset %d does not hold the value" p off)
                          else if off < 4 || (inp.(off-4) lsl 24) lor (inp.(off-3) lsl 16) lor (inp.(off-2) lsl 8) lor inp.(off-1) <> ln then
                            fail v "prop-nocopy-view" (Printf.sprintf "%s: offset %d is not the payload of a %d-byte string in the message" p off ln)
                        end
                    | _ -> ()) inb;
                  if flipout <> "flip-outside:same" then fail v "prop-input-alias" "changing input bytes outside the nocopy values changed the decoded value";
                  List.iter (function L [A p; A r] -> if r <> "changed" then fail v "prop-nocopy-view" (p ^ " does not follow the buffer") | _ -> ()) flips
              | DOk _, _ -> fail v "harness" "unparsable mem observation"
              | _, _ -> ()
            end
        | dobs :: _ -> check_decode u v sid md dobs "corr-"
        | _ -> fail v "harness" "unparsable observation")
   | L [A "recheck"] ->
       (match obs with
        | [L [A "ok"; A _; A bad]] -> if bad <> "0" then fail v "prop-memory-changed" (bad ^ " kept objects changed after later decodes / GC / buffer reuse")
        | _ -> fail v "harness" "unparsable observation")
   | L [A "decm"; A _; A _] ->
       (match obs with
        | [L [A r; A _; A inlen; A alloc; A usec]] ->
            let l = int_of_string inlen and al = int_of_string alloc and us = int_of_string usec in
            if r = "panic" then fail v "panic" "DecodeObject panicked";
            if al > 4096 * (l + 1) + (1 lsl 20) then fail v "prop-alloc" (Printf.sprintf "allocated %d bytes for %d input bytes" al l);
            if us > 200 * (l + 1) + 2_000_000 then fail v "prop-time" (Printf.sprintf "%d us for %d input bytes" us l)
        | _ -> fail v "harness" "unparsable observation")
   | L [A "allocs"; A _; _] ->
       (match obs with
        | [L [A "ok"; A s; A e]] -> if s <> "0" || e <> "0" then fail v "prop-allocs" (Printf.sprintf "EncodedSize %s, EncodeObject %s allocations per 20 calls" s e)
        | L (A "panic" :: _) :: _ | L (A "sizepanic" :: _) :: _ -> fail v "panic" "encoder panicked"
        | _ -> fail v "harness" "unparsable observation")
   | L (A "legacy" :: A name :: rest) ->
       let arg = match rest with A a :: _ -> a | _ -> "0" in
       let want = match name with "SetMaxInlineDepth" | "SetMaxInlineILSize" -> arg | _ -> "0" in
       (match obs with
        | [L [A "ok"; A r]] -> if r <> want then fail v "prop-legacy" (Printf.sprintf "%s returned %s, expected %s" name r want)
        | _ -> fail v "prop-legacy" (name ^ " failed"))
   | L [A "parseuint"; A h] ->
       (* the hand-transcribed model of strconv.ParseUint(s, 0, 64) against the standard library itself *)
       let bs = bytes_of_hex (if h = "-" then "" else h) in
       (match obs, parse_uint0 bs with
        | [L [A "ok"; A r]], UOk n -> if string_of_n n <> r then fail v "corr-strconv" (Printf.sprintf "ParseUint gives %s, the model %s" r (string_of_n n))
        | [L [A "err"]], UErr _ -> ()
        | [L [A "ok"; A r]], UErr _ -> fail v "corr-strconv" ("ParseUint accepts (" ^ r ^ "), the model rejects")
        | [L [A "err"]], UOk n -> fail v "corr-strconv" ("ParseUint rejects, the model gives " ^ string_of_n n)
        | _ -> fail v "harness" "unparsable observation")
   | L [A "env"] ->
       (* the environment the child actually ran under must be one the model of parseOrDefault
          (EnvParse.v) accepts: the generator only emits valid values, so a rejection here is a
          generator / model disagreement, not a violation *)
       (match obs with
        | [L [A "ok"; A h]] ->
            let bs = bytes_of_hex h in
            let rec split acc = function [] -> (List.rev acc, []) | c :: r when int_of_n c = 124 -> (List.rev acc, r) | c :: r -> split (c :: acc) r in
            let (d, i) = split [] bs in
            if not (env_alive d i) then fail v "gen-env-invalid" ("the model of parseOrDefault rejects this environment yet the process lives: " ^ string_of_hex h)
        | _ -> ())
   | L (A "conc" :: A _ :: cs) ->
       (match obs with
        | [L (A "ok" :: rs)] when List.length rs = List.length cs ->
            List.iter2 (fun c r ->
              let sub = judge_case u c (match r with L l -> l | a -> [a]) in
              List.iter2 (fun t d -> fail v t d) (List.rev sub.tags) (List.rev sub.detail)) cs rs
        | [L [A "deadlock"]] -> fail v "prop-deadlock" "after 60 s every remaining goroutine is parked in a synchronisation primitive"
        | [L [A "slow"]] -> fail v "corr-slow" "goroutines still running after 10 minutes (not parked): slow, not shown deadlocked"
        | _ -> fail v "harness" "unparsable observation")
   | _ -> fail v "harness" "unknown case");
  v

let () =
  let u = load_universe Sys.argv.(1) in
  (* C12: the descriptor the model's resolver builds from the tags equals the schema the
     generator printed the tags from; structs the generator marks invalid must be rejected *)
  let bad = ref [] in
  List.iteri (fun i (m, it) ->
    let name = Hashtbl.fold (fun k v acc -> if v = i then k else acc) u.names "?" in
    if List.mem name u.invalid then begin
      if Lazy.force u.valid.(i) then bad := (name ^ ":accepted-by-model") :: !bad
    end else if m <> it then bad := name :: !bad
    else if not (Lazy.force u.valid.(i)) then bad := (name ^ ":rejected-by-model") :: !bad) (List.combine u.env u.intended);
  (match Sys.getenv_opt "JUDGE_DEBUG" with
   | Some nm ->
       let i = Hashtbl.find u.names nm in
       let show (sd : sdesc) =
         Printf.sprintf "holder=%b init=%s fields=%s" sd.sholder
           (match sd.sinit with None -> "none" | Some l -> String.concat ";" (List.map (fun (k, v) -> Printf.sprintf "%d:%s" (int_of_nat k) (str_of_val v)) l))
           (String.concat " " (List.map (fun f -> Printf.sprintf "[%s nc=%b d=%s]" (string_of_n f.fid) f.fnocopy
              (match f.fdflt with None -> "none" | Some v -> str_of_val v)) sd.sfields)) in
       prerr_endline ("MODEL    " ^ show (List.nth u.env i));
       prerr_endline ("INTENDED " ^ show (List.nth u.intended i))
   | None -> ());
  if !bad = [] then print_string "UNIVERSE\tok\n"
  else Printf.printf "UNIVERSE\tMISMATCH\t%s\n" (String.concat "," (List.rev !bad));
  if not (env_ok u.env) then print_string "UNIVERSE\tENV-NOT-OK\n";
  if not (init_ok u.env) then print_string "UNIVERSE\tENV-NOT-OK\tinit_ok\n";
  let ic = open_in_bin Sys.argv.(2) in
  (try
     while true do
       let line = input_line ic in
       match String.split_on_char '\t' line with
       | [id; case; obs] ->
           let v =
             try
               (match parse_sx case with
                | [c] -> judge_case u c (parse_sx obs)
                | _ -> { tags = ["harness"]; detail = ["bad case"] })
             with e -> { tags = ["judge-exception"]; detail = [Printexc.to_string e] } in
           if v.tags = [] then Printf.printf "%s\tok\n" id
           else Printf.printf "%s\tFAIL\t%s\t%s\n" id (String.concat "," (List.rev v.tags)) (String.concat " ;; " (List.rev v.detail))
       | _ -> ()
     done
   with End_of_file -> ());
  close_in ic
